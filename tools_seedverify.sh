#!/bin/sh
# usage: tools_seedverify.sh <worktree> ; verifies an agent's seeded change:
#  with patch: builds, existing suite passes (demo excluded), demo fails; without patch: demo passes.
wt=$1; out=$wt/_out
cd $wt || exit 2
demo=$(cat $out/demo_path.txt 2>/dev/null | head -1 | tr -d ' \n')
[ -z "$demo" ] && demo=$(git status --short | grep zz_demo_test.go | awk '{print $2}' | head -1)
echo "demo=$demo"
pkgdir=$(dirname $demo)
git checkout -q -- . ; git apply $out/patch.diff || { echo "PATCH-NOAPPLY"; exit 1; }
cp $out/zz_demo_test.go $demo 2>/dev/null
(go build ./... && cd internal/dnsserver && go build ./...) || { echo "BUILD-FAIL"; exit 1; }
mv $demo /tmp/zz_demo_hold.go
s1=0
go test -count=1 ./... > /tmp/seedverify_suite.log 2>&1 || s1=1
(cd internal/dnsserver && go test -count=1 ./... >> /tmp/seedverify_suite.log 2>&1) || s1=1
mv /tmp/zz_demo_hold.go $demo
echo "suite_with_patch_fail=$s1"; grep -E "^(FAIL|---)" /tmp/seedverify_suite.log | head -5
d1=0; (cd $pkgdir && go test -count=1 -run 'Demo|demo' . > /tmp/seedverify_demo1.log 2>&1) || d1=1
echo "demo_with_patch_fail=$d1"
git apply -R $out/patch.diff
d0=0; (cd $pkgdir && go test -count=1 -run 'Demo|demo' . > /tmp/seedverify_demo0.log 2>&1) || d0=1
echo "demo_without_patch_fail=$d0"; tail -3 /tmp/seedverify_demo0.log
git apply $out/patch.diff
if [ $s1 = 0 ] && [ $d1 = 1 ] && [ $d0 = 0 ]; then echo "SEED-CONFIRMED"; else echo "SEED-REJECTED"; fi
