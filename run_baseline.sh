#!/bin/sh
# Runs the repository's own test suite (guard off: there are no hooks) and prints pass/fail counts.
fail=0
for m in . internal/dnsserver; do
  (cd /repo/$m && go test -vet=off -count=1 -timeout 25m ./... 2>&1) > /tmp/baseline_$$.log || fail=1
  grep -E "^(FAIL|---|panic)" /tmp/baseline_$$.log | head -20
  grep -c "^ok" /tmp/baseline_$$.log
done
rm -f /tmp/baseline_$$.log
exit $fail
