#!/bin/sh
# usage: tools_seedstore.sh <property> <agent worktree> <seed-name>
# Stores a confirmed seeded change under /verif/seeded/<property>[-name]/ and records
# which check catches it.
prop=$1; wt=$2; name=${3:-$1}
d=/verif/seeded/$name; mkdir -p $d
cp $wt/_out/patch.diff $d/patch.diff
demo=$(head -1 $wt/_out/demo_path.txt | tr -d ' \n')
cp $wt/_out/zz_demo_test.go $d/zz_demo_test.go
cp $wt/_out/notes.md $d/notes.md 2>/dev/null
tool=/verif/tools_seedcheck.sh
[ "$SEEDCHECK" = wt ] && tool=/verif/tools_seedcheck_wt.sh
out=$($tool $prop $d/patch.diff quick 2>&1)
viol=$(echo "$out" | grep '^VIOLATION' | head -3 | tr '\n' ';')
code=$(echo "$out" | grep '^exit=' | cut -d= -f2)
python3 - "$prop" "$d" "$demo" "$viol" "$code" <<'PY'
import json,sys,os
prop,d,demo,viol,code=sys.argv[1:6]
notes=open(os.path.join(d,'notes.md')).read() if os.path.exists(os.path.join(d,'notes.md')) else ''
meta={"property":prop,"demo_test_path":demo,
 "what_i_ran":["tools_seedverify.sh <worktree>: with patch: go build ./... (both modules), full suite (root + internal/dnsserver modules) passes, demo fails; without patch: demo passes",
               "tools_seedcheck.sh %s patch.diff quick: git -C /repo apply; verifeng check %s --tier quick; git -C /repo checkout -- ."%(prop,prop)],
 "check_exit":int(code) if code else None,"check_output":viol,
 "caught": bool(viol) and code=="1"}
json.dump(meta,open(os.path.join(d,'meta.json'),'w'),indent=1)
print(d,meta["caught"],viol)
PY
