package cmd

//verif:pkg internal/cmd

import (
	"net/netip"
	"strings"
	"time"

	"github.com/AdguardTeam/golibs/timeutil"
)

func verifD(d time.Duration) timeutil.Duration { return timeutil.Duration{Duration: d} }

// verifValidHead returns a configuration whose first nine sections (in validation
// order) are valid; the remaining ones are absent.
func verifValidHead() *configuration {
	opts := func(keyLen int) *rateLimitOptions {
		return &rateLimitOptions{Count: 300, Interval: verifD(10 * time.Second), SubnetKeyLen: keyLen}
	}
	srv := []*upstreamServerConfig{{Address: "127.0.0.1:53", Timeout: verifD(time.Second)}}
	return &configuration{
		RateLimit: &rateLimitConfig{
			Allowlist:            &allowListConfig{Type: rlAllowlistTypeBackend, RefreshIvl: verifD(time.Minute)},
			ConnectionLimit:      &connLimitConfig{Stop: 1000, Resume: 800, Enabled: true},
			IPv4:                 opts(24),
			IPv6:                 opts(48),
			QUIC:                 &ratelimitQUICConfig{MaxStreamsPerPeer: 100, Enabled: true},
			TCP:                  &ratelimitTCPConfig{MaxPipelineCount: 100, Enabled: true},
			ResponseSizeEstimate: 1000,
			BackoffCount:         1000,
			BackoffDuration:      verifD(time.Minute),
			BackoffPeriod:        verifD(time.Minute),
		},
		Upstream: &upstreamConfig{
			Healthcheck: &upstreamHealthcheckConfig{Enabled: false},
			Fallback:    &upstreamFallbackConfig{Servers: srv},
			Servers:     srv,
		},
		Cache:    &cacheConfig{Type: cacheTypeSimple, Size: 10, TTLOverride: &ttlOverride{Min: verifD(time.Second)}},
		DNSDB:    &dnsDBConfig{Enabled: false},
		DNS:      &dnsConfig{ReadTimeout: verifD(time.Second), TCPIdleTimeout: verifD(time.Second), WriteTimeout: verifD(time.Second), HandleTimeout: verifD(time.Second), MaxUDPResponseSize: 1024},
		Backend:  &backendConfig{Timeout: verifD(time.Second), RefreshIvl: verifD(time.Second), FullRefreshIvl: verifD(time.Hour), FullRefreshRetryIvl: verifD(time.Minute), BillStatIvl: verifD(time.Second)},
		QueryLog: &queryLogConfig{File: &queryLogFileConfig{}},
		GeoIP:    &geoIPConfig{HostCacheSize: 10, IPCacheSize: 10, RefreshIvl: verifD(time.Hour)},
		Check: &checkConfig{
			RemoteKV:     &remoteKVConfig{Type: kvModeBackend, TTL: verifD(time.Minute)},
			Domains:      []string{"check.example"},
			NodeLocation: "loc",
			NodeName:     "node",
			IPv4:         []netip.Addr{netip.MustParseAddr("192.0.2.1")},
			IPv6:         []netip.Addr{netip.MustParseAddr("2001:db8::1")},
		},
	}
}

// VerifC20TopLevel: the top-level validation really validates each section with that
// section's own rules and names it: a configuration whose only defect is in one of the
// first nine sections is rejected with an error that starts with that section's name.
//
//verif:harness name=H20e-toplevel tier=quick,thorough bounds="configuration with the nine sections ratelimit..check valid (concrete values) and the later ones absent; one chosen section is made absent or gets one bad numeric / enum value" reach=rejected-by-section,first-missing-section maxpaths=20000
//verif:assume the sections from web onwards (servers, groups, TLS, access) are outside this harness
func VerifC20TopLevel() {
	c := verifValidHead()
	keys := []string{"ratelimit", "upstream", "cache", "dnsdb", "dns", "backend", "query_log", "geoip", "check"}
	k := verifChoice(len(keys) + 1)
	if k == len(keys) {
		err := c.validate()
		if err != nil {
			verifObserve("err", err.Error())
		}
		verifAssert("valid-head-then-first-absent-section-is-named", err != nil && strings.HasPrefix(err.Error(), "safe_browsing: ")) // the web section is optional
		verifReach("first-missing-section")
		return
	}
	absent := verifChoice(2) == 1
	switch k {
	case 0:
		if absent {
			c.RateLimit = nil
		} else {
			c.RateLimit.IPv4.Count = 0
		}
	case 1:
		if absent {
			c.Upstream = nil
		} else {
			c.Upstream.Servers[0].Timeout = verifD(0)
		}
	case 2:
		if absent {
			c.Cache = nil
		} else {
			c.Cache.Type = "bogus"
		}
	case 3:
		if absent {
			c.DNSDB = nil
		} else {
			c.DNSDB.Enabled, c.DNSDB.MaxSize = true, 0
		}
	case 4:
		if absent {
			c.DNS = nil
		} else {
			switch verifChoice(5) {
			case 0:
				c.DNS.ReadTimeout = verifD(0)
			case 1:
				c.DNS.TCPIdleTimeout = verifD(2 * time.Hour)
			case 2:
				c.DNS.WriteTimeout = verifD(-time.Second)
			case 3:
				c.DNS.HandleTimeout = verifD(0)
			case 4:
				c.DNS.MaxUDPResponseSize = 70000
			}
		}
	case 5:
		if absent {
			c.Backend = nil
		} else {
			c.Backend.BillStatIvl = verifD(0)
		}
	case 6:
		if absent {
			c.QueryLog = nil
		} else {
			c.QueryLog.File = nil
		}
	case 7:
		if absent {
			c.GeoIP = nil
		} else {
			c.GeoIP.IPCacheSize = 0
		}
	case 8:
		if absent {
			c.Check = nil
		} else {
			c.Check.RemoteKV.TTL = verifD(0)
		}
	}
	err := c.validate()
	verifAssert("defective-section-is-rejected-and-named", err != nil && strings.HasPrefix(err.Error(), keys[k]+": "))
	verifReach("rejected-by-section")
}

// VerifC20Missing: a configuration in which one nested section is missing is rejected
// with an error naming it, never with a crash.
//
//verif:harness name=H20f-missing tier=quick,thorough bounds="the valid head configuration with exactly one nested section absent, from {ratelimit.allowlist, .connection_limit, .ipv4, .ipv6, .quic, .tcp, upstream.healthcheck, upstream.fallback, cache.ttl_override, query_log.file, check.kv}" reach=reported
//verif:assume sections from web onwards are outside this harness
func VerifC20Missing() {
	c := verifValidHead()
	names := []string{"ratelimit: allowlist", "ratelimit: connection_limit", "ratelimit: ipv4", "ratelimit: ipv6", "ratelimit: quic", "ratelimit: tcp", "upstream: healthcheck", "upstream: fallback", "cache: ttl_override", "query_log: file", "check: kv"}
	k := verifChoice(len(names))
	switch k {
	case 0:
		c.RateLimit.Allowlist = nil
	case 1:
		c.RateLimit.ConnectionLimit = nil
	case 2:
		c.RateLimit.IPv4 = nil
	case 3:
		c.RateLimit.IPv6 = nil
	case 4:
		c.RateLimit.QUIC = nil
	case 5:
		c.RateLimit.TCP = nil
	case 6:
		c.Upstream.Healthcheck = nil
	case 7:
		c.Upstream.Fallback = nil
	case 8:
		c.Cache.TTLOverride = nil
	case 9:
		c.QueryLog.File = nil
	case 10:
		c.Check.RemoteKV = nil
	}
	var err error
	panicked := verifCatch(func() { err = c.validate() })
	verifAssert("missing-section-does-not-crash-validation", !panicked)
	verifAssert("missing-section-is-reported-by-name", panicked || (err != nil && strings.HasPrefix(err.Error(), names[k]+": ")))
	verifReach("reported")
}
