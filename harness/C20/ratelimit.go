package cmd

//verif:pkg internal/cmd
//verif:noop github.com/patrickmn/go-cache.runJanitor

import (
	"context"
	"net/netip"
	"strings"
	"time"

	"github.com/AdguardTeam/AdGuardDNS/internal/dnsserver/ratelimit"
	"github.com/AdguardTeam/golibs/logutil/slogutil"
	"github.com/AdguardTeam/golibs/timeutil"
	"github.com/c2h5oh/datasize"
	"github.com/miekg/dns"
)

func verifDur() timeutil.Duration { return timeutil.Duration{Duration: time.Duration(nondetI64())} }

func verifRLConfig() *rateLimitConfig {
	return &rateLimitConfig{
		Allowlist:       &allowListConfig{Type: rlAllowlistTypeBackend, RefreshIvl: verifDur()},
		ConnectionLimit: &connLimitConfig{Stop: nondetU64(), Resume: nondetU64(), Enabled: nondetBool()},
		IPv4:            &rateLimitOptions{Count: nondetUint(), Interval: verifDur(), SubnetKeyLen: nondetInt()},
		IPv6:            &rateLimitOptions{Count: nondetUint(), Interval: verifDur(), SubnetKeyLen: nondetInt()},
		QUIC:            &ratelimitQUICConfig{MaxStreamsPerPeer: nondetInt(), Enabled: nondetBool()},
		TCP:             &ratelimitTCPConfig{MaxPipelineCount: nondetUint(), Enabled: nondetBool()},
		ResponseSizeEstimate: datasize.ByteSize(nondetU64()),
		BackoffCount:         nondetUint(),
		BackoffDuration:      verifDur(),
		BackoffPeriod:        verifDur(),
		RefuseANY:            nondetBool(),
	}
}

var verifRLProps = []string{"allowlist: ", "connection_limit: ", "ipv4: ", "ipv6: ", "quic: ", "tcp: ", "backoff_count: ", "backoff_duration: ", "backoff_period: ", "response_size_estimate: "}

func verifNamesProp(err error, props []string) bool {
	msg := err.Error()
	for _, p := range props {
		if strings.HasPrefix(msg, p) {
			return true
		}
	}
	return false
}

// VerifC20RateLimit: every rate-limit section accepted by validate builds a limiter
// that serves IPv4 and IPv6 queries and counts responses without panicking, a
// connection limiter that can be constructed, and a usable pipeline limit.
//
//verif:harness name=H20a-ratelimit tier=quick,thorough bounds="all numeric/duration/size fields of the ratelimit section full-width symbolic (incl. zero, negative, huge); one IPv4 and one IPv6 query and one 12-byte response through the built limiter (consumer part: counts <= 3, size estimate >= 16)" reach=accepted,rejected,served maxpaths=100000
//verif:assume the go-cache janitor goroutine is not run; YAML decoding is outside the claim (decoded structs are the input domain)
func VerifC20RateLimit() {
	c := verifRLConfig()
	err := c.validate()
	if err != nil {
		verifAssert("rejection-names-the-property", verifNamesProp(err, verifRLProps))
		verifReach("rejected")
		return
	}
	verifReach("accepted")

	// documented-as-positive values are positive, prefix lengths fit the family
	verifAssert("accepted-ipv4-count-positive", c.IPv4.Count > 0)
	verifAssert("accepted-ipv6-count-positive", c.IPv6.Count > 0)
	verifAssert("accepted-backoff-count-positive", c.BackoffCount > 0)
	verifAssert("accepted-response-size-estimate-positive", c.ResponseSizeEstimate > 0)
	verifAssert("accepted-ipv4-subnet-key-len-fits", c.IPv4.SubnetKeyLen > 0 && c.IPv4.SubnetKeyLen <= 32)
	verifAssert("accepted-ipv6-subnet-key-len-fits", c.IPv6.SubnetKeyLen > 0 && c.IPv6.SubnetKeyLen <= 128)
	verifAssert("accepted-max-pipeline-count-positive", c.TCP.MaxPipelineCount > 0)
	verifAssert("accepted-max-streams-per-peer-positive", c.QUIC.MaxStreamsPerPeer > 0)

	// bound: the ring buffers are allocated with count+1 cells
	verifAssume(c.IPv4.Count <= 3)
	verifAssume(c.IPv6.Count <= 3)
	// bound: at most two counted events per response (the zero estimate is covered above)
	verifAssume(c.ResponseSizeEstimate >= 16)

	al := ratelimit.NewDynamicAllowlist(nil, nil)
	ctx := context.Background()
	req := &dns.Msg{Question: []dns.Question{{Name: "example.org.", Qtype: dns.TypeA, Qclass: dns.ClassINET}}}
	resp := (&dns.Msg{}).SetReply(req)
	v4 := netip.AddrFrom4([4]byte{192, 0, 2, 1})
	v6 := netip.AddrFrom16([16]byte{0x20, 0x01, 0x0d, 0xb8, 15: 1})

	var l *ratelimit.Backoff
	verifAssert("limiter-construction-does-not-panic", !verifCatch(func() { l = ratelimit.NewBackoff(c.toInternal(al)) }))
	verifAssert("ipv4-query-does-not-panic", !verifCatch(func() { _, _, _ = l.IsRateLimited(ctx, req, v4) }))
	verifAssert("ipv6-query-does-not-panic", !verifCatch(func() { _, _, _ = l.IsRateLimited(ctx, req, v6) }))
	verifAssert("response-counting-does-not-panic", !verifCatch(func() { l.CountResponses(ctx, resp, v4) }))
	verifAssert("connlimiter-construction-does-not-panic", !verifCatch(func() { _ = c.ConnectionLimit.toInternal(slogutil.NewDiscardLogger()) }))
	verifReach("served")
}
