package cmd

//verif:pkg internal/cmd

import (
	"strings"
	"time"

	"github.com/AdguardTeam/AdGuardDNS/internal/agdcache"
	"github.com/AdguardTeam/AdGuardDNS/internal/dnsmsg"
	dnssrvcache "github.com/AdguardTeam/AdGuardDNS/internal/dnsserver/cache"
	"github.com/AdguardTeam/AdGuardDNS/internal/dnssvc"
	"github.com/AdguardTeam/AdGuardDNS/internal/ecscache"
	"github.com/AdguardTeam/golibs/logutil/slogutil"
	"github.com/c2h5oh/datasize"
)

func verifMentions(err error, props ...string) bool {
	msg := err.Error()
	for _, p := range props {
		if strings.Contains(msg, p) {
			return true
		}
	}
	return false
}

// VerifC20Cache: a cache section accepted by validate builds the response cache the
// server would build for it without panicking; the documented constraints hold.
//
//verif:harness name=H20b-cache tier=quick,thorough bounds="cache.type from {simple, ecs, other}; size, ecs_size and ttl_override.min full-width symbolic; consumer part (cache construction) with sizes <= 2" reach=accepted,rejected,built maxpaths=20000
//verif:assume YAML decoding is outside the claim; cache construction is the real ecscache / dnsserver cache constructor over gcache
func VerifC20Cache() {
	c := &cacheConfig{
		Type:        []string{cacheTypeSimple, cacheTypeECS, "lru"}[verifChoice(3)],
		Size:        nondetInt(),
		ECSSize:     nondetInt(),
		TTLOverride: &ttlOverride{Min: verifDur(), Enabled: nondetBool()},
	}
	err := c.validate()
	if err != nil {
		verifAssert("rejection-names-the-property", verifMentions(err, "type", "size", "ecs_size", "ttl_override: min"))
		verifReach("rejected")
		return
	}
	verifReach("accepted")
	verifAssert("accepted-type-known", c.Type == cacheTypeSimple || c.Type == cacheTypeECS)
	verifAssert("accepted-size-not-negative", c.Size >= 0)
	verifAssert("accepted-ecs-size-positive-for-ecs-type", c.Type != cacheTypeECS || c.ECSSize > 0)
	verifAssert("accepted-min-ttl-positive", c.TTLOverride.Min.Duration > 0)

	// bound of the consumer part
	verifAssume(c.Size <= 2)
	verifAssume(c.ECSSize <= 2)
	conf := c.toInternal()
	panicked := verifCatch(func() {
		switch conf.Type {
		case dnssvc.CacheTypeNone:
		case dnssvc.CacheTypeSimple:
			_ = dnssrvcache.NewMiddleware(&dnssrvcache.MiddlewareConfig{Count: conf.NoECSCount, MinTTL: conf.MinTTL, OverrideTTL: conf.OverrideCacheTTL})
		case dnssvc.CacheTypeECS:
			_ = ecscache.NewMiddleware(&ecscache.MiddlewareConfig{
				Cloner:       dnsmsg.NewCloner(dnsmsg.EmptyClonerStat{}),
				Logger:       slogutil.NewDiscardLogger(),
				CacheManager: agdcache.EmptyManager{},
				NoECSCount:   conf.NoECSCount,
				ECSCount:     conf.ECSCount,
				MinTTL:       conf.MinTTL,
				OverrideTTL:  conf.OverrideCacheTTL,
			})
		default:
			panic("unknown cache type")
		}
	})
	verifAssert("cache-construction-does-not-panic", !panicked)
	verifReach("built")
}

// VerifC20DNS: accepted dns sections have positive timeouts within their maxima and a
// UDP response size in (0, 65535].
//
//verif:harness name=H20c-dns tier=quick,thorough bounds="all four timeouts and max_udp_response_size full-width symbolic" reach=accepted,rejected
func VerifC20DNS() {
	c := &dnsConfig{ReadTimeout: verifDur(), TCPIdleTimeout: verifDur(), WriteTimeout: verifDur(), HandleTimeout: verifDur(), MaxUDPResponseSize: datasize.ByteSize(nondetU64())}
	err := c.validate()
	if err != nil {
		verifAssert("rejection-names-the-property", verifMentions(err, "read_timeout", "tcp_idle_timeout", "write_timeout", "handle_timeout", "max_udp_response_size"))
		verifReach("rejected")
		return
	}
	verifReach("accepted")
	verifAssert("accepted-read-timeout-positive", c.ReadTimeout.Duration > 0)
	verifAssert("accepted-tcp-idle-timeout-in-range", c.TCPIdleTimeout.Duration > 0 && c.TCPIdleTimeout.Duration <= 65535*100*time.Millisecond)
	verifAssert("accepted-write-timeout-positive", c.WriteTimeout.Duration > 0)
	verifAssert("accepted-handle-timeout-positive", c.HandleTimeout.Duration > 0)
	verifAssert("accepted-udp-size-in-range", c.MaxUDPResponseSize > 0 && c.MaxUDPResponseSize <= 65535)
}

// VerifC20Filters: accepted filters / safe-browsing / geoip / backend / dnsdb /
// healthcheck sections have every count, size and interval that feeds an LRU
// constructor (panics on size <= 0) or a ticker (panics on interval <= 0) positive.
//
//verif:harness name=H20d-sections tier=quick,thorough bounds="one section per path from {filters, safe_browsing, geoip, backend, dnsdb, upstream healthcheck, check kv}; every numeric, duration and size field full-width symbolic; flags symbolic" reach=accepted,rejected maxpaths=100000
func VerifC20Sections() {
	switch verifChoice(7) {
	case 0:
		c := &filtersConfig{
			RuleListCache:          &fltRuleListCache{Size: nondetInt(), Enabled: nondetBool()},
			CustomFilterCacheSize:  nondetInt(),
			SafeSearchCacheSize:    nondetInt(),
			ResponseTTL:            verifDur(),
			RefreshIvl:             verifDur(),
			RefreshTimeout:         verifDur(),
			IndexRefreshTimeout:    verifDur(),
			RuleListRefreshTimeout: verifDur(),
			MaxSize:                datasize.ByteSize(nondetU64()),
			EDEEnabled:             nondetBool(),
			SDEEnabled:             nondetBool(),
		}
		if err := c.validate(); err != nil {
			verifAssert("filters-rejection-names-the-property", verifMentions(err, "custom_filter_cache_size", "safe_search_cache_size", "response_ttl", "refresh_interval", "refresh_timeout", "index_refresh_timeout", "rule_list_refresh_timeout", "max_size", "rule_list_cache: size", "ede must be enabled"))
			verifReach("rejected")
			return
		}
		verifAssert("filters-cache-sizes-positive", c.CustomFilterCacheSize > 0 && c.SafeSearchCacheSize > 0)
		verifAssert("filters-rule-list-cache-size-positive-when-enabled", !c.RuleListCache.Enabled || c.RuleListCache.Size > 0)
		verifAssert("filters-response-ttl-positive", c.ResponseTTL.Duration > 0)
		verifAssert("filters-refresh-interval-positive", c.RefreshIvl.Duration > 0)
		verifAssert("filters-timeouts-positive", c.RefreshTimeout.Duration > 0 && c.IndexRefreshTimeout.Duration > 0 && c.RuleListRefreshTimeout.Duration > 0)
		verifAssert("filters-max-size-positive", c.MaxSize > 0)
		verifAssert("filters-sde-needs-ede", !c.SDEEnabled || c.EDEEnabled)
	case 1:
		c := &safeBrowsingConfig{BlockHost: "block.example", CacheSize: nondetInt(), CacheTTL: verifDur(), RefreshIvl: verifDur(), RefreshTimeout: verifDur()}
		if err := c.validate(); err != nil {
			verifAssert("safe-browsing-rejection-names-the-property", verifMentions(err, "cache_size", "cache_ttl", "refresh_interval", "refresh_timeout"))
			verifReach("rejected")
			return
		}
		verifAssert("safe-browsing-cache-size-positive", c.CacheSize > 0)
		verifAssert("safe-browsing-durations-positive", c.CacheTTL.Duration > 0 && c.RefreshIvl.Duration > 0 && c.RefreshTimeout.Duration > 0)
	case 2:
		c := &geoIPConfig{HostCacheSize: nondetInt(), IPCacheSize: nondetInt(), RefreshIvl: verifDur()}
		if err := c.validate(); err != nil {
			verifAssert("geoip-rejection-names-the-property", verifMentions(err, "host_cache_size", "ip_cache_size", "refresh_interval"))
			verifReach("rejected")
			return
		}
		verifAssert("geoip-cache-sizes-positive", c.HostCacheSize > 0 && c.IPCacheSize > 0)
		verifAssert("geoip-refresh-interval-positive", c.RefreshIvl.Duration > 0)
	case 3:
		c := &backendConfig{Timeout: verifDur(), RefreshIvl: verifDur(), FullRefreshIvl: verifDur(), FullRefreshRetryIvl: verifDur(), BillStatIvl: verifDur()}
		if err := c.validate(); err != nil {
			verifAssert("backend-rejection-names-the-property", verifMentions(err, "timeout", "refresh_interval", "full_refresh_interval", "full_refresh_retry_interval", "bill_stat_interval"))
			verifReach("rejected")
			return
		}
		verifAssert("backend-timeout-not-negative", c.Timeout.Duration >= 0)
		verifAssert("backend-intervals-positive", c.RefreshIvl.Duration > 0 && c.FullRefreshIvl.Duration > 0 && c.FullRefreshRetryIvl.Duration > 0 && c.BillStatIvl.Duration > 0)
	case 4:
		c := &dnsDBConfig{MaxSize: nondetInt(), Enabled: nondetBool()}
		if err := c.validate(); err != nil {
			verifAssert("dnsdb-rejection-names-the-property", verifMentions(err, "size"))
			verifReach("rejected")
			return
		}
		verifAssert("dnsdb-size-positive-when-enabled", !c.Enabled || c.MaxSize > 0)
	case 5:
		c := &upstreamHealthcheckConfig{DomainTmpl: "${RANDOM}.example", Interval: verifDur(), Timeout: verifDur(), BackoffDuration: verifDur(), Enabled: nondetBool()}
		if err := c.validate(); err != nil {
			verifAssert("healthcheck-rejection-names-the-property", verifMentions(err, "interval", "timeout", "backoff_duration"))
			verifReach("rejected")
			return
		}
		verifAssert("healthcheck-durations-positive-when-enabled", !c.Enabled || (c.Interval.Duration > 0 && c.Timeout.Duration > 0 && c.BackoffDuration.Duration > 0))
	case 6:
		c := &remoteKVConfig{Type: []string{kvModeBackend, kvModeCache, kvModeConsul, kvModeRedis, "etcd"}[verifChoice(5)], TTL: verifDur()}
		if err := c.validate(); err != nil {
			verifAssert("kv-rejection-names-the-property", verifMentions(err, "ttl", "type"))
			verifReach("rejected")
			return
		}
		verifAssert("kv-type-known", c.Type != "etcd")
		verifAssert("kv-backend-ttl-positive", c.Type != kvModeBackend || c.TTL.Duration > 0)
		verifAssert("kv-consul-ttl-in-range", c.Type != kvModeConsul || (c.TTL.Duration >= 10e9 && c.TTL.Duration <= 24*3600e9))
		verifAssert("kv-redis-ttl-at-least-1ms", c.Type != kvModeRedis || c.TTL.Duration >= 1e6)
	}
	verifReach("accepted")
}
