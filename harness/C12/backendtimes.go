package backendpb

//verif:pkg internal/backendpb

import (
	"context"
	"io"
	"strconv"
	"time"

	"github.com/AdguardTeam/AdGuardDNS/internal/agd"
	"github.com/AdguardTeam/AdGuardDNS/internal/profiledb"
	"github.com/AdguardTeam/golibs/logutil/slogutil"
	"github.com/AdguardTeam/golibs/netutil"
	"google.golang.org/grpc"
	"google.golang.org/grpc/metadata"
	"google.golang.org/protobuf/types/known/durationpb"
)

type verifErrColl12b struct{}

func (verifErrColl12b) Collect(context.Context, error) {}

// verifProfStream delivers the profiles of one synchronisation.
type verifProfStream struct {
	grpc.ServerStreamingClient[DNSProfile]
	profs    []*DNSProfile
	pos      int
	syncTime int64
}

func (s *verifProfStream) Recv() (*DNSProfile, error) {
	if s.pos >= len(s.profs) {
		return nil, io.EOF
	}
	s.pos++
	return s.profs[s.pos-1], nil
}
func (s *verifProfStream) CloseSend() error { return nil }
func (s *verifProfStream) Trailer() metadata.MD {
	return metadata.MD{"sync_time": []string{strconv.FormatInt(s.syncTime, 10)}}
}

type verifProfClient struct {
	DNSServiceClient
	next *verifProfStream
}

func (c *verifProfClient) GetDNSProfiles(ctx context.Context, in *DNSProfilesRequest, opts ...grpc.CallOption) (grpc.ServerStreamingClient[DNSProfile], error) {
	return c.next, nil
}

func verifBackendProfile(rule string) *DNSProfile {
	return &DNSProfile{
		DnsId:               "prof1234",
		FilteringEnabled:    true,
		SafeBrowsing:        &SafeBrowsingSettings{},
		Parental:            &ParentalSettings{},
		RuleLists:           &RuleListsSettings{},
		Devices:             []*DeviceSettings{{Id: "dev12345", Name: "phone", FilteringEnabled: true}},
		CustomRules:         []string{rule},
		FilteredResponseTtl: durationpb.New(10 * time.Second),
		BlockingMode:        &DNSProfile_BlockingModeNxdomain{BlockingModeNxdomain: &BlockingModeNXDOMAIN{}},
	}
}

// VerifC12UpdateTimes: the version stamp that the per-profile cache of compiled custom
// rules relies on never goes backwards: a profile delivered by a later synchronisation
// - incremental or full - carries an update time that is not earlier than the one it
// carried before, so that changed rules are compiled again.
//
//verif:harness name=H12h-update-times tier=quick,thorough bounds="two consecutive synchronisations through backendpb.ProfileStorage.Profiles with a stub gRPC stream, each full (zero sync time) or incremental (sync time one minute back); the profile's custom rules differ; the clock advances by 1 ms or 1 h between them" reach=done,full-after-incremental maxpaths=20000
//verif:assume the gRPC client is a stub stream delivering one profile and the sync_time trailer
func VerifC12UpdateTimes() {
	s := &ProfileStorage{
		bindSet:     netutil.SliceSubnetSet{},
		errColl:     verifErrColl12b{},
		logger:      slogutil.NewDiscardLogger(),
		grpcMetrics: EmptyGRPCMetrics{},
		metrics:     EmptyProfileDBMetrics{},
		apiKey:      "key",
		respSzEst:   1000,
		maxProfSize: 1 << 20,
	}
	client := &verifProfClient{}
	s.client = client
	now := int64(1_700_000_000_000_000_000)
	var upd [2]time.Time
	var full [2]bool
	for k := 0; k < 2; k++ {
		now += []int64{1_000_000, 3_600_000_000_000}[verifChoice(2)]
		verifSetClock(now)
		req := &profiledb.StorageProfilesRequest{}
		full[k] = verifChoice(2) == 1
		if !full[k] {
			req.SyncTime = time.Unix(0, now-60_000_000_000)
		}
		client.next = &verifProfStream{profs: []*DNSProfile{verifBackendProfile([]string{"||old.example^", "||new.example^"}[k])}, syncTime: 1_700_000_000_000}
		resp, err := s.Profiles(context.Background(), req)
		verifAssert("synchronisation-succeeds", err == nil && resp != nil && len(resp.Profiles) == 1)
		if err != nil || resp == nil || len(resp.Profiles) != 1 {
			return
		}
		var p *agd.Profile = resp.Profiles[0]
		verifAssert("custom-rules-delivered", p.FilterConfig != nil && p.FilterConfig.Custom != nil && len(p.FilterConfig.Custom.Rules) == 1)
		upd[k] = p.FilterConfig.Custom.UpdateTime
	}
	verifAssert("rule-update-time-never-goes-backwards", !upd[1].Before(upd[0]))
	if full[1] && !full[0] {
		verifReach("full-after-incremental")
	}
	verifReach("done")
}
