package hashprefix

//verif:pkg internal/filter/hashprefix

import (
	"context"
	"net/netip"
	"net/url"
	"time"

	"github.com/AdguardTeam/AdGuardDNS/internal/agdcache"
	"github.com/AdguardTeam/AdGuardDNS/internal/dnsmsg"
	"github.com/AdguardTeam/AdGuardDNS/internal/filter/internal"
	"github.com/AdguardTeam/golibs/logutil/slogutil"
	"github.com/miekg/dns"
)

// verifResCache is a small result cache honouring the agdcache.Interface contract; a
// lookup may also miss (eviction is arbitrary).
type verifResCache struct {
	keys   []internal.CacheKey
	vals   []*cacheItem
	clears int
}

func (c *verifResCache) Set(k internal.CacheKey, v *cacheItem) {
	for i := range c.keys {
		if c.keys[i] == k {
			c.vals[i] = v
			return
		}
	}
	c.keys, c.vals = append(c.keys, k), append(c.vals, v)
}
func (c *verifResCache) SetWithExpire(k internal.CacheKey, v *cacheItem, _ time.Duration) { c.Set(k, v) }
func (c *verifResCache) Get(k internal.CacheKey) (*cacheItem, bool) {
	for i := range c.keys {
		if c.keys[i] == k {
			return c.vals[i], true
		}
	}
	return nil, false
}
func (c *verifResCache) Clear()   { c.keys, c.vals = nil, nil; c.clears++ }
func (c *verifResCache) Len() int { return len(c.keys) }

type verifNoCache struct{}

func (verifNoCache) Set(internal.CacheKey, *cacheItem)                          {}
func (verifNoCache) SetWithExpire(internal.CacheKey, *cacheItem, time.Duration) {}
func (verifNoCache) Get(internal.CacheKey) (*cacheItem, bool)                   { return nil, false }
func (verifNoCache) Clear()                                                     {}
func (verifNoCache) Len() int                                                   { return 0 }

func verifFilter(hashes *Storage, cached bool, repFQDN bool) *Filter {
	repHost := "203.0.113.1"
	if repFQDN {
		repHost = "safe.example"
	}
	// built by the real constructor, so that the harness does not depend on the
	// filter's private fields other than the result cache it replaces
	f, err := NewFilter(&FilterConfig{
		Logger:          slogutil.NewDiscardLogger(),
		Cloner:          dnsmsg.NewCloner(dnsmsg.EmptyClonerStat{}),
		CacheManager:    agdcache.EmptyManager{},
		Hashes:          hashes,
		URL:             &url.URL{Scheme: "http", Host: "lists.example", Path: "/sb"},
		ErrColl:         verifErrColl12{},
		Metrics:         internal.EmptyMetrics{},
		ID:              internal.IDSafeBrowsing,
		CachePath:       "/nonexistent/verif",
		ReplacementHost: repHost,
		Staleness:       time.Hour,
		CacheTTL:        time.Hour,
		RefreshTimeout:  time.Second,
		CacheCount:      16,
		MaxSize:         1 << 20,
	})
	verifAssume(err == nil)
	if cached {
		f.resCache = &verifResCache{}
	} else {
		f.resCache = verifNoCache{}
	}
	return f
}

type verifErrColl12 struct{}

func (verifErrColl12) Collect(context.Context, error) {}

func verifConstructor(mode dnsmsg.BlockingMode, ttl time.Duration) *dnsmsg.Constructor {
	c, err := dnsmsg.NewConstructor(&dnsmsg.ConstructorConfig{
		Cloner:              dnsmsg.NewCloner(dnsmsg.EmptyClonerStat{}),
		BlockingMode:        mode,
		StructuredErrors:    &dnsmsg.StructuredDNSErrorsConfig{Enabled: false},
		FilteredResponseTTL: ttl,
	})
	verifAssume(err == nil)
	return c
}

func verifRequester(host string, qt uint16, msgs *dnsmsg.Constructor) *internal.Request {
	req := &dns.Msg{}
	req.SetQuestion(dns.Fqdn(host), qt)
	req.Id = nondetU16()
	req.RecursionDesired = nondetBool()
	req.CheckingDisabled = nondetBool()
	if verifChoice(2) == 1 {
		req.SetEdns0(nondetU16(), verifChoice(2) == 1)
	}
	return &internal.Request{DNS: req, Messages: msgs, Host: host, QType: qt, QClass: dns.ClassINET,
		RemoteIP: netip.AddrFrom4([4]byte{nondetU8(), nondetU8(), nondetU8(), nondetU8()})}
}

// verifSameResult asserts that two filtering results are indistinguishable.
func verifSameResult(a, b internal.Result) {
	switch a := a.(type) {
	case nil:
		verifAssert("same-verdict-kind", b == nil)
	case *internal.ResultModifiedResponse:
		bb, ok := b.(*internal.ResultModifiedResponse)
		verifAssert("same-verdict-kind", ok)
		if !ok {
			return
		}
		verifAssert("same-list-and-rule", a.List == bb.List && a.Rule == bb.Rule)
		verifSameMsg(a.Msg, bb.Msg)
	case *internal.ResultModifiedRequest:
		bb, ok := b.(*internal.ResultModifiedRequest)
		verifAssert("same-verdict-kind", ok)
		if !ok {
			return
		}
		verifAssert("same-list-and-rule", a.List == bb.List && a.Rule == bb.Rule)
		verifAssert("same-rewritten-question", a.Msg.Question[0] == bb.Msg.Question[0])
		verifAssert("same-request-flags", a.Msg.RecursionDesired == bb.Msg.RecursionDesired && a.Msg.CheckingDisabled == bb.Msg.CheckingDisabled)
		ao, bo := a.Msg.IsEdns0(), bb.Msg.IsEdns0()
		verifAssert("same-request-opt", (ao == nil) == (bo == nil))
		if ao != nil && bo != nil {
			verifAssert("same-request-opt-data", ao.UDPSize() == bo.UDPSize() && ao.Do() == bo.Do())
		}
	default:
		verifAssert("unexpected-result-kind", false)
	}
}

func verifSameMsg(a, b *dns.Msg) {
	verifAssert("same-response-id-and-question", a.Id == b.Id && len(a.Question) == 1 && len(b.Question) == 1 && a.Question[0] == b.Question[0])
	verifAssert("same-response-header", a.Rcode == b.Rcode && a.RecursionDesired == b.RecursionDesired && a.RecursionAvailable == b.RecursionAvailable)
	verifAssert("same-response-record-counts", len(a.Answer) == len(b.Answer) && len(a.Ns) == len(b.Ns))
	if len(a.Answer) == len(b.Answer) {
		for i := range a.Answer {
			ha, hb := a.Answer[i].Header(), b.Answer[i].Header()
			verifAssert("same-answer-header-and-ttl", ha.Rrtype == hb.Rrtype && ha.Ttl == hb.Ttl && ha.Name == hb.Name)
			if x, ok := a.Answer[i].(*dns.A); ok {
				y, ok2 := b.Answer[i].(*dns.A)
				verifAssert("same-answer-address", ok2 && x.A.Equal(y.A))
			}
		}
	}
	if len(a.Ns) == len(b.Ns) {
		for i := range a.Ns {
			verifAssert("same-authority-ttl", a.Ns[i].Header().Ttl == b.Ns[i].Header().Ttl)
		}
	}
}

// VerifC12HashPrefix: with the hash-prefix result cache enabled, a requester gets the
// same verdict and the same filtered message as without it, whoever populated the cache.
//
//verif:harness name=H12a-hashprefix tier=quick,thorough bounds="two requesters for the same host with independently chosen qtypes (A, AAAA, HTTPS, TXT; host listed or not) with independent symbolic ID, RD/CD, OPT presence / size / DO, client address and with different profiles (blocking mode null-IP vs NXDOMAIN, filtered-response TTL 10 s vs 300 s); replacement by IP or by host name; second requester compared with a cache-less twin" reach=hit-compared,matched,not-matched maxpaths=200000
//verif:assume the result cache is a stub honouring the agdcache contract; SHA-256 computed for the concrete host names
func VerifC12HashPrefix() {
	hashes, err := NewStorage("bad.example\n# comment\nother.example\n")
	verifAssume(err == nil)
	repFQDN := verifChoice(2) == 1
	host := []string{"bad.example", "sub.bad.example", "good.example"}[verifChoice(3)]
	qts := []uint16{dns.TypeA, dns.TypeAAAA, dns.TypeHTTPS, dns.TypeTXT}
	qt := qts[verifChoice(4)]
	// the request that populated the cache may have asked for another type
	qt0 := qts[verifChoice(4)]
	c0 := verifConstructor(&dnsmsg.BlockingModeNullIP{}, 10*time.Second)
	c1 := verifConstructor(&dnsmsg.BlockingModeNXDOMAIN{}, 300*time.Second)
	ctx := context.Background()

	cached := verifFilter(hashes, true, repFQDN)
	r0 := verifRequester(host, qt0, c0)
	_, err0 := cached.FilterRequest(ctx, r0)
	verifAssert("no-error", err0 == nil)
	r1 := verifRequester(host, qt, c1)
	got, err1 := cached.FilterRequest(ctx, r1)
	verifAssert("no-error", err1 == nil)

	plain := verifFilter(hashes, false, repFQDN)
	want, err2 := plain.FilterRequest(ctx, r1)
	verifAssert("no-error", err2 == nil)

	verifSameResult(got, want)
	verifReach("hit-compared")
	if want != nil {
		verifReach("matched")
	} else {
		verifReach("not-matched")
	}
}
