package rulelist

//verif:pkg internal/filter/internal/rulelist
//verif:stub (*github.com/AdguardTeam/AdGuardDNS/internal/filter/internal/refreshable.Refreshable).Refresh verifRLRefrRefresh

import (
	"context"

	"github.com/AdguardTeam/AdGuardDNS/internal/filter/internal/refreshable"
	"github.com/AdguardTeam/golibs/logutil/slogutil"
)

var verifRLNewText string

func verifRLRefrRefresh(r *refreshable.Refreshable, ctx context.Context, acceptStale bool) (string, error) {
	return verifRLNewText, nil
}

// verifNewRefreshableList builds a refreshable list serving oldText whose next
// refresh downloads newText.
func verifNewRefreshableList(oldText, newText string, cache ResultCache) *Refreshable {
	f, err := NewFromString(oldText, "list_a", "", cache)
	verifAssume(err == nil)
	f.logger = slogutil.NewDiscardLogger()
	verifRLNewText = newText
	return f
}
