package hashprefix

//verif:pkg internal/filter/hashprefix
//verif:stub (*github.com/AdguardTeam/AdGuardDNS/internal/filter/internal/refreshable.Refreshable).Refresh verifRefrRefresh

import (
	"context"

	"github.com/AdguardTeam/AdGuardDNS/internal/filter/internal/refreshable"
)

var verifListText string

// verifRefrRefresh stands in for the download in the symbolic build.
func verifRefrRefresh(r *refreshable.Refreshable, ctx context.Context, acceptStale bool) (string, error) {
	return verifListText, nil
}

func verifInstallList(f *Filter, text string) { verifListText = text }
