package hashprefix

//verif:pkg internal/filter/hashprefix

import (
	"net/url"
	"os"
	"path/filepath"

	"github.com/AdguardTeam/AdGuardDNS/internal/filter/internal/refreshable"
	"github.com/AdguardTeam/golibs/logutil/slogutil"
)

// verifInstallList makes the filter refresh from a local file holding text.
func verifInstallList(f *Filter, text string) {
	dir, err := os.MkdirTemp("", "verif-hp-")
	if err != nil {
		panic(err)
	}
	p := filepath.Join(dir, "list.txt")
	if err = os.WriteFile(p, []byte(text), 0o600); err != nil {
		panic(err)
	}
	f.refr, err = refreshable.New(&refreshable.Config{
		Logger:    slogutil.NewDiscardLogger(),
		URL:       &url.URL{Scheme: "file", Path: p},
		ID:        f.id,
		CachePath: filepath.Join(dir, "cache"),
		MaxSize:   1 << 20,
	})
	if err != nil {
		panic(err)
	}
}
