package hashprefix

//verif:pkg internal/filter/hashprefix

import (
	"context"
	"net/netip"
	"strings"
	"time"

	"github.com/AdguardTeam/AdGuardDNS/internal/dnsmsg"
	"github.com/AdguardTeam/AdGuardDNS/internal/filter/internal"
	"github.com/miekg/dns"
)

func verifPlainRequester(host string, qt uint16, msgs *dnsmsg.Constructor) *internal.Request {
	req := &dns.Msg{}
	req.SetQuestion(dns.Fqdn(host), qt)
	req.Id = nondetU16()
	return &internal.Request{DNS: req, Messages: msgs, Host: host, QType: qt, QClass: dns.ClassINET,
		RemoteIP: netip.AddrFrom4([4]byte{192, 0, 2, 1})}
}

// VerifC12FailedRefresh: a hash-list refresh that fails while the new list is being
// read (a line longer than the scanner accepts, after some valid lines) leaves the
// filter answering every host as the same filter with an empty cache does: whatever
// the failed update did to the hashes, no cached verdict disagrees with them.  The
// previous list also stays in force.
//
//verif:harness name=H12g-failed-refresh tier=quick,thorough bounds="old list {bad.example}; 0..2 hosts from {bad.example, other.example, good.example} asked before the refresh; the refresh delivers other.example followed by a 70000-byte line (scanner error) or a well-formed new list; then each of the three hosts is asked again and compared with a cache-less filter over the same hashes" reach=done,refresh-failed,refresh-ok maxpaths=20000
//verif:assume the result cache is a stub honouring the agdcache contract; the download is a stub delivering the given text (natively a local file)
func VerifC12FailedRefresh() {
	hashes, err := NewStorage("bad.example\n")
	verifAssume(err == nil)
	f := verifFilter(hashes, true, false)
	plain := verifFilter(hashes, false, false)
	hosts := []string{"bad.example", "other.example", "good.example"}
	msgs := verifConstructor(&dnsmsg.BlockingModeNullIP{}, 10*time.Second)
	ctx := context.Background()

	for n := verifChoice(3); n > 0; n-- {
		_, ferr := f.FilterRequest(ctx, verifPlainRequester(hosts[verifChoice(3)], dns.TypeA, msgs))
		verifAssert("no-error", ferr == nil)
	}

	fails := verifChoice(2) == 1
	if fails {
		verifInstallList(f, "other.example\n"+strings.Repeat("a", 70000)+"\nbad.example\n")
	} else {
		verifInstallList(f, "other.example\n")
	}
	rerr := f.Refresh(ctx)
	verifAssert("refresh-fails-iff-the-list-is-unreadable", (rerr != nil) == fails)

	for _, h := range hosts {
		got, err1 := f.FilterRequest(ctx, verifPlainRequester(h, dns.TypeA, msgs))
		want, err2 := plain.FilterRequest(ctx, verifPlainRequester(h, dns.TypeA, msgs))
		verifAssert("no-error", err1 == nil && err2 == nil)
		verifAssert("cached-verdict-agrees-with-the-hashes-in-force", (got == nil) == (want == nil))
		if fails {
			verifAssert("failed-refresh-keeps-the-previous-list", (want != nil) == (h == "bad.example"))
		} else {
			verifAssert("successful-refresh-installs-the-new-list", (want != nil) == (h == "other.example"))
		}
	}
	if fails {
		verifReach("refresh-failed")
	} else {
		verifReach("refresh-ok")
	}
	verifReach("done")
}

// VerifC12KeyCollision: the result-cache key is a 64-bit hash; should two hosts ever
// share a key, the item cached for one host is not served to the other: the verdict
// still equals the one without the cache.
//
//verif:harness name=H12i-key-collision tier=quick,thorough bounds="hosts bad.example (listed) and good.example (not listed); the item cached for one host is also stored under the other host's key (an emulated collision), then the other host is asked; both directions" reach=done,collision-hit maxpaths=20000
//verif:assume the collision is emulated by storing the cached item under the other host's key; the result cache is a stub honouring the agdcache contract
func VerifC12KeyCollision() {
	hashes, err := NewStorage("bad.example\n")
	verifAssume(err == nil)
	f := verifFilter(hashes, true, false)
	plain := verifFilter(hashes, false, false)
	cache := f.resCache.(*verifResCache)
	msgs := verifConstructor(&dnsmsg.BlockingModeNullIP{}, 10*time.Second)
	ctx := context.Background()
	first, second := "bad.example", "good.example"
	if verifChoice(2) == 1 {
		first, second = second, first
	}
	_, err0 := f.FilterRequest(ctx, verifPlainRequester(first, dns.TypeA, msgs))
	verifAssert("no-error", err0 == nil)
	verifAssume(len(cache.vals) == 1)
	cache.Set(internal.NewCacheKey(second, dns.TypeA, dns.ClassINET, false), cache.vals[0])
	verifReach("collision-hit")
	got, err1 := f.FilterRequest(ctx, verifPlainRequester(second, dns.TypeA, msgs))
	want, err2 := plain.FilterRequest(ctx, verifPlainRequester(second, dns.TypeA, msgs))
	verifAssert("no-error", err1 == nil && err2 == nil)
	verifAssert("item-of-another-host-is-not-served", (got == nil) == (want == nil))
	verifReach("done")
}
