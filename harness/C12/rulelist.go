package rulelist

//verif:pkg internal/filter/internal/rulelist

import (
	"net/netip"

	"github.com/AdguardTeam/AdGuardDNS/internal/agdcache"
	"github.com/AdguardTeam/AdGuardDNS/internal/filter/internal"
	"github.com/AdguardTeam/urlfilter"
	"github.com/miekg/dns"
)

func verifRuleSig(r *urlfilter.DNSResult) (n int, white bool, text string) {
	if r == nil {
		return 0, false, ""
	}
	n = len(r.NetworkRules) + len(r.HostRulesV4) + len(r.HostRulesV6)
	if r.NetworkRule != nil {
		white = r.NetworkRule.Whitelist
		text = r.NetworkRule.RuleText
	}
	return n, white, text
}

// VerifC12RuleList: a rule list answers the same with its result cache as without
// it, whichever client populated the cache, and after the list text is replaced no
// request is answered from the old version.
//
//verif:harness name=H12b-rulelist tier=quick,thorough bounds="a list of 3 rules (block, allow, $dnstype) through the real urlfilter engine; 4 hosts x {A, AAAA}; two clients with symbolic address, the first (cache-populating) one with its own qtype and request/answer flag; request/answer flag both ways; cache = real agdcache.LRU" reach=done,blocked,allowed,none maxpaths=50000
//verif:assume rules carry no client-specific modifiers; rule text matching is done by the real urlfilter engine on concrete names
func VerifC12RuleList() {
	text := "||blocked.example^\n@@||allowed.example^\n||typed.example^$dnstype=AAAA\n"
	cache := agdcache.NewLRU[internal.CacheKey, *CacheItem](&agdcache.LRUConfig{Count: 8})
	cached, err := NewFromString(text, "list_a", "", cache)
	verifAssume(err == nil)
	plain, err := NewFromString(text, "list_a", "", ResultCacheEmpty{})
	verifAssume(err == nil)

	host := []string{"blocked.example", "sub.allowed.example", "typed.example", "free.example"}[verifChoice(4)]
	qt := []uint16{dns.TypeA, dns.TypeAAAA}[verifChoice(2)]
	isAns := verifChoice(2) == 1
	ip0 := netip.AddrFrom4([4]byte{nondetU8(), nondetU8(), nondetU8(), nondetU8()})
	ip1 := netip.AddrFrom4([4]byte{nondetU8(), nondetU8(), nondetU8(), nondetU8()})

	// another question first (must not influence the answer), then client 0, then client 1
	_ = cached.DNSResult(ip0, "c0", "blocked.example", dns.TypeA, false)
	qt0 := []uint16{dns.TypeA, dns.TypeAAAA}[verifChoice(2)]
	isAns0 := verifChoice(2) == 1
	_ = cached.DNSResult(ip0, "c0", host, qt0, isAns0)
	got := cached.DNSResult(ip1, "c1", host, qt, isAns)
	want := plain.DNSResult(ip1, "c1", host, qt, isAns)
	gn, gw, gt := verifRuleSig(got)
	wn, ww, wt := verifRuleSig(want)
	verifAssert("cached-verdict-equals-uncached", gn == wn && gw == ww && gt == wt)
	switch {
	case wn == 0:
		verifReach("none")
	case ww:
		verifReach("allowed")
	default:
		verifReach("blocked")
	}
	verifReach("done")
}

// VerifC12CacheKey: two lookups share a cache key only if type, class and the
// request/answer flag are equal (the host is compared separately).
//
//verif:harness name=H12c-cache-key tier=quick,thorough bounds="same host, symbolic qtype, qclass and answer flag" reach=same,different
//verif:assume maphash without 64-bit collisions between different streams
func VerifC12CacheKey() {
	qt0, qt1, cl0, cl1 := nondetU16(), nondetU16(), nondetU16(), nondetU16()
	a0, a1 := nondetBool(), nondetBool()
	k0 := internal.NewCacheKey("example.org", qt0, cl0, a0)
	k1 := internal.NewCacheKey("example.org", qt1, cl1, a1)
	if k0 == k1 {
		verifAssert("same-key-same-type-class-flag", verifAnd(qt0 == qt1, cl0 == cl1, a0 == a1))
		verifReach("same")
	} else {
		verifReach("different")
	}
}
