package custom

//verif:pkg internal/filter/internal/custom

import (
	"context"
	"net/netip"
	"time"

	"github.com/AdguardTeam/AdGuardDNS/internal/agdcache"
	"github.com/AdguardTeam/AdGuardDNS/internal/filter/internal"
	"github.com/AdguardTeam/golibs/logutil/slogutil"
	"github.com/miekg/dns"
)

type verifErrColl12c struct{}

func (verifErrColl12c) Collect(context.Context, error) {}

// VerifC12Custom: the per-profile cache of compiled custom rules never hands a profile
// another profile's rules, nor an older version of its own rules after an update.
//
//verif:harness name=H12f-custom tier=quick bounds="2 profiles, each with rule versions 0..2 whose update times are symbolic and strictly increasing; 4 lookups, each for either profile, optionally after bumping its version; real LRU (2 entries) and real urlfilter engine; verdicts probed for 3 hosts" reach=done,hit,recompiled maxpaths=200000
//verif:assume rule texts are concrete; time comparison over symbolic instants
func VerifC12Custom() { verifC12Custom(4) }

// VerifC12Custom6 is the thorough variant.
//
//verif:harness name=H12f-custom6 tier=thorough bounds="as H12f-custom with 6 lookups" reach=done,hit,recompiled maxpaths=5000000
func VerifC12Custom6() { verifC12Custom(6) }

func verifC12Custom(steps int) {
	f := New(&Config{
		Logger:       slogutil.NewDiscardLogger(),
		ErrColl:      verifErrColl12c{},
		CacheConf:    &agdcache.LRUConfig{Count: 2},
		CacheManager: agdcache.EmptyManager{},
	})
	// rules[profile][version]: which of the probe hosts is blocked
	hosts := []string{"a.example", "b.example", "c.example"}
	blocked := [2][3]int{{0, 1, 2}, {1, 2, 0}}
	var times [3]int64
	times[0] = nondetI64()
	verifAssume(times[0] > 1<<40)
	verifAssume(times[0] < 1<<61)
	for k := 1; k < 3; k++ {
		d := nondetI64()
		verifAssume(d > 0)
		verifAssume(d < 1<<40)
		times[k] = times[k-1] + d
	}
	ver := [2]int{}
	ids := [2]string{"prof0000", "prof0001"}
	ctx := context.Background()
	for step := 0; step < steps; step++ {
		p := verifChoice(2)
		if ver[p] < 2 && verifChoice(2) == 1 {
			ver[p]++ // the profile's custom rules were updated
		}
		b := blocked[p][ver[p]]
		c := &ClientConfig{
			ID:         ids[p],
			UpdateTime: time.Unix(0, times[ver[p]]),
			Rules:      []internal.RuleText{internal.RuleText("||" + hosts[b] + "^")},
			Enabled:    true,
		}
		before := f.cache.Len()
		rl := f.Get(ctx, c)
		verifAssert("compiled-rules-returned", rl != nil)
		if rl == nil {
			return
		}
		for hi, h := range hosts {
			r := rl.DNSResult(netip.MustParseAddr("198.51.100.7"), "", h, dns.TypeA, false)
			isBlocked := r != nil && r.NetworkRule != nil && !r.NetworkRule.Whitelist
			verifAssert("verdict-of-the-profile's-current-rules", isBlocked == (hi == b))
		}
		if f.cache.Len() == before {
			verifReach("hit")
		} else {
			verifReach("recompiled")
		}
	}
	verifReach("done")
}
