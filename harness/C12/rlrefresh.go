package rulelist

//verif:pkg internal/filter/internal/rulelist

import (
	"context"
	"net/netip"
	"time"

	"github.com/AdguardTeam/AdGuardDNS/internal/filter/internal"
	"github.com/miekg/dns"
)

// verifHookRLCache is a result cache honouring the contract, with a hook that fires
// at a chosen operation (the points at which a concurrent actor can interleave).
type verifHookRLCache struct {
	keys   []internal.CacheKey
	vals   []*CacheItem
	hookAt string
	hook   func()
}

func (c *verifHookRLCache) fire(op string) {
	if c.hook != nil && c.hookAt == op {
		h := c.hook
		c.hook = nil
		h()
	}
}
func (c *verifHookRLCache) Set(k internal.CacheKey, v *CacheItem) {
	c.fire("set")
	for i := range c.keys {
		if c.keys[i] == k {
			c.vals[i] = v
			return
		}
	}
	c.keys, c.vals = append(c.keys, k), append(c.vals, v)
}
func (c *verifHookRLCache) SetWithExpire(k internal.CacheKey, v *CacheItem, _ time.Duration) {
	c.Set(k, v)
}
func (c *verifHookRLCache) Get(k internal.CacheKey) (*CacheItem, bool) {
	c.fire("get")
	for i := range c.keys {
		if c.keys[i] == k {
			return c.vals[i], true
		}
	}
	return nil, false
}
func (c *verifHookRLCache) Clear() {
	c.keys, c.vals = nil, nil
	c.fire("clear")
}
func (c *verifHookRLCache) Len() int { return len(c.keys) }

// VerifC12RuleListRefresh: once a rule-list refresh has completed, no later request
// is answered from a verdict computed with the old rules, also when a query runs
// concurrently with the refresh.
//
//verif:harness name=H12e-rulelist-refresh tier=quick,thorough bounds="a refreshable rule list whose new text drops (or adds) the rule for the queried host, or whose old text has no rules at all; a query before the refresh, or one query running concurrently with the refresh, started at the refresh's cache clear or the refresh started at the query's cache lookup / update (either thread may run first); then a query after both have finished" reach=done,concurrent,sequential maxpaths=20000 switches=0
//verif:assume threads switch only when blocked, finished or at the harness yield inside the cache stub
func VerifC12RuleListRefresh() {
	oldKind := verifChoice(3)
	oldHas := oldKind == 1
	oldText, newText := "||blocked.example^\n", "||other.example^\n"
	switch oldKind {
	case 0:
		oldText, newText = newText, oldText
	case 2:
		// a version without any rule (comments only), then one with the rule
		oldText, newText = "! a header without rules\n", oldText
	}
	cache := &verifHookRLCache{}
	f := verifNewRefreshableList(oldText, newText, cache)
	ip := netip.MustParseAddr("198.51.100.7")
	ctx := context.Background()

	switch verifChoice(4) {
	case 3: // nothing concurrent: a query before the refresh, then the refresh
		_ = f.DNSResult(ip, "", "blocked.example", dns.TypeA, false)
		err := f.Refresh(ctx, false)
		verifAssert("refresh-succeeds", err == nil)
		verifReach("sequential")
	case 0: // a query sneaks in while the refresh is clearing the cache
		cache.hookAt = "clear"
		cache.hook = func() {
			verifReach("concurrent")
			go func() { _ = f.DNSResult(ip, "", "blocked.example", dns.TypeA, false) }()
			verifYield()
		}
		err := f.Refresh(ctx, false)
		verifAssert("refresh-succeeds", err == nil)
	default: // the refresh starts while a query is between its cache lookup and update
		cache.hookAt = []string{"get", "set"}[verifChoice(2)]
		cache.hook = func() {
			verifReach("concurrent")
			go func() {
				rerr := f.Refresh(ctx, false)
				verifAssert("refresh-succeeds", rerr == nil)
			}()
			verifYield()
		}
		_ = f.DNSResult(ip, "", "blocked.example", dns.TypeA, false)
	}
	verifRunAll()

	got := f.DNSResult(ip, "", "blocked.example", dns.TypeA, false)
	blocked := got != nil && got.NetworkRule != nil && !got.NetworkRule.Whitelist
	verifAssert("verdict-of-the-new-rules-after-refresh", blocked == !oldHas)
	verifReach("done")
}
