package rulelist

//verif:pkg internal/filter/internal/rulelist

import (
	"net/http"
	"net/http/httptest"
	"net/url"
	"os"
	"path/filepath"
	"time"

	"github.com/AdguardTeam/AdGuardDNS/internal/filter/internal/refreshable"
	"github.com/AdguardTeam/golibs/logutil/slogutil"
)

func verifNewRefreshableList(oldText, newText string, cache ResultCache) *Refreshable {
	f, err := NewFromString(oldText, "list_a", "", cache)
	if err != nil {
		panic(err)
	}
	f.logger = slogutil.NewDiscardLogger()
	srv := httptest.NewServer(http.HandlerFunc(func(w http.ResponseWriter, r *http.Request) {
		_, _ = w.Write([]byte(newText))
	}))
	dir, err := os.MkdirTemp("", "verif-rl-")
	if err != nil {
		panic(err)
	}
	u, _ := url.Parse(srv.URL + "/list_a.txt")
	f.refr, err = refreshable.New(&refreshable.Config{
		Logger:    slogutil.NewDiscardLogger(),
		URL:       u,
		ID:        "list_a",
		CachePath: filepath.Join(dir, "list_a"),
		Staleness: time.Nanosecond,
		Timeout:   2 * time.Second,
		MaxSize:   1 << 20,
	})
	if err != nil {
		panic(err)
	}
	return f
}
