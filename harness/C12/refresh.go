package hashprefix

//verif:pkg internal/filter/hashprefix

import (
	"context"
	"time"

	"github.com/AdguardTeam/AdGuardDNS/internal/dnsmsg"
	"github.com/AdguardTeam/AdGuardDNS/internal/filter/internal"
	"github.com/miekg/dns"
)

// verifHookCache is verifResCache with a hook that fires before a chosen operation.
type verifHookCache struct {
	verifResCache
	hookAt string
	hook   func()
}

func (c *verifHookCache) fire(op string) {
	if c.hook != nil && c.hookAt == op {
		h := c.hook
		c.hook = nil
		h()
	}
}
func (c *verifHookCache) Set(k internal.CacheKey, v *cacheItem) {
	c.fire("set")
	c.verifResCache.Set(k, v)
}
func (c *verifHookCache) SetWithExpire(k internal.CacheKey, v *cacheItem, d time.Duration) {
	c.Set(k, v)
}
func (c *verifHookCache) Get(k internal.CacheKey) (*cacheItem, bool) {
	c.fire("get")
	return c.verifResCache.Get(k)
}

// VerifC12Refresh: once a hash list refresh has completed, no later request is
// answered from a verdict computed with the old list, also when the refresh ran
// concurrently with a request that was between its list lookup and its cache update.
//
//verif:harness name=H12d-refresh-race tier=quick,thorough bounds="one request for a host that the old list contains and the new one does not (or vice versa), a concurrent refresh started before the request's cache lookup or before its cache update (either thread may run first), then a second request after both have finished" reach=done,refresh-during-request maxpaths=20000 switches=0
//verif:assume threads switch only when blocked, finished or at the harness yield inside the cache stub (no preemption elsewhere)
func VerifC12Refresh() {
	oldHas := verifChoice(2) == 1
	oldText, newText := "bad.example\n", "other.example\n"
	if !oldHas {
		oldText, newText = newText, oldText
	}
	hashes, err := NewStorage(oldText)
	verifAssume(err == nil)
	cache := &verifHookCache{}
	f := verifFilter(hashes, true, false)
	f.resCache = cache
	verifInstallList(f, newText)

	msgs := verifConstructor(&dnsmsg.BlockingModeNullIP{}, 10*time.Second)
	ctx := context.Background()
	cache.hookAt = []string{"get", "set"}[verifChoice(2)]
	cache.hook = func() {
		verifReach("refresh-during-request")
		go func() {
			rerr := f.Refresh(ctx)
			verifAssert("refresh-succeeds", rerr == nil)
		}()
		verifYield()
	}
	_, err0 := f.FilterRequest(ctx, verifRequester("bad.example", dns.TypeA, msgs))
	verifAssert("no-error", err0 == nil)
	verifRunAll()

	// the refresh has completed: the verdict must be the new list's
	got, err1 := f.FilterRequest(ctx, verifRequester("bad.example", dns.TypeA, msgs))
	verifAssert("no-error", err1 == nil)
	if oldHas {
		verifAssert("verdict-of-the-new-list-after-refresh", got == nil)
	} else {
		verifAssert("verdict-of-the-new-list-after-refresh", got != nil)
	}
	verifReach("done")
}
