package ecscache

//verif:pkg internal/ecscache

import (
	"strings"
	"context"
	"net"
	"net/netip"

	"github.com/AdguardTeam/AdGuardDNS/internal/agd"
	"github.com/AdguardTeam/AdGuardDNS/internal/dnsserver"
	"github.com/AdguardTeam/AdGuardDNS/internal/geoip"
	"github.com/AdguardTeam/golibs/netutil"
	"github.com/miekg/dns"
)

type verifGeo4 struct{}

func (verifGeo4) SubnetByLocation(*geoip.Location, netutil.AddrFamily) (netip.Prefix, error) {
	return netip.MustParsePrefix("203.0.113.0/24"), nil
}
func (verifGeo4) Data(string, netip.Addr) (*geoip.Location, error) { return nil, nil }

// verifUpstream4 answers every question the same way (a function of the question).
type verifUpstream4 struct {
	calls int
	ad    bool
	rcode int
	ttl   uint32
	scope uint8
}

func (u *verifUpstream4) ServeDNS(ctx context.Context, rw dnsserver.ResponseWriter, req *dns.Msg) error {
	u.calls++
	resp := (&dns.Msg{}).SetReply(req)
	resp.Rcode = u.rcode
	resp.AuthenticatedData = u.ad
	resp.RecursionAvailable = true
	if u.rcode == dns.RcodeSuccess {
		resp.Answer = []dns.RR{&dns.A{Hdr: dns.RR_Header{Name: req.Question[0].Name, Rrtype: dns.TypeA, Class: dns.ClassINET, Ttl: u.ttl}, A: net.IP{192, 0, 2, 55}}}
	} else {
		resp.Ns = []dns.RR{&dns.SOA{Hdr: dns.RR_Header{Name: "org.", Rrtype: dns.TypeSOA, Class: dns.ClassINET, Ttl: u.ttl}, Ns: "ns.org.", Mbox: "m.org.", Minttl: u.ttl}}
	}
	if o := req.IsEdns0(); o != nil {
		resp.SetEdns0(1232, o.Do())
		ro := resp.IsEdns0()
		for _, e := range o.Option {
			if s, ok := e.(*dns.EDNS0_SUBNET); ok {
				ro.Option = append(ro.Option, &dns.EDNS0_SUBNET{Code: dns.EDNS0SUBNET, Family: s.Family, SourceNetmask: s.SourceNetmask, SourceScope: u.scope, Address: s.Address})
			}
		}
	}
	return rw.WriteMsg(ctx, req, resp)
}

type verifRW4 struct {
	writes int
	resp   *dns.Msg
}

func (w *verifRW4) LocalAddr() net.Addr  { return &net.UDPAddr{IP: net.IP{192, 0, 2, 1}, Port: 53} }
func (w *verifRW4) RemoteAddr() net.Addr { return &net.UDPAddr{IP: net.IP{198, 51, 100, 7}, Port: 4321} }
func (w *verifRW4) WriteMsg(_ context.Context, _, resp *dns.Msg) error {
	w.writes++
	w.resp = resp
	return nil
}

func verifAsk4(mw *Middleware, up *verifUpstream4, ad, do bool) *dns.Msg {
	return verifAsk4x(mw, up, ad, do, true, false, "example.org.", 0)
}

// verifAsk4x asks with every header bit, the ID and the spelling of the name chosen by
// the caller.
func verifAsk4x(mw *Middleware, up *verifUpstream4, ad, do, rd, cd bool, name string, id uint16) *dns.Msg {
	req := &dns.Msg{}
	req.SetQuestion(name, dns.TypeA)
	req.Id = id
	req.RecursionDesired = rd
	req.CheckingDisabled = cd
	req.AuthenticatedData = ad
	if do {
		req.SetEdns0(1232, true)
	}
	ri := &agd.RequestInfo{RemoteIP: netip.MustParseAddr("198.51.100.7"), Host: "example.org", QType: dns.TypeA, QClass: dns.ClassINET, Proto: agd.ProtoDNS}
	rw := &verifRW4{}
	err := mw.Wrap(up).ServeDNS(agd.ContextWithRequestInfo(context.Background(), ri), rw, req)
	verifAssert("served", err == nil && rw.writes == 1)
	return rw.resp
}

// VerifC04CachedEqualsFresh: an answer served from the ECS-aware cache has the same
// rcode, flags and records as the answer the same request gets from upstream, whoever
// populated the cache.
//
//verif:harness name=H04e-cached-equals-fresh tier=quick,thorough bounds="first requester and second requester of the same question with independent symbolic AD / DO / RD / CD bits, IDs and spelling of the name; upstream answer with symbolic AD, rcode from {NOERROR, NXDOMAIN}, scope zero or not; second requester compared with a cache-less twin; one-slot cache stub" reach=hit,compared maxpaths=50000
//verif:assume no expiry between the two requests (TTL 300, same instant); upstream is a function of the question
func VerifC04CachedEqualsFresh() {
	verifPoolMode(1) // released pooled objects (cache requests, cloned messages) are handed back
	verifSetClock(1 << 40)
	up := &verifUpstream4{ad: nondetBool(), rcode: []int{dns.RcodeSuccess, dns.RcodeNameError}[verifChoice(2)], ttl: 300}
	if verifChoice(2) == 1 {
		up.scope = 24
	}
	ad0, do0 := nondetBool(), verifChoice(2) == 1
	ad1, do1 := nondetBool(), verifChoice(2) == 1

	cached := verifMW(&verifCache{}, &verifCache{})
	cached.geoIP = verifGeo4{}
	// the two requesters differ in everything the cache key does not contain
	rd0, cd0, rd1, cd1 := nondetBool(), nondetBool(), nondetBool(), nondetBool()
	id0, id1 := nondetU16(), nondetU16()
	names := []string{"example.org.", "ExAmPlE.oRg."}
	n0, n1 := names[verifChoice(2)], names[verifChoice(2)]
	_ = verifAsk4x(cached, up, ad0, do0, rd0, cd0, n0, id0)
	before := up.calls
	got := verifAsk4x(cached, up, ad1, do1, rd1, cd1, n1, id1)
	hit := up.calls == before

	freshUp := &verifUpstream4{ad: up.ad, rcode: up.rcode, ttl: up.ttl, scope: up.scope}
	plain := verifMW(&verifCache{}, &verifCache{})
	plain.geoIP = verifGeo4{}
	want := verifAsk4x(plain, freshUp, ad1, do1, rd1, cd1, n1, id1)

	if hit {
		verifReach("hit")
	}
	verifAssert("same-rcode", got.Rcode == want.Rcode)
	verifAssert("same-ad-flag", got.AuthenticatedData == want.AuthenticatedData)
	verifAssert("same-ra-flag", got.RecursionAvailable == want.RecursionAvailable)
	verifAssert("same-rd-and-cd-flags", got.RecursionDesired == want.RecursionDesired && got.CheckingDisabled == want.CheckingDisabled)
	verifAssert("same-id-and-question-spelling", got.Id == want.Id && len(got.Question) == 1 && len(want.Question) == 1 && got.Question[0] == want.Question[0])
	verifAssert("same-record-counts", len(got.Answer) == len(want.Answer) && len(got.Ns) == len(want.Ns))
	if len(got.Answer) == 1 && len(want.Answer) == 1 {
		a, b := got.Answer[0].(*dns.A), want.Answer[0].(*dns.A)
		verifAssert("same-answer-data", a.A.Equal(b.A) && a.Hdr.Rrtype == b.Hdr.Rrtype && strings.EqualFold(a.Hdr.Name, b.Hdr.Name))
		verifAssert("cached-ttl-not-above-fresh", a.Hdr.Ttl <= b.Hdr.Ttl)
	}
	verifReach("compared")
}
