package cache

//verif:pkg internal/dnsserver/cache

import (
	"net"
	"time"

	"github.com/miekg/dns"
)

func verifC04Resp(ttl uint32, rcode int) (req, resp *dns.Msg) {
	req = &dns.Msg{}
	req.SetQuestion("example.org.", dns.TypeA)
	req.Id = nondetU16()
	resp = &dns.Msg{}
	resp.SetReply(req)
	resp.Rcode = rcode
	resp.RecursionAvailable = true
	if rcode == dns.RcodeSuccess {
		resp.Answer = []dns.RR{&dns.A{
			Hdr: dns.RR_Header{Name: "example.org.", Rrtype: dns.TypeA, Class: dns.ClassINET, Ttl: ttl},
			A:   net.IP{192, 0, 2, 1},
		}}
	} else {
		resp.Ns = []dns.RR{&dns.SOA{
			Hdr: dns.RR_Header{Name: "org.", Rrtype: dns.TypeSOA, Class: dns.ClassINET, Ttl: ttl},
			Ns:  "ns.org.", Mbox: "m.org.", Minttl: ttl,
		}}
	}
	return req, resp
}

// VerifC04SimpleTTL: a TTL served from the simple cache never exceeds the original
// TTL minus the age (rounded), for every age below expiry.
//
//verif:harness name=H04a-simple-ttl tier=quick,thorough bounds="one cached answer record, TTL full 32-bit, age any value in [0, TTL) nanosecond-exact; float64 arithmetic encoded in the FloatingPoint theory" reach=served prefer=cvc5
//verif:assume an entry older than its lowest TTL is not returned by the underlying LRU (SetWithExpire contract; the expiry handed to it is checked in H04f-simple-store)
func VerifC04SimpleTTL() {
	ttl := nondetU32()
	verifAssume(ttl > 0)
	ageS, ageNS := nondetI64(), nondetI64()
	age := verifDurationParts(ageS, ageNS)
	verifAssume(ageS < int64(ttl)) // age below expiry
	when := int64(1) << 40
	req, resp := verifC04Resp(ttl, dns.RcodeSuccess)
	m := NewMiddleware(&MiddlewareConfig{Count: 1})
	item := cacheItem{when: time.Unix(0, when), msg: resp}
	verifSetClock(when + age)
	got := m.fromCacheItem(item, req)
	verifAssert("one-answer", len(got.Answer) == 1)
	served := got.Answer[0].Header().Ttl
	ageSec := time.Duration(age).Seconds()
	verifAssert("served-ttl-at-most-original-minus-age-rounded", float64(served) <= float64(ttl)-ageSec+0.5)
	verifAssert("served-ttl-at-most-original", served <= ttl)
	verifAssert("id-of-request", got.Id == req.Id)
	verifReach("served")
}

// VerifC04SimpleSections: every record of every section of a negative answer served
// from the simple cache has aged - answer, authority and additional alike - on the
// first hit and on later hits of the same entry, and a hit does not change the entry.
//
//verif:harness name=H04g-simple-sections tier=quick,thorough bounds="cached NXDOMAIN or NOERROR message with a CNAME answer, an SOA authority record and a TXT additional record (TTL 100 or 7 each, independently); two consecutive hits at ages from {0, 1.6 s, 3 s, 6.4 s} (non-decreasing)" reach=served,aged maxpaths=20000
//verif:assume ages below the lowest TTL (the LRU's expiry is decided in H04f-simple-store)
func VerifC04SimpleSections() {
	ttls := []uint32{100, 7}
	ta, tn, te := ttls[verifChoice(2)], ttls[verifChoice(2)], ttls[verifChoice(2)]
	req := &dns.Msg{}
	req.SetQuestion("example.org.", dns.TypeA)
	req.Id = nondetU16()
	resp := (&dns.Msg{}).SetReply(req)
	if verifChoice(2) == 1 {
		resp.Rcode = dns.RcodeNameError
	}
	resp.Answer = []dns.RR{&dns.CNAME{Hdr: dns.RR_Header{Name: "example.org.", Rrtype: dns.TypeCNAME, Class: dns.ClassINET, Ttl: ta}, Target: "x.example."}}
	resp.Ns = []dns.RR{&dns.SOA{Hdr: dns.RR_Header{Name: "example.", Rrtype: dns.TypeSOA, Class: dns.ClassINET, Ttl: tn}, Ns: "ns.example.", Mbox: "m.example.", Minttl: 3600}}
	resp.Extra = []dns.RR{&dns.TXT{Hdr: dns.RR_Header{Name: "example.org.", Rrtype: dns.TypeTXT, Class: dns.ClassINET, Ttl: te}, Txt: []string{"x"}}}
	lowest := ta
	if tn < lowest {
		lowest = tn
	}
	if te < lowest {
		lowest = te
	}
	when := int64(1) << 40
	m := NewMiddleware(&MiddlewareConfig{Count: 1})
	item := cacheItem{when: time.Unix(0, when), msg: resp}
	ages := []int64{0, 1_600_000_000, 3_000_000_000, 6_400_000_000}
	prev := 0
	for hit := 0; hit < 2; hit++ {
		k := prev + verifChoice(len(ages)-prev)
		prev = k
		age := ages[k]
		verifSetClock(when + age)
		got := m.fromCacheItem(item, req)
		verifAssert("same-sections", len(got.Answer) == 1 && len(got.Ns) == 1 && len(got.Extra) == 1)
		if len(got.Answer) != 1 || len(got.Ns) != 1 || len(got.Extra) != 1 {
			return
		}
		// whole seconds spent in the cache, rounded half up as the documentation says
		spent := uint32((age + 500_000_000) / 1_000_000_000)
		want := lowest - spent
		for _, rr := range []dns.RR{got.Answer[0], got.Ns[0], got.Extra[0]} {
			verifAssert("every-record-served-with-the-aged-ttl", rr.Header().Ttl <= want)
		}
		verifAssert("hit-does-not-change-the-cached-entry", resp.Answer[0].Header().Ttl == ta && resp.Ns[0].Header().Ttl == tn && resp.Extra[0].Header().Ttl == te)
		verifAssert("id-of-request", got.Id == req.Id)
		if spent > 0 {
			verifReach("aged")
		}
	}
	verifReach("served")
}
