package cache

//verif:pkg internal/dnsserver/cache

import (
	"net"
	"time"

	"github.com/miekg/dns"
)

func verifC04Resp(ttl uint32, rcode int) (req, resp *dns.Msg) {
	req = &dns.Msg{}
	req.SetQuestion("example.org.", dns.TypeA)
	req.Id = nondetU16()
	resp = &dns.Msg{}
	resp.SetReply(req)
	resp.Rcode = rcode
	resp.RecursionAvailable = true
	if rcode == dns.RcodeSuccess {
		resp.Answer = []dns.RR{&dns.A{
			Hdr: dns.RR_Header{Name: "example.org.", Rrtype: dns.TypeA, Class: dns.ClassINET, Ttl: ttl},
			A:   net.IP{192, 0, 2, 1},
		}}
	} else {
		resp.Ns = []dns.RR{&dns.SOA{
			Hdr: dns.RR_Header{Name: "org.", Rrtype: dns.TypeSOA, Class: dns.ClassINET, Ttl: ttl},
			Ns:  "ns.org.", Mbox: "m.org.", Minttl: ttl,
		}}
	}
	return req, resp
}

// VerifC04SimpleTTL: a TTL served from the simple cache never exceeds the original
// TTL minus the age (rounded), for every age below expiry.
//
//verif:harness name=H04a-simple-ttl tier=quick,thorough bounds="one cached answer record, TTL full 32-bit, age any value in [0, TTL) nanosecond-exact; float64 arithmetic encoded in the FloatingPoint theory" reach=served prefer=cvc5
//verif:assume an entry older than its lowest TTL is not returned by the underlying LRU (SetWithExpire contract; the expiry handed to it is checked in H04f-simple-store)
func VerifC04SimpleTTL() {
	ttl := nondetU32()
	verifAssume(ttl > 0)
	ageS, ageNS := nondetI64(), nondetI64()
	age := verifDurationParts(ageS, ageNS)
	verifAssume(ageS < int64(ttl)) // age below expiry
	when := int64(1) << 40
	req, resp := verifC04Resp(ttl, dns.RcodeSuccess)
	m := NewMiddleware(&MiddlewareConfig{Count: 1})
	item := cacheItem{when: time.Unix(0, when), msg: resp}
	verifSetClock(when + age)
	got := m.fromCacheItem(item, req)
	verifAssert("one-answer", len(got.Answer) == 1)
	served := got.Answer[0].Header().Ttl
	ageSec := time.Duration(age).Seconds()
	verifAssert("served-ttl-at-most-original-minus-age-rounded", float64(served) <= float64(ttl)-ageSec+0.5)
	verifAssert("served-ttl-at-most-original", served <= ttl)
	verifAssert("id-of-request", got.Id == req.Id)
	verifReach("served")
}
