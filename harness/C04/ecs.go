package ecscache

//verif:pkg internal/ecscache

import (
	"context"
	"net"
	"net/netip"
	"time"

	"github.com/AdguardTeam/AdGuardDNS/internal/dnsmsg"
	"github.com/AdguardTeam/golibs/logutil/slogutil"
	"github.com/AdguardTeam/golibs/syncutil"
	"github.com/miekg/dns"
)

// verifCache is a one-slot cache that honours the documented contract of
// agdcache.Interface: Get returns the stored value iff the key matches and the entry
// has not expired.
type verifCache struct {
	has   bool
	key   uint64
	val   *cacheItem
	until int64 // ns
	sets  int
	exp   time.Duration
}

func (c *verifCache) Set(key uint64, val *cacheItem) { c.SetWithExpire(key, val, 0) }
func (c *verifCache) SetWithExpire(key uint64, val *cacheItem, exp time.Duration) {
	c.has, c.key, c.val, c.exp = true, key, val, exp
	c.until = time.Now().UnixNano() + int64(exp)
	c.sets++
}
func (c *verifCache) Get(key uint64) (val *cacheItem, ok bool) {
	if !c.has || c.key != key || time.Now().UnixNano() >= c.until {
		return nil, false
	}
	return c.val, true
}
func (c *verifCache) Clear()   { c.has = false }
func (c *verifCache) Len() int { return 0 }

func verifMW(noECS, ecs *verifCache) *Middleware {
	return &Middleware{
		cloner:   dnsmsg.NewCloner(dnsmsg.EmptyClonerStat{}),
		cacheReqPool: syncutil.NewPool(func() (req *cacheRequest) {
			return &cacheRequest{}
		}),
		logger:   slogutil.NewDiscardLogger(),
		cache:    noECS,
		ecsCache: ecs,
	}
}

func verifAnswer(ttl uint32) (req, resp *dns.Msg) {
	req = &dns.Msg{}
	req.SetQuestion("example.org.", dns.TypeA)
	req.Id = nondetU16()
	resp = &dns.Msg{}
	resp.SetReply(req)
	resp.RecursionAvailable = true
	resp.Answer = []dns.RR{&dns.A{
		Hdr: dns.RR_Header{Name: "example.org.", Rrtype: dns.TypeA, Class: dns.ClassINET, Ttl: ttl},
		A:   net.IP{192, 0, 2, 1},
	}}
	return req, resp
}

// VerifC04ECSTTL: the TTL served by the ECS cache is the original TTL minus the age,
// rounded to the nearest second, and zero from expiry on.
//
//verif:harness name=H04b-ecs-ttl tier=quick,thorough bounds="one cached answer record, TTL full 32-bit, age any int64 in [0, 2^62) nanoseconds (before and after expiry)" reach=served-live,served-expired prefer=int
func VerifC04ECSTTL() {
	ttl := nondetU32()
	verifAssume(ttl > 0)
	age := nondetI64()
	verifAssume(age >= 0)
	verifAssume(age < 1<<62)
	when := int64(1) << 40
	req, resp := verifAnswer(ttl)
	item := &cacheItem{when: time.Unix(0, when), msg: resp, host: "example.org"}
	verifSetClock(when + age)
	got := fromCacheItem(item, dnsmsg.NewCloner(dnsmsg.EmptyClonerStat{}), req, false)
	verifAssert("one-answer", len(got.Answer) == 1)
	served := int64(got.Answer[0].Header().Ttl)
	full := int64(ttl) * 1000000000
	if age >= full {
		verifAssert("expired-entry-served-with-zero-ttl", served == 0)
		verifReach("served-expired")
	} else {
		verifAssert("served-ttl-at-most-original-minus-age-rounded", served*1000000000 <= full-age+500000000)
		verifReach("served-live")
	}
	verifAssert("id-of-request", got.Id == req.Id)
	verifAssert("rcode-kept", got.Rcode == resp.Rcode)
}

func verifPrefix(is6 bool) netip.Prefix {
	var a netip.Addr
	if is6 {
		var b [16]byte
		for i := range b {
			b[i] = nondetU8()
		}
		a = netip.AddrFrom16(b)
	} else {
		var b [4]byte
		for i := range b {
			b[i] = nondetU8()
		}
		a = netip.AddrFrom4(b)
	}
	bits := int(nondetU8())
	if is6 {
		verifAssume(bits <= 128)
	} else {
		verifAssume(bits <= 32)
	}
	return netip.PrefixFrom(a, bits)
}

func verifCR(host string) *cacheRequest {
	return &cacheRequest{
		host:          host,
		subnet:        verifPrefix(verifChoice(2) == 1),
		qType:         nondetU16(),
		qClass:        nondetU16(),
		reqDO:         nondetBool(),
		isECSDeclined: nondetBool(),
	}
}

// VerifC04ECSKeys: two requests get the same cache key only if every field that
// must separate entries is equal.
//
//verif:harness name=H04c-ecs-keys tier=quick,thorough bounds="two cache requests for the same host with symbolic qtype, qclass, DO, declined flag, subnet (either family, full-width address and length); both cache kinds" reach=same-key-ecs,same-key-noecs,different-key
//verif:assume maphash is an uninterpreted function of the byte stream without 64-bit collisions between different streams (hosts are compared separately by itemFromCache)
func VerifC04ECSKeys() {
	mw := verifMW(&verifCache{}, &verifCache{})
	a, b := verifCR("example.org"), verifCR("example.org")
	dep := verifChoice(2) == 1
	ka, kb := mw.toCacheKey(a, dep), mw.toCacheKey(b, dep)
	if ka != kb {
		verifReach("different-key")
		return
	}
	verifAssert("same-key-same-qtype", a.qType == b.qType)
	verifAssert("same-key-same-qclass", a.qClass == b.qClass)
	verifAssert("same-key-same-do", a.reqDO == b.reqDO)
	if dep {
		verifAssert("same-key-same-family", a.subnet.Addr().Is6() == b.subnet.Addr().Is6())
		verifAssert("same-key-same-subnet-address", a.subnet.Addr() == b.subnet.Addr())
		verifAssert("same-key-same-subnet-length", a.subnet.Bits() == b.subnet.Bits())
		verifReach("same-key-ecs")
	} else {
		verifAssert("same-key-same-family", a.subnet.Addr().Is6() == b.subnet.Addr().Is6())
		verifAssert("same-key-same-declined-flag", a.isECSDeclined == b.isECSDeclined)
		verifReach("same-key-noecs")
	}
	// the two cache kinds never share a key for the same request
	verifAssert("kinds-separated", mw.toCacheKey(a, true) != mw.toCacheKey(a, false))
}

// VerifC04ECSStoreHit: what set stores is what a later get returns (apart from
// TTL, ID), only cacheable answers are stored, nothing is returned after expiry.
//
//verif:harness name=H04d-ecs-store tier=quick,thorough bounds="one upstream answer: rcode in {NOERROR, NXDOMAIN, SERVFAIL, REFUSED}, TC symbolic, one A/CNAME/other answer or SOA authority with symbolic TTL (incl. 0); TTL override off or on with a symbolic minimum; one later lookup at any age; one-slot cache stub honouring the SetWithExpire contract" reach=stored,not-stored,hit,miss-after-expiry,override prefer=int maxpaths=40000
//verif:assume the LRU returns an entry iff the key matches and it has not expired (contract of agdcache.Interface; eviction not modelled)
func VerifC04ECSStoreHit() {
	noECS, ecs := &verifCache{}, &verifCache{}
	mw := verifMW(noECS, ecs)
	ttl := nondetU32()
	req, resp := verifAnswer(ttl)
	rcodes := []int{dns.RcodeSuccess, dns.RcodeNameError, dns.RcodeServerFailure, dns.RcodeRefused}
	resp.Rcode = rcodes[verifChoice(4)]
	resp.Truncated = nondetBool()
	resp.AuthenticatedData = nondetBool()
	hasMatching := false
	hasSOA := false
	soaMin := uint32(0)
	switch verifChoice(4) {
	case 0: // matching answer
		hasMatching = true
	case 1: // CNAME only
		resp.Answer = []dns.RR{&dns.CNAME{Hdr: dns.RR_Header{Name: "example.org.", Rrtype: dns.TypeCNAME, Class: dns.ClassINET, Ttl: ttl}, Target: "x.example."}}
	case 2: // NODATA with SOA
		resp.Answer = nil
		soaMin = nondetU32()
		resp.Ns = []dns.RR{&dns.SOA{Hdr: dns.RR_Header{Name: "org.", Rrtype: dns.TypeSOA, Class: dns.ClassINET, Ttl: ttl}, Ns: "ns.org.", Mbox: "m.org.", Minttl: soaMin}}
		hasSOA = true
	case 3: // other type first
		resp.Answer = []dns.RR{&dns.TXT{Hdr: dns.RR_Header{Name: "example.org.", Rrtype: dns.TypeTXT, Class: dns.ClassINET, Ttl: ttl}, Txt: []string{"x"}}}
	}
	// the minimum-TTL override of the configuration
	override := verifChoice(2) == 1
	minTTL := int64(0)
	if override {
		minTTL = nondetI64()
		verifAssume(minTTL >= 0)
		verifAssume(minTTL < 1<<31)
		mw.overrideTTL, mw.cacheMinTTL = true, time.Duration(minTTL)*time.Second
	}
	t0 := int64(1) << 40
	verifSetClock(t0)
	cr := &cacheRequest{host: "example.org", subnet: netip.PrefixFrom(netip.IPv4Unspecified(), 0), qType: dns.TypeA, qClass: dns.ClassINET}
	dep := verifChoice(2) == 1
	// reference (RFC 2308): the lowest TTL of the single record is its header TTL,
	// for an SOA additionally capped by a non-zero MINIMUM; SERVFAIL at most 30 s
	lowest := ttl
	if hasSOA && soaMin > 0 && soaMin < lowest {
		lowest = soaMin
	}
	if resp.Rcode == dns.RcodeServerFailure && lowest > 30 {
		lowest = 30
	}
	if lowest == 1<<32-1 {
		// the all-ones TTL doubles as the "no record seen" guard: such an answer is
		// simply not cached, which the property allows (RFC 2181 caps TTLs at 2^31-1)
		lowest = 0
	}
	// a lower value is conservative; a higher one lets an answer outlive its records
	verifAssert("lowest-ttl-not-above-reference", dnsmsg.FindLowestTTL(resp) <= lowest)
	mw.set(resp, cr, dep)
	target, other := noECS, ecs
	if dep {
		target, other = ecs, noECS
	}
	verifAssert("other-cache-untouched", other.sets == 0)
	wantStored := !resp.Truncated && lowest != 0 &&
		(resp.Rcode == dns.RcodeNameError || resp.Rcode == dns.RcodeServerFailure ||
			(resp.Rcode == dns.RcodeSuccess && (hasMatching || hasSOA)))
	// not caching a cacheable answer is always allowed; caching anything else is not
	verifAssert("stored-only-if-cacheable", target.sets == 0 || (target.sets == 1 && wantStored))
	if target.sets == 0 {
		verifReach("not-stored")
		return
	}
	verifReach("stored")
	if override && resp.Rcode != dns.RcodeServerFailure && minTTL > int64(lowest) {
		// kept for the configured minimum instead (never for SERVFAIL)
		verifAssert("expiry-at-most-the-configured-minimum", target.exp > 0 && int64(target.exp) <= minTTL*1000000000)
		verifReach("override")
		return
	}
	verifAssert("expiry-is-lowest-ttl", target.exp > 0 && int64(target.exp) <= int64(lowest)*1000000000)
	if resp.Rcode == dns.RcodeServerFailure {
		verifAssert("servfail-cached-at-most-30s", target.exp <= 30*time.Second)
	}
	verifAssert("stores-a-clone", target.val.msg != resp)
	if override {
		// the hit path after an override involves the float conversion of the
		// overridden TTLs; it is decided without override below and in H04b
		return
	}

	age := nondetI64()
	verifAssume(age >= 0)
	verifAssume(age < 1<<62)
	verifSetClock(t0 + age)
	req2 := &dns.Msg{}
	req2.SetQuestion("example.org.", dns.TypeA)
	req2.AuthenticatedData = nondetBool()
	got, gotDep := mw.get(context.Background(), req2, cr)
	if age >= int64(lowest)*1000000000 {
		verifAssert("nothing-served-after-expiry", got == nil)
		verifReach("miss-after-expiry")
		return
	}
	if got == nil {
		// a miss is always allowed (eviction); only hits are constrained
		return
	}
	verifAssert("hit-kind", gotDep == dep)
	verifAssert("hit-rcode", got.Rcode == resp.Rcode)
	verifAssert("hit-id-of-request", got.Id == req2.Id)
	verifAssert("hit-ra", got.RecursionAvailable == resp.RecursionAvailable)
	verifAssert("hit-ad-gated", got.AuthenticatedData == (resp.AuthenticatedData && req2.AuthenticatedData))
	verifAssert("hit-same-record-counts", len(got.Answer) == len(resp.Answer) && len(got.Ns) == len(resp.Ns))
	if len(got.Answer) == 1 {
		verifAssert("hit-same-rrtype", got.Answer[0].Header().Rrtype == resp.Answer[0].Header().Rrtype)
		verifAssert("hit-ttl-not-above-original", got.Answer[0].Header().Ttl <= lowest)
	}
	if len(got.Ns) == 1 {
		verifAssert("hit-authority-ttl-not-above-original", got.Ns[0].Header().Ttl <= ttl && got.Ns[0].Header().Ttl <= lowest)
	}
	verifReach("hit")
	_ = req
}
