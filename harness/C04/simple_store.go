package cache

//verif:pkg internal/dnsserver/cache

import (
	"time"

	"github.com/bluele/gcache"
	"github.com/miekg/dns"
)

// verifGCache is a one-slot stand-in for gcache that records what set stores.
type verifGCache struct {
	gcache.Cache
	sets int
	key  interface{}
	val  interface{}
	exp  time.Duration
}

func (c *verifGCache) SetWithExpire(k, v interface{}, exp time.Duration) error {
	c.sets++
	c.key, c.val, c.exp = k, v, exp
	return nil
}
func (c *verifGCache) Len(bool) int { return c.sets }

// VerifC04SimpleStore: the simple cache stores exactly the cacheable answers, for
// exactly their lowest TTL (RFC 2308 for the SOA MINIMUM, 30 s at most for SERVFAIL,
// the configured minimum when TTL override is on), under a key that separates DO,
// qtype and qclass.
//
//verif:harness name=H04f-simple-store tier=quick,thorough bounds="one upstream answer: rcode in {NOERROR, NXDOMAIN, SERVFAIL, REFUSED}, TC symbolic, one A/CNAME/TXT answer or SOA authority with symbolic header TTL and MINIMUM; TTL override off or on with a symbolic minimum < 2^31 s; second message differing in DO / qtype / qclass / letter case for the key" reach=stored,not-stored,override prefer=int maxpaths=50000
//verif:assume gcache replaced by a recording one-slot stub (SetWithExpire contract)
func VerifC04SimpleStore() {
	ttl := nondetU32()
	req := &dns.Msg{}
	req.SetQuestion("example.org.", dns.TypeA)
	resp := (&dns.Msg{}).SetReply(req)
	rcodes := []int{dns.RcodeSuccess, dns.RcodeNameError, dns.RcodeServerFailure, dns.RcodeRefused}
	resp.Rcode = rcodes[verifChoice(4)]
	resp.Truncated = nondetBool()
	hasMatching, hasSOA := false, false
	soaMin := uint32(0)
	hdr := func(t uint16) dns.RR_Header {
		return dns.RR_Header{Name: "example.org.", Rrtype: t, Class: dns.ClassINET, Ttl: ttl}
	}
	switch verifChoice(4) {
	case 0:
		resp.Answer = []dns.RR{&dns.A{Hdr: hdr(dns.TypeA), A: []byte{192, 0, 2, 1}}}
		hasMatching = true
	case 1:
		resp.Answer = []dns.RR{&dns.CNAME{Hdr: hdr(dns.TypeCNAME), Target: "x.example."}}
	case 2:
		soaMin = nondetU32()
		resp.Ns = []dns.RR{&dns.SOA{Hdr: hdr(dns.TypeSOA), Ns: "ns.org.", Mbox: "m.org.", Minttl: soaMin}}
		hasSOA = true
	case 3:
		resp.Answer = []dns.RR{&dns.TXT{Hdr: hdr(dns.TypeTXT), Txt: []string{"x"}}}
	}
	override := verifChoice(2) == 1
	minTTL := int64(0)
	if override {
		minTTL = nondetI64()
		verifAssume(minTTL >= 0)
		verifAssume(minTTL < 1<<31)
	}
	gc := &verifGCache{}
	m := &Middleware{metrics: EmptyMetricsListener{}, cache: gc, cacheMinTTL: time.Duration(minTTL) * time.Second, overrideTTL: override}
	verifSetClock(1 << 40)

	lowest := ttl
	if hasSOA && soaMin > 0 && soaMin < lowest {
		lowest = soaMin
	}
	if resp.Rcode == dns.RcodeServerFailure && lowest > 30 {
		lowest = 30
	}
	if lowest == 1<<32-1 {
		lowest = 0 // the all-ones TTL is the "no record" guard: not cached
	}
	err := m.set(resp)
	verifAssert("set-does-not-fail", err == nil)
	wantStored := !resp.Truncated && lowest != 0 &&
		(resp.Rcode == dns.RcodeNameError || resp.Rcode == dns.RcodeServerFailure ||
			(resp.Rcode == dns.RcodeSuccess && (hasMatching || hasSOA)))
	// not caching a cacheable answer is always allowed; caching anything else is not
	verifAssert("stored-only-if-cacheable", gc.sets == 0 || (gc.sets == 1 && wantStored))
	if gc.sets == 0 {
		verifReach("not-stored")
		return
	}
	verifReach("stored")
	wantExp := int64(lowest)
	if override && resp.Rcode != dns.RcodeServerFailure && minTTL > wantExp {
		wantExp = minTTL
		verifReach("override")
	}
	verifAssert("expiry-at-most-lowest-ttl-or-configured-minimum", gc.exp > 0 && int64(gc.exp) <= wantExp*1000000000)
	it, ok := gc.val.(cacheItem)
	verifAssert("stores-a-copy-with-the-store-time", ok && it.msg != resp && it.when.UnixNano() == 1<<40)

	// key separation
	other := &dns.Msg{}
	names := []string{"example.org.", "EXAMPLE.org.", "example.net."}
	ni := verifChoice(3)
	qt := []uint16{dns.TypeA, dns.TypeAAAA}[verifChoice(2)]
	qc := []uint16{dns.ClassINET, dns.ClassCHAOS}[verifChoice(2)]
	other.Question = []dns.Question{{Name: names[ni], Qtype: qt, Qclass: qc}}
	do := verifChoice(2) == 1
	if verifChoice(2) == 1 {
		other.SetEdns0(1232, do)
	} else {
		do = false
	}
	same := ni != 2 && qt == dns.TypeA && qc == dns.ClassINET && !do
	verifAssert("key-equal-iff-same-question-and-do", (toCacheKey(other) == gc.key.(string)) == same)
}
