package billstat

//verif:pkg internal/billstat

import (
	"fmt"
	"context"
	"errors"
	"time"

	"github.com/AdguardTeam/AdGuardDNS/internal/agd"
	"github.com/AdguardTeam/AdGuardDNS/internal/geoip"
	"github.com/AdguardTeam/golibs/logutil/slogutil"
)

type verifErrColl struct{}

func (verifErrColl) Collect(context.Context, error) {}

type verifMeta struct {
	t     int64
	asn   geoip.ASN
	ctry  geoip.Country
	proto agd.Protocol
	set   bool
}

// verifC16 is the ghost state of the billing harness.
type verifC16 struct {
	r         *RuntimeRecorder
	devs      [2]agd.DeviceID
	recorded  [2]int64
	delivered [2]int64
	last      [2]verifMeta
}

func (g *verifC16) record(k int) {
	m := verifMeta{
		t:     nondetI64(),
		asn:   geoip.ASN(nondetU32()),
		ctry:  geoip.Country(string([]byte{nondetU8(), nondetU8()})),
		proto: agd.Protocol(nondetU8()),
		set:   true,
	}
	verifAssume(m.t > 0)
	g.r.Record(context.Background(), g.devs[k], m.ctry, m.asn, time.Unix(0, m.t), m.proto)
	g.recorded[k]++
	g.last[k] = m
}

// verifUploader succeeds or fails as told and lets queries arrive while the upload
// is in flight (between resetRecords and the completion of Refresh).
type verifUploader struct {
	g        *verifC16
	fail     bool
	inflight int
	calls    int
}

func (u *verifUploader) Upload(_ context.Context, records Records) error {
	u.calls++
	for j := 0; j < u.inflight; j++ {
		u.g.record(verifChoice(2))
	}
	if u.fail {
		// the kinds of failure the backend client produces
		switch verifChoice(3) {
		case 0:
			return errors.New("upload failed")
		case 1:
			return fmt.Errorf("uploading: %w", context.DeadlineExceeded)
		default:
			return fmt.Errorf("uploading: %w", context.Canceled)
		}
	}
	for k, id := range u.g.devs {
		if rec := records[id]; rec != nil {
			u.g.delivered[k] += int64(rec.Queries)
		}
	}
	return nil
}

func (g *verifC16) check() {
	for k, id := range g.devs {
		g.r.mu.Lock()
		rec := g.r.records[id]
		g.r.mu.Unlock()
		var pending int64
		if rec != nil {
			pending = int64(rec.Queries)
		}
		verifAssert("delivered-plus-pending-equals-recorded", g.delivered[k]+pending == g.recorded[k])
		if rec != nil && g.last[k].set {
			m := g.last[k]
			verifAssert("pending-record-carries-latest-time", rec.Time.UnixNano() == m.t)
			verifAssert("pending-record-carries-latest-asn", rec.ASN == m.asn)
			verifAssert("pending-record-carries-latest-country", rec.Country == m.ctry)
			verifAssert("pending-record-carries-latest-protocol", rec.Proto == m.proto)
		}
	}
}

// VerifC16History: billing counts are conserved and metadata is the most recent one
// over all histories of records and upload attempts, including records that arrive
// while an upload is in flight.
//
//verif:harness name=H16a-history tier=quick bounds="2 devices, 3 steps from {record(device), refresh ok/fail (generic error, deadline exceeded or cancelled) with 0..2 records arriving during the upload}; time, ASN, country bytes and protocol symbolic" reach=done,upload-failed,upload-ok,inflight maxpaths=300000
//verif:assume fewer than 2^31 queries per device between uploads (Queries is int32); records arriving during an upload are serialised inside Upload (the shared state is mutex-protected, so every interleaving of the atomic sections is equivalent to such a sequence)
func VerifC16History() { verifC16History(3) }

// VerifC16History6 is the thorough variant.
//
//verif:harness name=H16a-history6 tier=thorough bounds="as H16a-history with 4 steps" reach=done,upload-failed,upload-ok,inflight maxpaths=5000000
func VerifC16History6() { verifC16History(4) }

func verifC16History(steps int) {
	g := &verifC16{devs: [2]agd.DeviceID{"dev00001", "dev00002"}}
	up := &verifUploader{g: g}
	g.r = NewRuntimeRecorder(&RuntimeRecorderConfig{
		Logger:   slogutil.NewDiscardLogger(),
		ErrColl:  verifErrColl{},
		Uploader: up,
		Metrics:  EmptyMetrics{},
	})
	for s := 0; s < steps; s++ {
		switch verifChoice(3) {
		case 0:
			g.record(0)
		case 1:
			g.record(1)
		case 2:
			up.fail = verifChoice(2) == 1
			up.inflight = verifChoice(3)
			if up.inflight > 0 {
				verifReach("inflight")
			}
			err := g.r.Refresh(context.Background())
			verifAssert("refresh-error-iff-upload-failed", (err != nil) == up.fail)
			if up.fail {
				verifReach("upload-failed")
			} else {
				verifReach("upload-ok")
			}
		}
		g.check()
	}
	verifReach("done")
}
