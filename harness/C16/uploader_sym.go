package backendpb

//verif:pkg internal/backendpb
//verif:stub github.com/AdguardTeam/AdGuardDNS/internal/backendpb.ctxWithAuthentication verifCtxAuth
//verif:stub github.com/AdguardTeam/AdGuardDNS/internal/backendpb.fixGRPCError verifFixErr
//verif:stub google.golang.org/protobuf/types/known/timestamppb.New verifTimestamp

import (
	"context"
	"time"

	"google.golang.org/protobuf/types/known/timestamppb"
)

func verifCtxAuth(parent context.Context, apiKey string) context.Context { return parent }
func verifFixErr(ctx context.Context, mtrc GRPCMetrics, err error) error { return err }
func verifTimestamp(t time.Time) *timestamppb.Timestamp {
	return &timestamppb.Timestamp{Seconds: t.Unix()}
}
