package billstat

//verif:pkg internal/billstat

import (
	"context"
	"sync"

	"github.com/AdguardTeam/golibs/logutil/slogutil"
)

// verifSumUploader always succeeds and adds up what it is handed.
type verifSumUploader struct {
	mu    sync.Mutex
	total int64
}

func (u *verifSumUploader) Upload(_ context.Context, records Records) error {
	u.mu.Lock()
	defer u.mu.Unlock()
	for _, r := range records {
		u.total += int64(r.Queries)
	}
	return nil
}

// VerifC16Concurrent: a query recorded while an upload round is running is neither
// lost nor counted twice: the queries delivered by the successful uploads, up to and
// including a final one, add up to the queries recorded.
//
//verif:harness name=H16c-record-during-refresh tier=quick,thorough bounds="one Record call running concurrently with one successful Refresh, preempted at most twice at synchronisation points (lock, unlock); then a final Refresh" reach=done maxpaths=20000 switches=2
//verif:assume threads switch at lock / unlock operations (at most two preemptions) and when blocked or finished; natively the interleaving is searched for by a bounded stress run (8 recording goroutines against a refreshing one), since a preemption right after an unlock cannot be forced
func VerifC16Concurrent() {
	up := &verifSumUploader{}
	r := NewRuntimeRecorder(&RuntimeRecorderConfig{
		Logger:   slogutil.NewDiscardLogger(),
		ErrColl:  verifErrColl{},
		Uploader: up,
		Metrics:  EmptyMetrics{},
	})
	recorded := verifRecordWhileRefreshing(r)
	verifAssert("final-refresh-succeeds", r.Refresh(context.Background()) == nil)
	verifAssert("delivered-equals-recorded", up.total == recorded)
	verifReach("done")
}
