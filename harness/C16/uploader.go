package backendpb

//verif:pkg internal/backendpb

import (
	"context"
	"errors"
	"time"

	"github.com/AdguardTeam/AdGuardDNS/internal/agd"
	"github.com/AdguardTeam/AdGuardDNS/internal/billstat"
	"github.com/AdguardTeam/AdGuardDNS/internal/geoip"
	"github.com/AdguardTeam/golibs/logutil/slogutil"
	"google.golang.org/grpc"
	"google.golang.org/protobuf/types/known/emptypb"
)

type verifErrColl16 struct{}

func (verifErrColl16) Collect(context.Context, error) {}

// verifStream16 is the client side of the billing-statistics stream; which operation
// fails is chosen by the harness.
type verifStream16 struct {
	grpc.ClientStreamingClient[DeviceBillingStat, emptypb.Empty]
	failSendAt int // index of the Send that fails, -1: none
	failClose  bool
	sent       []*DeviceBillingStat
}

func (s *verifStream16) Send(m *DeviceBillingStat) error {
	if len(s.sent) == s.failSendAt {
		return errors.New("stream broken")
	}
	s.sent = append(s.sent, m)
	return nil
}

func (s *verifStream16) CloseAndRecv() (*emptypb.Empty, error) {
	if s.failClose {
		return nil, errors.New("backend rejected the batch")
	}
	return &emptypb.Empty{}, nil
}

type verifClient16 struct {
	DNSServiceClient
	failOpen bool
	stream   *verifStream16
}

func (c *verifClient16) SaveDevicesBillingStat(ctx context.Context, opts ...grpc.CallOption) (grpc.ClientStreamingClient[DeviceBillingStat, emptypb.Empty], error) {
	if c.failOpen {
		return nil, errors.New("cannot open stream")
	}
	return c.stream, nil
}

// VerifC16Uploader: the batch handed to the backend uploader is the caller's to keep:
// whether the upload succeeds or fails at any point (opening the stream, any record,
// the final acknowledgement), the uploader leaves every record of the batch in place
// and unchanged, so that a failed batch can be merged back; on success every record
// was sent exactly once with its own values.
//
//verif:harness name=H16b-uploader tier=quick,thorough bounds="batch of 1..3 device records with symbolic query counts and ASNs; failure at stream opening, at the k-th Send, at the final acknowledgement, or none" reach=ok,failed maxpaths=20000
//verif:assume the gRPC client and stream are scripted stubs; authentication metadata, gRPC error mapping and timestamp construction are replaced by identity stubs in the symbolic build
func VerifC16Uploader() {
	n := 1 + verifChoice(3)
	ids := []agd.DeviceID{"dev00001", "dev00002", "dev00003"}
	recs := billstat.Records{}
	var q [3]int32
	var asn [3]uint32
	for i := 0; i < n; i++ {
		q[i] = int32(nondetU16()) + 1
		asn[i] = nondetU32()
		recs[ids[i]] = &billstat.Record{Time: time.Unix(1_700_000_000+int64(i), 0), Country: "NL", ASN: geoip.ASN(asn[i]), Queries: q[i], Proto: agd.ProtoDoT}
	}
	st := &verifStream16{failSendAt: -1}
	cl := &verifClient16{stream: st}
	switch verifChoice(4) {
	case 1:
		cl.failOpen = true
	case 2:
		st.failSendAt = verifChoice(n)
	case 3:
		st.failClose = true
	}
	b := &BillStat{logger: slogutil.NewDiscardLogger(), errColl: verifErrColl16{}, grpcMetrics: EmptyGRPCMetrics{}, client: cl, apiKey: "k"}
	err := b.Upload(context.Background(), recs)

	failed := cl.failOpen || st.failSendAt >= 0 || st.failClose
	verifAssert("upload-error-iff-some-step-failed", (err != nil) == failed)
	verifAssert("batch-keeps-every-record", len(recs) == n)
	for i := 0; i < n; i++ {
		r := recs[ids[i]]
		verifAssert("batch-records-unchanged", r != nil && r.Queries == q[i] && uint32(r.ASN) == asn[i] && r.Country == "NL")
	}
	if !failed {
		verifAssert("every-record-sent-once", len(st.sent) == n)
		for i := 0; i < n; i++ {
			cnt := 0
			for _, m := range st.sent {
				if m.DeviceId == string(ids[i]) {
					cnt++
					verifAssert("sent-record-carries-its-own-values", m.Queries == uint32(q[i]) && m.Asn == asn[i] && m.ClientCountry == "NL")
				}
			}
			verifAssert("every-record-sent-once", cnt == 1)
		}
		verifReach("ok")
	} else {
		verifReach("failed")
	}
}
