package billstat

//verif:pkg internal/billstat

import (
	"context"
	"runtime"
	"sync"
	"time"

	"github.com/AdguardTeam/AdGuardDNS/internal/agd"
)

// verifRecordWhileRefreshing searches natively for a lost or doubled query: 8
// goroutines record 40000 queries each for two devices while the caller keeps
// refreshing.
func verifRecordWhileRefreshing(r *RuntimeRecorder) (recorded int64) {
	old := runtime.GOMAXPROCS(0)
	if old < 8 {
		runtime.GOMAXPROCS(8)
		defer runtime.GOMAXPROCS(old)
	}
	ctx := context.Background()
	const workers, each = 8, 40000
	wg := &sync.WaitGroup{}
	stop := make(chan struct{})
	for w := 0; w < workers; w++ {
		wg.Add(1)
		go func() {
			defer wg.Done()
			id := agd.DeviceID([]string{"dev00001", "dev00002"}[w%2])
			for k := 0; k < each; k++ {
				r.Record(ctx, id, "NL", 64500, time.Unix(1_700_000_000, 0), agd.ProtoDNS)
			}
		}()
	}
	done := make(chan struct{})
	go func() {
		defer close(done)
		for {
			select {
			case <-stop:
				return
			default:
				_ = r.Refresh(ctx)
			}
		}
	}()
	wg.Wait()
	close(stop)
	<-done
	return workers * each
}
