package billstat

//verif:pkg internal/billstat

import (
	"context"
	"time"

	"github.com/AdguardTeam/AdGuardDNS/internal/agd"
)

// verifRecordWhileRefreshing runs one Record call in a thread of its own while the
// caller refreshes.
func verifRecordWhileRefreshing(r *RuntimeRecorder) (recorded int64) {
	ctx := context.Background()
	go r.Record(ctx, "dev00001", "NL", 64500, time.Unix(1_700_000_000, 0), agd.ProtoDNS)
	verifYield()
	_ = r.Refresh(ctx)
	verifRunAll()
	return 1
}
