package preservice

//verif:pkg internal/dnssvc/internal/preservice

import (
	"context"
	"net"

	"github.com/AdguardTeam/AdGuardDNS/internal/agd"
	"github.com/AdguardTeam/AdGuardDNS/internal/agdtest"
	"github.com/AdguardTeam/AdGuardDNS/internal/dnsmsg"
	"github.com/AdguardTeam/AdGuardDNS/internal/dnsserver"
	"github.com/AdguardTeam/AdGuardDNS/internal/filter/hashprefix"
	"github.com/AdguardTeam/golibs/logutil/slogutil"
	"github.com/miekg/dns"
)

type verifNext11 struct{ calls int }

func (n *verifNext11) ServeDNS(context.Context, dnsserver.ResponseWriter, *dns.Msg) error {
	n.calls++
	return nil
}

type verifRW11 struct {
	writes int
	resp   *dns.Msg
}

func (w *verifRW11) LocalAddr() net.Addr  { return &net.UDPAddr{IP: net.IP{192, 0, 2, 1}, Port: 53} }
func (w *verifRW11) RemoteAddr() net.Addr { return &net.UDPAddr{IP: net.IP{198, 51, 100, 7}, Port: 4321} }
func (w *verifRW11) WriteMsg(_ context.Context, _, resp *dns.Msg) error {
	w.writes++
	w.resp = resp
	return nil
}

type verifChecker struct{}

func (verifChecker) Check(context.Context, *dns.Msg, *agd.RequestInfo) (*dns.Msg, error) {
	return nil, nil
}

// VerifC11TXT: a TXT query under a safe-browsing suffix is answered with exactly the
// hashes the matcher returns, a malformed prefix is refused and never forwarded, and
// any other TXT query is passed on untouched.
//
//verif:harness name=H11e-txt-flow tier=quick,thorough bounds="query names: well-formed 4- and 8-character prefixes under the suffix, malformed prefixes (bad length, non-hex), names outside the suffix, with the suffix in the middle, twice, or without a label boundary; real hashprefix.Matcher and Storage" reach=hashes,refused,forwarded
func VerifC11TXT() {
	strg, err := hashprefix.NewStorage("bad.example\nworse.example\n")
	verifAssume(err == nil)
	const suffix = ".sb.dns.adguard.com"
	matcher := hashprefix.NewMatcher(map[string]*hashprefix.Storage{suffix: strg})
	msgs, cerr := dnsmsg.NewConstructor(&dnsmsg.ConstructorConfig{Cloner: agdtest.NewCloner(), BlockingMode: &dnsmsg.BlockingModeNullIP{}, StructuredErrors: agdtest.NewSDEConfig(false), FilteredResponseTTL: 10_000_000_000})
	verifAssume(cerr == nil)
	mw := New(&Config{Logger: slogutil.NewDiscardLogger(), Messages: msgs, HashMatcher: matcher, Checker: verifChecker{}})

	kinds := []struct {
		host string
		kind int // 0 hashes, 1 refused, 2 forwarded
	}{
		{"0000" + suffix, 0},
		{"0000.ffff" + suffix, 0},
		{"0000aaaa" + suffix, 0},
		{"000" + suffix, 1},
		{"00000" + suffix, 1},
		{"zzzz" + suffix, 1},
		{"0000.zz" + suffix, 1},
		{"0000.example.org", 2},
		// the suffix somewhere else than at the end is not a hash query
		{"0000" + suffix + ".example.org", 2},
		{"www" + suffix + ".example.org", 2},
		{"sb.dns.adguard.com.example.org", 2},
		// the suffix twice: everything before the last one is the (malformed) prefix part
		{"0000" + suffix + suffix, 1},
		// a name that only ends like the suffix without the label boundary
		{"0000xsb.dns.adguard.com", 2},
	}
	k := kinds[verifChoice(len(kinds))]
	req := &dns.Msg{}
	req.SetQuestion(dns.Fqdn(k.host), dns.TypeTXT)
	req.Id = nondetU16()
	ri := &agd.RequestInfo{Host: k.host, QType: dns.TypeTXT, QClass: dns.ClassINET, Messages: msgs}
	next, rw := &verifNext11{}, &verifRW11{}
	serveErr := mw.Wrap(next).ServeDNS(agd.ContextWithRequestInfo(context.Background(), ri), rw, req)
	verifAssert("no-error", serveErr == nil)
	switch k.kind {
	case 0:
		verifAssert("hash-query-answered-locally", next.calls == 0 && rw.writes == 1 && rw.resp.Rcode == dns.RcodeSuccess && rw.resp.Id == req.Id)
		verifReach("hashes")
	case 1:
		verifAssert("malformed-prefix-refused-not-forwarded", next.calls == 0 && rw.writes == 1 && rw.resp.Rcode == dns.RcodeRefused && rw.resp.Id == req.Id)
		verifReach("refused")
	case 2:
		verifAssert("other-txt-query-passed-on", next.calls == 1 && rw.writes == 0)
		verifReach("forwarded")
	}
}
