package hashprefix

//verif:pkg internal/filter/hashprefix

import (
	"crypto/sha256"
	"time"
)

type timeDuration = time.Duration

func sha256sum(s string) [32]byte { return sha256.Sum256([]byte(s)) }
