package hashprefix

//verif:pkg internal/filter/hashprefix

import (
	"context"
	"encoding/hex"
	"strings"
	"sync"

	"github.com/AdguardTeam/AdGuardDNS/internal/dnsmsg"
	"github.com/AdguardTeam/AdGuardDNS/internal/filter/internal"
	"github.com/AdguardTeam/golibs/logutil/slogutil"
	"github.com/miekg/dns"
)

func verifListByte() byte {
	b := nondetU8()
	verifAssume(verifOr(b == 'a', b == 'b', b == '.', b == '#', b == '\n'))
	return b
}

func verifEqStr(a, b string) bool {
	if len(a) != len(b) {
		return false
	}
	r := true
	for i := 0; i < len(a); i++ {
		r = verifAnd(r, a[i] == b[i])
	}
	return r
}

// VerifC11Storage: a host matches the storage exactly when it is one of the
// non-comment, non-empty lines of the list most recently loaded.
//
//verif:harness name=H11a-storage tier=quick bounds="list text of 0..6 symbolic bytes over {a, b, '.', '#', newline} loaded after an older list; probe host of 1..2 symbolic bytes over {a, b, '.'}" reach=matched,not-matched maxpaths=300000
//verif:assume SHA-256 is an uninterpreted function without collisions on the inputs of one run
func VerifC11Storage() { verifC11Storage(6) }

// VerifC11Storage8 is the thorough variant.
//
//verif:harness name=H11a-storage8 tier=thorough bounds="as H11a-storage with up to 8 bytes of list text" reach=matched,not-matched maxpaths=5000000
func VerifC11Storage8() { verifC11Storage(8) }

func verifC11Storage(maxText int) {
	s, err := NewStorage("old.example\nb\n")
	verifAssume(err == nil)
	n := verifChoice(maxText + 1)
	text := make([]byte, n)
	for i := range text {
		text[i] = verifListByte()
	}
	cnt, err := s.Reset(string(text))
	verifAssert("reset-succeeds", err == nil)

	m := 1 + verifChoice(2)
	probe := make([]byte, m)
	for i := range probe {
		c := nondetU8()
		verifAssume(verifOr(c == 'a', c == 'b', c == '.'))
		probe[i] = c
	}
	got := s.Matches(string(probe))

	// reference: split into lines, drop empty ones and comments
	want := false
	lines := 0
	for _, ln := range strings.Split(string(text), "\n") {
		if len(ln) == 0 || ln[0] == '#' {
			continue
		}
		lines++
		want = verifOr(want, verifEqStr(ln, string(probe)))
	}
	verifAssert("matches-iff-listed", got == want)
	verifAssert("count-of-loaded-hosts", cnt == lines)
	verifAssert("old-list-fully-replaced", !s.Matches("old.example"))
	if got {
		verifReach("matched")
	} else {
		verifReach("not-matched")
	}
}

func verifHexByte() byte {
	b := nondetU8()
	verifAssume(verifOr(b == '0', b == 'f', b == 'g', b == '.'))
	return b
}

func verifIsHex(c byte) bool { return verifOr(c == '0', c == 'f') }

// VerifC11Prefixes: a prefix string is accepted exactly when every dot-separated part
// has 4 or 8 characters whose first four are hexadecimal; the result is the set of
// decoded first-four-character prefixes.
//
//verif:harness name=H11d-prefixes tier=quick bounds="prefix string of 0..9 symbolic bytes over {0, f, g, '.'}" reach=accepted,rejected,legacy maxpaths=400000
func VerifC11Prefixes() { verifC11Prefixes(9) }

// VerifC11Prefixes13 is the thorough variant.
//
//verif:harness name=H11d-prefixes13 tier=thorough bounds="as H11d-prefixes with up to 13 bytes" reach=accepted,rejected,legacy maxpaths=8000000
func VerifC11Prefixes13() { verifC11Prefixes(13) }

func verifC11Prefixes(maxLen int) {
	n := verifChoice(maxLen + 1)
	b := make([]byte, n)
	for i := range b {
		b[i] = verifHexByte()
	}
	str := string(b)
	got, err := prefixesFromStr(str)

	wantOK := true
	var want []Prefix
	if str != "" {
		for _, part := range strings.Split(str, ".") {
			if len(part) != 4 && len(part) != 8 {
				wantOK = false
				break
			}
			if len(part) == 8 {
				verifReach("legacy")
			}
			hexOK := verifAnd(verifIsHex(part[0]), verifIsHex(part[1]), verifIsHex(part[2]), verifIsHex(part[3]))
			if !hexOK {
				wantOK = false
				break
			}
			var p Prefix
			_, _ = hex.Decode(p[:], []byte(part[:4]))
			dup := false
			for _, q := range want {
				dup = verifOr(dup, q == p)
			}
			if !dup {
				want = append(want, p)
			}
		}
	}
	verifAssert("accepted-iff-well-formed", (err == nil) == wantOK)
	if err != nil {
		verifReach("rejected")
		return
	}
	verifAssert("number-of-distinct-prefixes", len(got) == len(want))
	for _, p := range want {
		found := false
		for _, q := range got {
			found = verifOr(found, q == p)
		}
		verifAssert("every-requested-prefix-present", found)
	}
	verifReach("accepted")
}

// VerifC11Hashes: the hashes returned for a set of prefixes are exactly the full
// hashes of the listed names that start with one of the prefixes.
//
//verif:harness name=H11f-hashes tier=quick,thorough bounds="storage of 3 concrete names; 1..2 requested prefixes with symbolic bytes" reach=some,none
func VerifC11Hashes() {
	s, err := NewStorage("bad.example\nworse.example\nother.example\n")
	verifAssume(err == nil)
	n := 1 + verifChoice(2)
	prefs := make([]Prefix, n)
	for i := range prefs {
		prefs[i] = Prefix{nondetU8(), nondetU8()}
	}
	if n == 2 {
		verifAssume(prefs[0] != prefs[1])
	}
	got := s.Hashes(prefs)
	want := 0
	for _, name := range []string{"bad.example", "worse.example", "other.example"} {
		sum := sha256sum(name)
		in := false
		for _, p := range prefs {
			in = verifOr(in, verifAnd(p[0] == sum[0], p[1] == sum[1]))
		}
		if in {
			want++
			h := hex.EncodeToString(sum[:])
			found := false
			for _, g := range got {
				found = found || g == h
			}
			verifAssert("full-hash-of-listed-name-returned", found)
		}
	}
	verifAssert("only-hashes-with-requested-prefixes", len(got) == want)
	if want > 0 {
		verifReach("some")
	} else {
		verifReach("none")
	}
}

// VerifC11Verdict: a host is filtered exactly when the question is A, AAAA or HTTPS
// and the host or one of its parent domains (at most four labels, public suffix
// excluded) is listed.
//
//verif:harness name=H11c-verdict tier=quick,thorough bounds="qtype full 16-bit; 9 concrete hosts around the 4-label and public-suffix boundaries against a concrete list" reach=filtered,not-filtered
//verif:assume host names are concrete (the public-suffix table is consulted through the real library)
func VerifC11Verdict() {
	hashes, err := NewStorage("bad.example.com\ncom\nco.uk\nlisted.co.uk\ne.f.deep.org\nd.e.f.five.org\n")
	verifAssume(err == nil)
	f := &Filter{
		logger:   slogutil.NewDiscardLogger(),
		cloner:   dnsmsg.NewCloner(dnsmsg.EmptyClonerStat{}),
		mu:       &sync.RWMutex{},
		hashes:   hashes,
		metrics:  internal.EmptyMetrics{},
		resCache: verifNoCache11{},
		id:       internal.IDSafeBrowsing,
		repFQDN:  "safe.example.",
	}
	cases := []struct {
		host string
		want bool
	}{
		{"bad.example.com", true},
		{"a.bad.example.com", true},
		{"a.b.c.bad.example.com", true},
		{"example.com", false},          // only a child is listed
		{"x.com", false},                // the public suffix itself never counts
		{"a.co.uk", false},              // ditto for a multi-label public suffix
		{"www.listed.co.uk", true},
		{"c.d.e.f.deep.org", true},      // the listed four-label name is within the last four labels
		{"d.e.f.five.org", false},       // a listed five-label name is never considered
	}
	c := cases[verifChoice(len(cases))]
	qt := nondetU16()
	msgs, cerr := dnsmsg.NewConstructor(&dnsmsg.ConstructorConfig{Cloner: f.cloner, BlockingMode: &dnsmsg.BlockingModeNullIP{}, StructuredErrors: &dnsmsg.StructuredDNSErrorsConfig{}, FilteredResponseTTL: 10_000_000_000})
	verifAssume(cerr == nil)
	req := &dns.Msg{}
	req.SetQuestion(dns.Fqdn(c.host), qt)
	r, ferr := f.FilterRequest(context.Background(), &internal.Request{DNS: req, Messages: msgs, Host: c.host, QType: qt, QClass: dns.ClassINET})
	verifAssert("no-error", ferr == nil)
	filterable := qt == dns.TypeA || qt == dns.TypeAAAA || qt == dns.TypeHTTPS
	verifAssert("filtered-iff-address-question-and-listed", (r != nil) == (filterable && c.want))
	if r != nil {
		verifReach("filtered")
	} else {
		verifReach("not-filtered")
	}
}

type verifNoCache11 struct{}

func (verifNoCache11) Set(internal.CacheKey, *cacheItem) {}
func (verifNoCache11) SetWithExpire(internal.CacheKey, *cacheItem, timeDuration) {}
func (verifNoCache11) Get(internal.CacheKey) (*cacheItem, bool)                 { return nil, false }
func (verifNoCache11) Clear()                                                   {}
func (verifNoCache11) Len() int                                                 { return 0 }

// VerifC11Bucket: names whose SHA-256 digests share the two-byte prefix (a real
// collision: "3z" and "7t") are all matched, in whatever order the list gives them,
// and unlisted names are not.
//
//verif:harness name=H11g-bucket tier=quick,thorough bounds="list of 2..4 of the concrete names {3z, 7t, x.example, y.example} in every order (3z and 7t share their two-byte SHA-256 prefix); probe from the four names and two unlisted ones; real SHA-256 (concrete inputs)" reach=matched,not-matched,shared-bucket
func VerifC11Bucket() {
	names := []string{"3z", "7t", "x.example", "y.example"}
	var list []string
	used := [4]bool{}
	n := 2 + verifChoice(3)
	for i := 0; i < n; i++ {
		k := verifChoice(len(names))
		verifAssume(!used[k])
		used[k] = true
		list = append(list, names[k])
	}
	s, err := NewStorage(strings.Join(list, "\n") + "\n")
	verifAssert("list-loads", err == nil)
	probes := append(append([]string{}, names...), "3y", "z.example")
	pi := verifChoice(len(probes))
	want := pi < len(names) && used[pi]
	got := s.Matches(probes[pi])
	verifAssert("bucket-matches-iff-listed", got == want)
	if used[0] && used[1] {
		verifReach("shared-bucket")
	}
	if got {
		verifReach("matched")
	} else {
		verifReach("not-matched")
	}
}

// verifMapCache11 is a result cache honouring the agdcache contract.
type verifMapCache11 struct {
	keys []internal.CacheKey
	vals []*cacheItem
}

func (c *verifMapCache11) Set(k internal.CacheKey, v *cacheItem) {
	for i := range c.keys {
		if c.keys[i] == k {
			c.vals[i] = v
			return
		}
	}
	c.keys, c.vals = append(c.keys, k), append(c.vals, v)
}
func (c *verifMapCache11) SetWithExpire(k internal.CacheKey, v *cacheItem, _ timeDuration) { c.Set(k, v) }
func (c *verifMapCache11) Get(k internal.CacheKey) (*cacheItem, bool) {
	for i := range c.keys {
		if c.keys[i] == k {
			return c.vals[i], true
		}
	}
	return nil, false
}
func (c *verifMapCache11) Clear()   { c.keys, c.vals = nil, nil }
func (c *verifMapCache11) Len() int { return len(c.keys) }

// VerifC11CachedTypes: with the result cache on, a host is filtered for A, AAAA and
// HTTPS questions only, whatever was asked for the same host before: a verdict cached
// for an address question is not handed to a TXT, MX or CNAME question, and the other
// way round.
//
//verif:harness name=H11j-cached-types tier=quick,thorough bounds="listed host and unlisted host; 2..3 consecutive questions with types from {A, AAAA, HTTPS, TXT, MX, CNAME} through one filter with a result cache" reach=done,filtered,not-filtered maxpaths=20000
//verif:assume the result cache is a stub honouring the agdcache contract; SHA-256 computed for the concrete host names
func VerifC11CachedTypes() {
	hashes, err := NewStorage("bad.example.com\n")
	verifAssume(err == nil)
	f := &Filter{
		logger:   slogutil.NewDiscardLogger(),
		cloner:   dnsmsg.NewCloner(dnsmsg.EmptyClonerStat{}),
		mu:       &sync.RWMutex{},
		hashes:   hashes,
		metrics:  internal.EmptyMetrics{},
		resCache: &verifMapCache11{},
		id:       internal.IDSafeBrowsing,
		repFQDN:  "safe.example.",
	}
	msgs, cerr := dnsmsg.NewConstructor(&dnsmsg.ConstructorConfig{Cloner: f.cloner, BlockingMode: &dnsmsg.BlockingModeNullIP{}, StructuredErrors: &dnsmsg.StructuredDNSErrorsConfig{}, FilteredResponseTTL: 10_000_000_000})
	verifAssume(cerr == nil)
	host := []string{"bad.example.com", "good.example.com"}[verifChoice(2)]
	qts := []uint16{dns.TypeA, dns.TypeAAAA, dns.TypeHTTPS, dns.TypeTXT, dns.TypeMX, dns.TypeCNAME}
	n := 2 + verifChoice(2)
	for i := 0; i < n; i++ {
		qt := qts[verifChoice(len(qts))]
		req := &dns.Msg{}
		req.SetQuestion(dns.Fqdn(host), qt)
		r, ferr := f.FilterRequest(context.Background(), &internal.Request{DNS: req, Messages: msgs, Host: host, QType: qt, QClass: dns.ClassINET})
		verifAssert("no-error", ferr == nil)
		filterable := qt == dns.TypeA || qt == dns.TypeAAAA || qt == dns.TypeHTTPS
		verifAssert("filtered-iff-address-question-and-listed", (r != nil) == (filterable && host == "bad.example.com"))
		if r != nil {
			verifReach("filtered")
		} else {
			verifReach("not-filtered")
		}
	}
	verifReach("done")
}
