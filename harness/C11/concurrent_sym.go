package hashprefix

//verif:pkg internal/filter/hashprefix

// verifHashesDuringReset runs one Hashes call in a thread of its own while the caller
// replaces the list.
func verifHashesDuringReset(s *Storage, prefs []Prefix, oldText, newText string, consistent func([]string) bool) (got []string) {
	go func() {
		defer func() {
			if recover() != nil {
				// a mixture can also make Hashes slice out of range
				got = []string{"<panic>"}
			}
		}()
		got = s.Hashes(prefs)
	}()
	verifYield()
	_, err := s.Reset(newText)
	verifAssume(err == nil)
	verifRunAll()
	return got
}
