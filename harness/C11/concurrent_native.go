package hashprefix

//verif:pkg internal/filter/hashprefix

import (
	"runtime"
	"sync"
)

// verifHashesDuringReset searches for the interleaving natively: the reader runs
// against a goroutine that keeps swapping the two lists; the first answer that comes
// from neither list is returned.  Without one, the answer after the final
// replacement is returned (the schedule without a preemption).
func verifHashesDuringReset(s *Storage, prefs []Prefix, oldText, newText string, consistent func([]string) bool) (got []string) {
	if runtime.GOMAXPROCS(0) < 2 {
		runtime.GOMAXPROCS(2)
	}
	stop := make(chan struct{})
	wg := &sync.WaitGroup{}
	wg.Add(1)
	go func() {
		defer wg.Done()
		for {
			select {
			case <-stop:
				return
			default:
			}
			_, _ = s.Reset(newText)
			_, _ = s.Reset(oldText)
		}
	}()
	bad := false
	func() {
		defer func() {
			if recover() != nil {
				// a mixture can also make Hashes slice out of range
				bad, got = true, []string{"<panic>"}
			}
		}()
		for it := 0; it < 3_000_000; it++ {
			got = s.Hashes(prefs)
			if !consistent(got) {
				bad = true
				return
			}
		}
	}()
	close(stop)
	wg.Wait()
	_, _ = s.Reset(newText)
	if !bad {
		got = s.Hashes(prefs)
	}
	return got
}
