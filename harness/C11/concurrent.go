package hashprefix

//verif:pkg internal/filter/hashprefix

import (
	"crypto/sha256"
	"slices"
)

func verifPrefixOf(name string) (p Prefix) {
	sum := sha256.Sum256([]byte(name))
	copy(p[:], sum[:PrefixLen])
	return p
}

// VerifC11HashesDuringReset: a Hashes call that overlaps a list replacement answers
// from exactly one of the two lists, never from a mixture.
//
//verif:harness name=H11h-hashes-during-reset tier=quick,thorough bounds="storage {3z, x.example} replaced by {7t} (3z and 7t share their prefix) while one Hashes call for the two prefixes is running; one preemption of the reader at any atomic operation" reach=done,old-list,new-list maxpaths=20000 switches=2
//verif:assume threads switch at atomic operations (at most one preemption), at blocking operations and when finished; natively the interleaving is searched for by running the reader against a goroutine that keeps swapping the two lists (bounded stress), since a preemption between two atomic loads cannot be forced
func VerifC11HashesDuringReset() {
	oldText, newText := "3z\nx.example\n", "7t\n"
	s, err := NewStorage(oldText)
	verifAssume(err == nil)
	prefs := []Prefix{verifPrefixOf("3z"), verifPrefixOf("x.example")}
	oldWant := s.Hashes(prefs)
	ref, err := NewStorage(newText)
	verifAssume(err == nil)
	newWant := ref.Hashes(prefs)
	verifAssume(len(oldWant) == 2 && len(newWant) == 1)

	consistent := func(got []string) bool { return slices.Equal(got, oldWant) || slices.Equal(got, newWant) }
	got := verifHashesDuringReset(s, prefs, oldText, newText, consistent)
	verifAssert("answer-comes-from-exactly-one-list", consistent(got))
	if slices.Equal(got, oldWant) {
		verifReach("old-list")
	} else {
		verifReach("new-list")
	}
	after := s.Hashes(prefs)
	verifAssert("new-list-in-force-afterwards", slices.Equal(after, newWant))
	verifReach("done")
}
