package hashprefix

//verif:pkg internal/filter/hashprefix

import (
	"context"
	"crypto/sha256"
	"encoding/hex"
)

// VerifC11TwoLists: with the two production suffixes configured, a hash-prefix query
// is answered from the list of its own suffix: exactly the hashes of that list that
// start with the prefix, never those of the other list.  Every lookup is repeated,
// since the matcher walks a map whose iteration order changes from call to call.
//
//verif:harness name=H11i-two-lists tier=quick,thorough bounds="suffixes .sb.dns.adguard.com (list {bad.example}) and .pc.dns.adguard.com (list {adult.example}); prefix of either name under either suffix; 16 repetitions" reach=done,own-list-hit,other-list-miss
func VerifC11TwoLists() {
	sb, err := NewStorage("bad.example\n")
	verifAssume(err == nil)
	pc, err := NewStorage("adult.example\n")
	verifAssume(err == nil)
	const sbSuf, pcSuf = ".sb.dns.adguard.com", ".pc.dns.adguard.com"
	m := NewMatcher(map[string]*Storage{sbSuf: sb, pcSuf: pc})
	names := []string{"bad.example", "adult.example"}
	ni, si := verifChoice(2), verifChoice(2)
	sum := sha256.Sum256([]byte(names[ni]))
	full := hex.EncodeToString(sum[:])
	host := full[:4] + []string{sbSuf, pcSuf}[si]
	own := ni == si // the name is in the list of the suffix asked
	for rep := 0; rep < 16; rep++ {
		hashes, matched, merr := m.MatchByPrefix(context.Background(), host)
		verifAssert("suffix-recognised", matched && merr == nil)
		if own {
			verifAssert("hashes-of-the-suffix's-own-list", len(hashes) == 1 && hashes[0] == full)
		} else {
			verifAssert("no-hashes-from-the-other-list", len(hashes) == 0)
		}
	}
	if own {
		verifReach("own-list-hit")
	} else {
		verifReach("other-list-miss")
	}
	verifReach("done")
}
