package dnsserver

//verif:pkg internal/dnsserver
//verif:noop github.com/AdguardTeam/AdGuardDNS/internal/dnsserver.newPoolNonblocking
//verif:stub (*github.com/panjf2000/ants/v2.Pool).Submit verifAntsSubmitThread

import (
	"context"
	"net"
	"sync"
	"time"

	"github.com/AdguardTeam/golibs/syncutil"
	"github.com/miekg/dns"
	"github.com/panjf2000/ants/v2"
)

// verifAntsSubmitThread replaces the worker pool in the symbolic build: every task is
// a thread of its own, like a pool worker.
func verifAntsSubmitThread(p *ants.Pool, task func()) error {
	go task()
	return nil
}

// verifEcho answers every query with a TXT record naming the question it was given.
type verifEcho struct{}

func (verifEcho) ServeDNS(ctx context.Context, rw ResponseWriter, req *dns.Msg) error {
	resp := (&dns.Msg{}).SetReply(req)
	resp.Answer = append(resp.Answer, &dns.TXT{
		Hdr: dns.RR_Header{Name: req.Question[0].Name, Rrtype: dns.TypeTXT, Class: dns.ClassINET, Ttl: 10},
		Txt: []string{"for " + req.Question[0].Name},
	})
	return rw.WriteMsg(ctx, req, resp)
}

type verifClientConn struct {
	net.PacketConn
	data    []byte
	port    int
	written [][]byte
	to      []net.Addr
}

func (c *verifClientConn) ReadFrom(b []byte) (int, net.Addr, error) {
	return copy(b, c.data), &net.UDPAddr{IP: net.IP{192, 0, 2, 7}, Port: c.port}, nil
}
func (c *verifClientConn) SetReadDeadline(t time.Time) error  { return nil }
func (c *verifClientConn) SetWriteDeadline(t time.Time) error { return nil }
func (c *verifClientConn) WriteTo(b []byte, a net.Addr) (int, error) {
	c.written = append(c.written, append([]byte(nil), b...))
	c.to = append(c.to, a)
	return len(b), nil
}
func (c *verifClientConn) LocalAddr() net.Addr { return &net.UDPAddr{IP: net.IP{192, 0, 2, 1}, Port: 53} }

// VerifC07UDPBuffers: the datagrams of 2..3 clients arrive back to back, before the
// workers serving the earlier ones have run; whatever the order in which the workers
// then run, every client is answered with its own ID, its own question and the answer
// computed for its own question: a receive buffer is not handed to the next datagram
// while its request is still being processed.
//
//verif:harness name=H07g-udp-buffers tier=quick,thorough bounds="2..3 clients (symbolic IDs, names of different lengths, different question types) read by acceptUDPMsg before any worker runs; workers run in every order; pool hands released buffers back" reach=done,three-clients switches=0 maxpaths=20000
//verif:assume the worker pool starts one thread per task (ants without its queue limits); threads switch only when blocked or finished
func VerifC07UDPBuffers() {
	verifPoolMode(1)
	s := &ServerDNS{
		ServerBase: newServerBase(ProtoDNS, ConfigBase{Handler: verifEcho{}}),
		workerPool: newPoolNonblocking(),
		udpPool:    syncutil.NewSlicePool[byte](64),
		tcpPool:    syncutil.NewSlicePool[byte](64),
		respPool:   syncutil.NewSlicePool[byte](dns.MinMsgSize),
		tcpConns:   map[net.Conn]struct{}{},
		tcpConnsMu: &sync.Mutex{},
		conf:       ConfigDNS{ReadTimeout: time.Second, WriteTimeout: time.Second, TCPIdleTimeout: time.Second},
	}
	ctx := context.Background()
	names := []string{"client-a.example.", "b.example.", "third-client.example.org."}
	qts := []uint16{dns.TypeA, dns.TypeAAAA, dns.TypeTXT}
	n := 2 + verifChoice(2)
	var ids [3]uint16
	var conns [3]*verifClientConn
	for i := 0; i < n; i++ {
		q := &dns.Msg{}
		q.SetQuestion(names[i], qts[i])
		ids[i] = nondetU16()
		q.Id = ids[i]
		b, err := q.Pack()
		verifAssume(err == nil)
		conns[i] = &verifClientConn{data: b, port: 5000 + i}
	}
	for i := 0; i < n; i++ {
		_ = s.acceptUDPMsg(ctx, conns[i])
	}
	verifRunAll()
	for i := 0; i < n; i++ {
		c := conns[i]
		verifAssert("every-client-answered-once", len(c.written) == 1)
		if len(c.written) != 1 {
			continue
		}
		r := &dns.Msg{}
		verifAssert("response-decodable", r.Unpack(c.written[0]) == nil)
		verifAssert("response-sent-to-the-client's-own-address", c.to[0].(*net.UDPAddr).Port == 5000+i)
		verifAssert("client-gets-its-own-id-and-question", r.Id == ids[i] && len(r.Question) == 1 && r.Question[0].Name == names[i] && r.Question[0].Qtype == qts[i])
		own := len(r.Answer) == 1
		if own {
			t, ok := r.Answer[0].(*dns.TXT)
			own = ok && len(t.Txt) == 1 && t.Txt[0] == "for "+names[i]
		}
		verifAssert("client-gets-the-answer-to-its-own-question", own)
	}
	if n == 3 {
		verifReach("three-clients")
	}
	verifReach("done")
}
