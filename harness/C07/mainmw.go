package mainmw

//verif:pkg internal/dnssvc/internal/mainmw

import (
	"context"
	"net/netip"
	"time"

	"github.com/AdguardTeam/AdGuardDNS/internal/agd"
	"github.com/AdguardTeam/AdGuardDNS/internal/dnsserver"
	"github.com/AdguardTeam/AdGuardDNS/internal/filter"
	"github.com/miekg/dns"
)

// VerifC07Dispose: the filtering middleware never releases the message it has
// written (it is still in use by the server) and never releases a message twice.
//
//verif:harness name=H07c-dispose tier=quick,thorough bounds="all request/response verdict kinds; pool hands back released objects (sync.Pool order); two probe clones after the request" reach=done
//verif:assume an object released twice or recycled while in use is detected through the pool model (engine ownership check 'pool-double-put' and probe clones)
func VerifC07Dispose() {
	verifPoolMode(1)
	e := verifNewEnv()
	req := &dns.Msg{}
	req.SetQuestion("example.org.", dns.TypeA)
	req.Id = nondetU16()
	ri := &agd.RequestInfo{
		FilteringGroup: &agd.FilteringGroup{FilterConfig: &filter.ConfigGroup{}},
		Messages:       e.mw.messages,
		RemoteIP:       netip.MustParseAddr("198.51.100.7"),
		Host:           "example.org",
		QType:          dns.TypeA,
		QClass:         dns.ClassINET,
		Proto:          agd.ProtoDNS,
	}
	e.flt.reqRes = verifResult(verifChoice(5), req, ri.Messages)
	e.flt.respRes = verifResult(verifChoice(3), req, ri.Messages)
	ctx := agd.ContextWithRequestInfo(context.Background(), ri)
	ctx = dnsserver.ContextWithRequestInfo(ctx, &dnsserver.RequestInfo{StartTime: time.Unix(1700000000, 0)})
	err := e.mw.Wrap(e.ups).ServeDNS(ctx, e.rw, req)
	verifAssert("served-without-error", err == nil && e.rw.writes == 1)
	written := e.rw.resp
	id, q := written.Id, written.Question[0]

	// whatever is cloned next must not reuse the message that was written
	other := &dns.Msg{}
	other.SetQuestion("other.example.", dns.TypeAAAA)
	p1 := e.mw.cloner.Clone(other)
	p2 := e.mw.cloner.Clone(other)
	verifAssert("written-message-not-recycled", p1 != written && p2 != written)
	verifAssert("written-message-intact", written.Id == id && written.Question[0] == q && id == req.Id)
	verifReach("done")
}
