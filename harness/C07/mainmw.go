package mainmw

//verif:pkg internal/dnssvc/internal/mainmw

import (
	"context"
	"net/netip"
	"time"

	"github.com/AdguardTeam/AdGuardDNS/internal/agd"
	"github.com/AdguardTeam/AdGuardDNS/internal/dnsserver"
	"github.com/AdguardTeam/AdGuardDNS/internal/filter"
	"github.com/miekg/dns"
)

// VerifC07Dispose: the filtering middleware never releases the message it has
// written (it is still in use by the server) and never releases a message twice.
//
//verif:harness name=H07c-dispose tier=quick,thorough bounds="all request/response verdict kinds; pool hands back released objects (sync.Pool order); two probe clones after the request" reach=done
//verif:assume an object released twice or recycled while in use is detected through the pool model (engine ownership check 'pool-double-put' and probe clones)
func VerifC07Dispose() {
	verifPoolMode(1)
	e := verifNewEnv()
	req := &dns.Msg{}
	req.SetQuestion("example.org.", dns.TypeA)
	req.Id = nondetU16()
	ri := &agd.RequestInfo{
		FilteringGroup: &agd.FilteringGroup{FilterConfig: &filter.ConfigGroup{}},
		Messages:       e.mw.messages,
		RemoteIP:       netip.MustParseAddr("198.51.100.7"),
		Host:           "example.org",
		QType:          dns.TypeA,
		QClass:         dns.ClassINET,
		Proto:          agd.ProtoDNS,
	}
	e.flt.reqRes = verifResult(verifChoice(5), req, ri.Messages)
	e.flt.respRes = verifResult(verifChoice(3), req, ri.Messages)
	ctx := agd.ContextWithRequestInfo(context.Background(), ri)
	ctx = dnsserver.ContextWithRequestInfo(ctx, &dnsserver.RequestInfo{StartTime: time.Unix(1700000000, 0)})
	err := e.mw.Wrap(e.ups).ServeDNS(ctx, e.rw, req)
	verifAssert("served-without-error", err == nil && e.rw.writes == 1)
	written := e.rw.resp
	id, q := written.Id, written.Question[0]

	// whatever is cloned next must not reuse the message that was written
	other := &dns.Msg{}
	other.SetQuestion("other.example.", dns.TypeAAAA)
	p1 := e.mw.cloner.Clone(other)
	p2 := e.mw.cloner.Clone(other)
	verifAssert("written-message-not-recycled", p1 != written && p2 != written)
	verifAssert("written-message-intact", written.Id == id && written.Question[0] == q && id == req.Id)
	verifReach("done")
}

// verifServe7 sends one anonymous request through e and returns what went upstream
// and what was written.
func verifServe7(e *verifEnv, host string, qt, id uint16, reqKind, respKind int) (upReq, written *dns.Msg) {
	req := &dns.Msg{}
	req.SetQuestion(dns.Fqdn(host), qt)
	req.Id = id
	ri := &agd.RequestInfo{
		FilteringGroup: &agd.FilteringGroup{FilterConfig: &filter.ConfigGroup{}},
		Messages:       e.mw.messages,
		RemoteIP:       netip.MustParseAddr("198.51.100.7"),
		Host:           host,
		QType:          qt,
		QClass:         dns.ClassINET,
		Proto:          agd.ProtoDNS,
	}
	e.flt.reqRes = verifResult(reqKind, req, ri.Messages)
	e.flt.respRes = verifResult(respKind, req, ri.Messages)
	e.ups.req, e.rw.resp = nil, nil
	ctx := agd.ContextWithRequestInfo(context.Background(), ri)
	ctx = dnsserver.ContextWithRequestInfo(ctx, &dnsserver.RequestInfo{StartTime: time.Unix(1700000000, 0)})
	err := e.mw.Wrap(e.ups).ServeDNS(ctx, e.rw, req)
	verifAssert("served-without-error", err == nil)
	if e.ups.req != nil {
		upReq = e.ups.req.Copy()
	}
	if e.rw.resp != nil {
		written = e.rw.resp.Copy()
	}
	return upReq, written
}

// VerifC07RecycledContext: a request is resolved and answered the same whether the
// middleware's pooled filtering context, filter request and filter response are
// fresh or were last used by another client's request with any verdicts (blocked,
// rewritten to another name, rewritten answer): what goes upstream is this request's
// own question and the answer holds its own records.
//
//verif:harness name=H07f-recycled-context tier=quick,thorough bounds="two consecutive requests through one mainmw whose pools hand released objects back: first with request verdict from 5 kinds and response verdict from 3 kinds, second likewise; the second is compared with the same request through a fresh middleware" reach=done,after-rewrite maxpaths=100000
//verif:assume filter storage, upstream, billing, query log and rule statistics are recorder stubs; sync.Pool order
func VerifC07RecycledContext() {
	verifPoolMode(1)
	used, fresh := verifNewEnv(), verifNewEnv()
	k1, r1 := verifChoice(5), verifChoice(3)
	_, _ = verifServe7(used, "first.example", dns.TypeA, 0x1111, k1, r1)
	if k1 == 4 {
		verifReach("after-rewrite")
	}
	k2, r2 := verifChoice(5), verifChoice(3)
	uu, wu := verifServe7(used, "example.org", dns.TypeA, 0x2222, k2, r2)
	uf, wf := verifServe7(fresh, "example.org", dns.TypeA, 0x2222, k2, r2)

	verifAssert("same-upstream-use", (uu == nil) == (uf == nil))
	if uu != nil && uf != nil {
		verifAssert("own-question-goes-upstream", len(uu.Question) == 1 && len(uf.Question) == 1 && uu.Question[0] == uf.Question[0])
	}
	verifAssert("answered-by-both", wu != nil && wf != nil)
	if wu != nil && wf != nil {
		verifAssert("same-answer-header", wu.Id == wf.Id && wu.Rcode == wf.Rcode && len(wu.Question) == 1 && len(wf.Question) == 1 && wu.Question[0] == wf.Question[0])
		verifAssert("same-answer-record-counts", len(wu.Answer) == len(wf.Answer) && len(wu.Ns) == len(wf.Ns))
		for i := 0; i < len(wu.Answer) && i < len(wf.Answer); i++ {
			verifAssert("same-answer-records", wu.Answer[i].String() == wf.Answer[i].String())
		}
	}
	verifReach("done")
}
