package dnsmsg

//verif:pkg internal/dnsmsg

import (
	"net"

	"github.com/miekg/dns"
)

// verifHTTPSForeign builds an HTTPS record the way miekg's Unpack does: all hint
// addresses are consecutive sub-slices of one buffer.
func verifHTTPSForeign(n4, n6 int) (*dns.HTTPS, []byte) {
	rr := &dns.HTTPS{SVCB: dns.SVCB{
		Hdr:      dns.RR_Header{Name: "svc.example.", Rrtype: dns.TypeHTTPS, Class: dns.ClassINET, Ttl: 60},
		Priority: 1,
		Target:   ".",
	}}
	var all []byte
	if n4 > 0 {
		buf := nondetBytes(4 * n4)
		all = append(all, buf...)
		h := &dns.SVCBIPv4Hint{}
		for i := 0; i < len(buf); i += 4 {
			h.Hint = append(h.Hint, net.IP(buf[i:i+4]))
		}
		rr.Value = append(rr.Value, h)
	}
	if n6 > 0 {
		buf := nondetBytes(16 * n6)
		all = append(all, buf...)
		h := &dns.SVCBIPv6Hint{}
		for i := 0; i < len(buf); i += 16 {
			h.Hint = append(h.Hint, net.IP(buf[i:i+16]))
		}
		rr.Value = append(rr.Value, h)
	}
	return rr, all
}

func verifMsgWith(rr dns.RR) *dns.Msg {
	m := &dns.Msg{}
	m.SetQuestion("svc.example.", dns.TypeHTTPS)
	m.Response = true
	m.Answer = []dns.RR{rr}
	return m
}

// verifHintBytes flattens all hint addresses of the first answer.
func verifHintBytes(m *dns.Msg) []byte {
	var out []byte
	if len(m.Answer) == 0 {
		return nil
	}
	rr, ok := m.Answer[0].(*dns.HTTPS)
	if !ok {
		return nil
	}
	for _, kv := range rr.Value {
		switch kv := kv.(type) {
		case *dns.SVCBIPv4Hint:
			for _, ip := range kv.Hint {
				out = append(out, ip...)
			}
		case *dns.SVCBIPv6Hint:
			for _, ip := range kv.Hint {
				out = append(out, ip...)
			}
		}
	}
	return out
}

func verifBytesEq(a, b []byte) bool {
	if len(a) != len(b) {
		return false
	}
	r := true
	for i := range a {
		r = verifAnd(r, a[i] == b[i])
	}
	return r
}

// VerifC07HTTPSHints: releasing a message never alters another one: after a message
// with HTTPS address hints (decoded the way the DNS library decodes it) has been
// released, later clones stay intact whatever else is cloned afterwards.
//
//verif:harness name=H07a-https-hints tier=quick bounds="a released foreign message with 1..6 IPv4 hints and 0..2 IPv6 hints laid out in one buffer; then 2..3 live clones of messages with 1..2 IPv6 hints each; all address bytes symbolic; pool hands back the most recently released object" reach=done maxpaths=20000
//verif:assume sync.Pool is LIFO (the adversarial choice is explored in the thorough tier)
func VerifC07HTTPSHints() { verifC07HTTPSHints(1, 3) }

// VerifC07HTTPSHintsAdv explores every pool choice.
//
//verif:harness name=H07a-https-hints-adv tier=thorough bounds="as H07a-https-hints with an adversarial pool (Get returns a new object or any released one)" reach=done maxpaths=3000000
func VerifC07HTTPSHintsAdv() { verifC07HTTPSHints(2, 3) }

func verifC07HTTPSHints(poolMode, maxLive int) {
	verifPoolMode(poolMode)
	c := NewCloner(EmptyClonerStat{})
	n4 := 1 + verifChoice(6)
	n6 := verifChoice(3)
	foreignRR, _ := verifHTTPSForeign(n4, n6)
	foreign := verifMsgWith(foreignRR)

	// a clone of the foreign message equals it
	first := c.Clone(foreign)
	verifAssert("clone-equals-original", verifBytesEq(verifHintBytes(first), verifHintBytes(foreign)))
	snapFirst := append([]byte(nil), verifHintBytes(first)...)

	// the foreign message is released (as ServerBase.dispose does with a written upstream response)
	c.Dispose(foreign)

	live := 2 + verifChoice(maxLive-1)
	var clones []*dns.Msg
	var snaps [][]byte
	for i := 0; i < live; i++ {
		rr, _ := verifHTTPSForeign(0, 1+verifChoice(2))
		orig := verifMsgWith(rr)
		cl := c.Clone(orig)
		verifAssert("clone-equals-original", verifBytesEq(verifHintBytes(cl), verifHintBytes(orig)))
		clones = append(clones, cl)
		snaps = append(snaps, append([]byte(nil), verifHintBytes(orig)...))
		// every message still in use is intact
		verifAssert("earlier-clone-unchanged-by-release-and-later-clones", verifBytesEq(verifHintBytes(first), snapFirst))
		for j := range clones {
			verifAssert("live-clone-unchanged-by-later-clones", verifBytesEq(verifHintBytes(clones[j]), snaps[j]))
		}
	}
	verifReach("done")
}
