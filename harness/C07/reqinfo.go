package ratelimitmw

//verif:pkg internal/dnssvc/internal/ratelimitmw

import (
	"context"
	"net"
	"net/netip"
	"time"

	"github.com/AdguardTeam/AdGuardDNS/internal/agd"
	"github.com/AdguardTeam/AdGuardDNS/internal/agdtest"
	"github.com/AdguardTeam/AdGuardDNS/internal/dnsmsg"
	"github.com/AdguardTeam/AdGuardDNS/internal/geoip"
	"github.com/AdguardTeam/golibs/logutil/slogutil"
	"github.com/miekg/dns"
)

type verifFinder7 struct{ res agd.DeviceResult }

func (f verifFinder7) Find(context.Context, *dns.Msg, netip.AddrPort, netip.AddrPort) agd.DeviceResult {
	return f.res
}

// VerifC07RequestInfo: a recycled request context carries nothing of the request it
// served before: every per-request field read downstream is the same as in a fresh one.
//
//verif:harness name=H07b-request-info tier=quick,thorough bounds="a pooled RequestInfo whose every per-request field holds unrelated (symbolic) data of an earlier request vs a fresh one; device result of the new request from {none, OK, auth failure}; client address, qtype, qclass symbolic" reach=done
func VerifC07RequestInfo() {
	msgs, err := dnsmsg.NewConstructor(&dnsmsg.ConstructorConfig{
		Cloner:              agdtest.NewCloner(),
		BlockingMode:        &dnsmsg.BlockingModeNullIP{},
		StructuredErrors:    agdtest.NewSDEConfig(false),
		FilteredResponseTTL: 10 * time.Second,
	})
	verifAssume(err == nil)
	prof := &agd.Profile{ID: "prof1234", BlockingMode: &dnsmsg.BlockingModeNXDOMAIN{}, FilteredResponseTTL: 99 * time.Second}
	var res agd.DeviceResult
	kind := verifChoice(3)
	switch kind {
	case 1:
		res = &agd.DeviceResultOK{Profile: prof, Device: &agd.Device{ID: "dev12345"}}
	case 2:
		res = &agd.DeviceResultAuthenticationFailure{Err: context.Canceled}
	}
	fg, sg := &agd.FilteringGroup{}, &agd.ServerGroup{}
	mk := func() *Middleware {
		return New(&Config{
			Logger:           slogutil.NewDiscardLogger(),
			Messages:         msgs,
			FilteringGroup:   fg,
			ServerGroup:      sg,
			Server:           &agd.Server{Name: "s", Protocol: agd.ProtoDoT},
			StructuredErrors: agdtest.NewSDEConfig(false),
			DeviceFinder:     verifFinder7{res: res},
			ErrColl:          agdtest.NewErrorCollector(),
			Metrics:          EmptyMetrics{},
		})
	}
	var ipb [4]byte
	for i := range ipb {
		ipb[i] = nondetU8()
	}
	raddr := netip.AddrPortFrom(netip.AddrFrom4(ipb), 4321)
	req := &dns.Msg{}
	req.SetQuestion("Example.ORG.", nondetU16())
	req.Question[0].Qclass = nondetU16()
	laddr := &net.UDPAddr{IP: net.IP{192, 0, 2, 1}, Port: 53}
	ctx := context.Background()

	verifPoolMode(1)
	dirtyMW := mk()
	old := dirtyMW.pool.Get()
	// what an earlier request of another client left behind
	old.DeviceResult = &agd.DeviceResultOK{Profile: &agd.Profile{ID: "otherprf"}, Device: &agd.Device{ID: "otherdev"}}
	old.ECS = &dnsmsg.ECS{Subnet: netip.MustParsePrefix("203.0.113.0/24")}
	old.Location = &geoip.Location{Country: "ZZ", ASN: geoip.ASN(nondetU32())}
	old.Messages = nil
	old.RemoteIP = netip.AddrFrom4([4]byte{nondetU8(), nondetU8(), nondetU8(), nondetU8()})
	old.Host = "secret.example"
	old.QType = nondetU16()
	old.QClass = nondetU16()
	dirtyMW.pool.Put(old)
	dirty := dirtyMW.newRequestInfo(ctx, req, laddr, raddr)
	verifAssert("recycled-object-was-reused", dirty == old)

	fresh := mk().newRequestInfo(ctx, req, laddr, raddr)

	verifAssert("device-result-of-this-request", dirty.DeviceResult == fresh.DeviceResult)
	verifAssert("no-stale-ecs", dirty.ECS == nil && fresh.ECS == nil)
	verifAssert("no-stale-location", dirty.Location == nil && fresh.Location == nil)
	verifAssert("remote-ip-of-this-request", dirty.RemoteIP == fresh.RemoteIP && dirty.RemoteIP == raddr.Addr())
	verifAssert("host-and-question-of-this-request", dirty.Host == fresh.Host && dirty.Host == "example.org" && dirty.QType == fresh.QType && dirty.QClass == fresh.QClass)
	verifAssert("server-data-kept", dirty.Proto == fresh.Proto && dirty.Server == fresh.Server && dirty.FilteringGroup == fresh.FilteringGroup && dirty.ServerGroup == fresh.ServerGroup)
	if kind == 1 {
		verifAssert("profile-constructor-of-this-request", dirty.Messages != msgs && dirty.Messages != nil && fresh.Messages != msgs)
	} else {
		verifAssert("default-constructor-for-anonymous", dirty.Messages == msgs && fresh.Messages == msgs)
	}
	pd, dd := dirty.DeviceData()
	pf, df := fresh.DeviceData()
	verifAssert("identity-of-this-request", pd == pf && dd == df)
	verifReach("done")
}
