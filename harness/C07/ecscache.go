package ecscache

//verif:pkg internal/ecscache

import (
	"context"
	"net"
	"net/netip"
	"time"

	"github.com/AdguardTeam/AdGuardDNS/internal/dnsmsg"
	"github.com/AdguardTeam/golibs/logutil/slogutil"
	"github.com/AdguardTeam/golibs/syncutil"
	"github.com/miekg/dns"
)

// verifSlot is a one-slot cache honouring the agdcache.Interface contract.
type verifSlot struct {
	has bool
	key uint64
	val *cacheItem
}

func (c *verifSlot) Set(key uint64, val *cacheItem) { c.has, c.key, c.val = true, key, val }
func (c *verifSlot) SetWithExpire(key uint64, val *cacheItem, _ time.Duration) {
	c.Set(key, val)
}
func (c *verifSlot) Get(key uint64) (*cacheItem, bool) {
	if !c.has || c.key != key {
		return nil, false
	}
	return c.val, true
}
func (c *verifSlot) Clear()   { c.has = false }
func (c *verifSlot) Len() int { return 0 }

// VerifC07CacheShared: the message kept in the response cache is shared by every
// request that hits it, so serving a hit must not write to it (a write would be seen
// by a request in flight on the same entry): after any hit the cached message still
// has the ID, flags and question it was stored with, and what is handed out is a
// different object with the requester's own ID, flags and question spelling.
//
//verif:harness name=H07d-cache-shared tier=quick,thorough bounds="one stored answer; 1..2 hits by requesters with independent symbolic ID, RD, CD and AD bits and a differently cased question name; both cache kinds" reach=hit,done maxpaths=20000
//verif:assume one-slot cache stub; expiry not involved (same instant)
func VerifC07CacheShared() {
	verifPoolMode(1) // released pooled objects (cache requests, cloned messages) are handed back
	noECS, ecs := &verifSlot{}, &verifSlot{}
	mw := &Middleware{
		cloner: dnsmsg.NewCloner(dnsmsg.EmptyClonerStat{}),
		cacheReqPool: syncutil.NewPool(func() (req *cacheRequest) {
			return &cacheRequest{}
		}),
		logger:   slogutil.NewDiscardLogger(),
		cache:    noECS,
		ecsCache: ecs,
	}
	verifSetClock(1 << 40)
	req0 := &dns.Msg{}
	req0.SetQuestion("example.org.", dns.TypeA)
	req0.Id = nondetU16()
	resp := (&dns.Msg{}).SetReply(req0)
	resp.RecursionAvailable = true
	resp.Answer = []dns.RR{&dns.A{Hdr: dns.RR_Header{Name: "example.org.", Rrtype: dns.TypeA, Class: dns.ClassINET, Ttl: 300}, A: net.IP{192, 0, 2, 1}}}
	cr := &cacheRequest{host: "example.org", subnet: netip.PrefixFrom(netip.IPv4Unspecified(), 0), qType: dns.TypeA, qClass: dns.ClassINET}
	dep := verifChoice(2) == 1
	mw.set(resp, cr, dep)
	target := noECS
	if dep {
		target = ecs
	}
	verifAssume(target.has)
	stored := target.val.msg
	id0, rd0, cd0, q0 := stored.Id, stored.RecursionDesired, stored.CheckingDisabled, stored.Question[0]
	rr0 := stored.Answer[0]

	hits := 1 + verifChoice(2)
	for k := 0; k < hits; k++ {
		req := &dns.Msg{}
		req.SetQuestion([]string{"EXAMPLE.org.", "example.ORG."}[k], dns.TypeA)
		req.Id = nondetU16()
		req.RecursionDesired, req.CheckingDisabled, req.AuthenticatedData = nondetBool(), nondetBool(), nondetBool()
		got, _ := mw.get(context.Background(), req, cr)
		verifAssert("hit", got != nil)
		if got == nil {
			return
		}
		verifReach("hit")
		verifAssert("handed-out-message-is-not-the-cached-object", got != stored && (len(got.Answer) == 0 || got.Answer[0] != rr0))
		verifAssert("handed-out-message-is-the-requester's", got.Id == req.Id && got.RecursionDesired == req.RecursionDesired && got.CheckingDisabled == req.CheckingDisabled && len(got.Question) == 1 && got.Question[0].Name == req.Question[0].Name)
		verifAssert("cached-message-not-written-by-a-hit", target.val.msg == stored && stored.Id == id0 && stored.RecursionDesired == rd0 && stored.CheckingDisabled == cd0 && len(stored.Question) == 1 && stored.Question[0] == q0 && len(stored.Answer) == 1 && stored.Answer[0] == rr0 && rr0.Header().Ttl == 300)
	}
	verifReach("done")
}
