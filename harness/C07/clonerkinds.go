package dnsmsg

//verif:pkg internal/dnsmsg

import (
	"net"

	"github.com/miekg/dns"
)

// verifKindMsg builds a response with one record of the chosen kind whose numeric
// fields and addresses come from seed bytes (symbolic), plus an OPT record whose
// options depend on optKind.
func verifKindMsg(kind, optKind int, seed []byte, name string) *dns.Msg {
	m := &dns.Msg{}
	m.SetQuestion(name, dns.TypeA)
	m.Response = true
	m.Id = uint16(seed[0])<<8 | uint16(seed[1])
	hdr := func(t uint16) dns.RR_Header {
		return dns.RR_Header{Name: name, Rrtype: t, Class: dns.ClassINET, Ttl: uint32(seed[2])}
	}
	switch kind {
	case 0:
		m.Answer = []dns.RR{&dns.A{Hdr: hdr(dns.TypeA), A: net.IP{seed[3], seed[4], seed[5], seed[6]}}}
	case 1:
		ip := make(net.IP, 16)
		copy(ip, seed)
		m.Answer = []dns.RR{&dns.AAAA{Hdr: hdr(dns.TypeAAAA), AAAA: ip}}
	case 2:
		m.Answer = []dns.RR{&dns.CNAME{Hdr: hdr(dns.TypeCNAME), Target: "t." + name}}
	case 3:
		m.Answer = []dns.RR{&dns.MX{Hdr: hdr(dns.TypeMX), Mx: "mx." + name, Preference: uint16(seed[3])<<8 | uint16(seed[4])}}
	case 4:
		m.Answer = []dns.RR{&dns.PTR{Hdr: hdr(dns.TypePTR), Ptr: "p." + name}}
	case 5:
		m.Answer = []dns.RR{&dns.SRV{Hdr: hdr(dns.TypeSRV), Target: "s." + name, Priority: uint16(seed[3]), Weight: uint16(seed[4]), Port: uint16(seed[5])<<8 | uint16(seed[6])}}
	case 6:
		m.Answer = []dns.RR{&dns.TXT{Hdr: hdr(dns.TypeTXT), Txt: []string{"v=" + name, "x"}}}
	case 7:
		m.Ns = []dns.RR{&dns.SOA{Hdr: hdr(dns.TypeSOA), Ns: "ns." + name, Mbox: "m." + name, Serial: uint32(seed[3]), Refresh: uint32(seed[4]), Retry: uint32(seed[5]), Expire: uint32(seed[6]), Minttl: uint32(seed[7])}}
	}
	if optKind > 0 {
		o := &dns.OPT{Hdr: dns.RR_Header{Name: ".", Rrtype: dns.TypeOPT, Class: uint16(seed[8])<<8 | uint16(seed[9]), Ttl: uint32(seed[10]) << 8}}
		switch optKind {
		case 2:
			o.Option = []dns.EDNS0{&dns.EDNS0_SUBNET{Code: dns.EDNS0SUBNET, Family: 1, SourceNetmask: 24, SourceScope: seed[11], Address: net.IP{seed[12], seed[13], seed[14], 0}}}
		case 3:
			o.Option = []dns.EDNS0{&dns.EDNS0_COOKIE{Code: dns.EDNS0COOKIE, Cookie: "00112233" + name[:2]}, &dns.EDNS0_EDE{InfoCode: uint16(seed[11]), ExtraText: "e-" + name}}
		case 4:
			// an option kind the cloner has no pool for, next to one it has
			o.Option = []dns.EDNS0{&dns.EDNS0_SUBNET{Code: dns.EDNS0SUBNET, Family: 1, SourceNetmask: 24, SourceScope: seed[11], Address: net.IP{seed[12], seed[13], seed[14], 0}}, &dns.EDNS0_PADDING{Padding: []byte{seed[15], 0, 0}}}
		}
		m.Extra = []dns.RR{o}
	}
	return m
}

// verifMsgEq compares two messages of the shapes verifKindMsg builds, field by field.
func verifMsgEq(a, b *dns.Msg) bool {
	ok := verifAnd(a.Id == b.Id, a.Response == b.Response, a.Rcode == b.Rcode)
	if len(a.Question) != len(b.Question) || len(a.Answer) != len(b.Answer) || len(a.Ns) != len(b.Ns) || len(a.Extra) != len(b.Extra) {
		return false
	}
	for i := range a.Question {
		ok = verifAnd(ok, a.Question[i] == b.Question[i])
	}
	rrEq := func(x, y dns.RR) bool {
		hx, hy := x.Header(), y.Header()
		r := verifAnd(hx.Name == hy.Name, hx.Rrtype == hy.Rrtype, hx.Class == hy.Class, hx.Ttl == hy.Ttl)
		switch x := x.(type) {
		case *dns.A:
			y, k := y.(*dns.A)
			return k && verifAnd(r, len(x.A) == len(y.A), verifBytesEqK(x.A, y.A))
		case *dns.AAAA:
			y, k := y.(*dns.AAAA)
			return k && verifAnd(r, verifBytesEqK(x.AAAA, y.AAAA))
		case *dns.CNAME:
			y, k := y.(*dns.CNAME)
			return k && verifAnd(r, x.Target == y.Target)
		case *dns.MX:
			y, k := y.(*dns.MX)
			return k && verifAnd(r, x.Mx == y.Mx, x.Preference == y.Preference)
		case *dns.PTR:
			y, k := y.(*dns.PTR)
			return k && verifAnd(r, x.Ptr == y.Ptr)
		case *dns.SRV:
			y, k := y.(*dns.SRV)
			return k && verifAnd(r, x.Target == y.Target, x.Priority == y.Priority, x.Weight == y.Weight, x.Port == y.Port)
		case *dns.TXT:
			y, k := y.(*dns.TXT)
			return k && len(x.Txt) == len(y.Txt) && verifAnd(r, x.Txt[0] == y.Txt[0], x.Txt[1] == y.Txt[1])
		case *dns.SOA:
			y, k := y.(*dns.SOA)
			return k && verifAnd(r, x.Ns == y.Ns, x.Mbox == y.Mbox, x.Serial == y.Serial, x.Refresh == y.Refresh, x.Retry == y.Retry, x.Expire == y.Expire, x.Minttl == y.Minttl)
		case *dns.OPT:
			y, k := y.(*dns.OPT)
			if !k || len(x.Option) != len(y.Option) {
				return false
			}
			for i := range x.Option {
				switch ox := x.Option[i].(type) {
				case *dns.EDNS0_SUBNET:
					oy, k := y.Option[i].(*dns.EDNS0_SUBNET)
					if !k {
						return false
					}
					r = verifAnd(r, ox.Family == oy.Family, ox.SourceNetmask == oy.SourceNetmask, ox.SourceScope == oy.SourceScope, verifBytesEqK(ox.Address, oy.Address))
				case *dns.EDNS0_COOKIE:
					oy, k := y.Option[i].(*dns.EDNS0_COOKIE)
					if !k {
						return false
					}
					r = verifAnd(r, ox.Cookie == oy.Cookie)
				case *dns.EDNS0_EDE:
					oy, k := y.Option[i].(*dns.EDNS0_EDE)
					if !k {
						return false
					}
					r = verifAnd(r, ox.InfoCode == oy.InfoCode, ox.ExtraText == oy.ExtraText)
				case *dns.EDNS0_PADDING:
					oy, k := y.Option[i].(*dns.EDNS0_PADDING)
					if !k {
						return false
					}
					r = verifAnd(r, verifBytesEqK(ox.Padding, oy.Padding))
				}
			}
			return r
		}
		return false
	}
	for i := range a.Answer {
		ok = verifAnd(ok, rrEq(a.Answer[i], b.Answer[i]))
	}
	for i := range a.Ns {
		ok = verifAnd(ok, rrEq(a.Ns[i], b.Ns[i]))
	}
	for i := range a.Extra {
		ok = verifAnd(ok, rrEq(a.Extra[i], b.Extra[i]))
	}
	return ok
}

func verifBytesEqK(a, b []byte) bool {
	if len(a) != len(b) {
		return false
	}
	r := true
	for i := range a {
		r = verifAnd(r, a[i] == b[i])
	}
	return r
}

// VerifC07ClonerKinds: for every record kind and EDNS option the cloner handles (and
// an option it does not), a clone equals its original, cloning or releasing never
// changes a live original or a live clone, and a recycled object is completely
// overwritten by the next clone.
//
//verif:harness name=H07e-cloner-kinds tier=quick,thorough bounds="two messages with one record each of a kind from {A, AAAA, CNAME, MX, PTR, SRV, TXT, SOA} (kinds chosen independently) and an OPT record that is absent, bare, with SUBNET, with COOKIE+EDE, or with SUBNET+PADDING; all numeric fields and addresses symbolic; sequence clone(m1), release, clone(m2), clone(m1)" reach=done maxpaths=200000
//verif:assume pool hands released objects back in sync.Pool order
func VerifC07ClonerKinds() {
	verifPoolMode(1)
	c := NewCloner(EmptyClonerStat{})
	k1, k2 := verifChoice(8), verifChoice(8)
	o1, o2 := verifChoice(5), verifChoice(5)
	s1, s2 := nondetBytes(16), nondetBytes(16)
	m1, m2 := verifKindMsg(k1, o1, s1, "one.example."), verifKindMsg(k2, o2, s2, "two.example.")
	// independent reference copies of the originals
	r1, r2 := verifKindMsg(k1, o1, s1, "one.example."), verifKindMsg(k2, o2, s2, "two.example.")

	c1 := c.Clone(m1)
	verifAssert("clone-equals-original", c1 != m1 && verifMsgEq(c1, r1))
	c.Dispose(c1)
	verifAssert("release-leaves-the-originals-alone", verifMsgEq(m1, r1) && verifMsgEq(m2, r2))
	c2 := c.Clone(m2)
	verifAssert("recycled-object-completely-overwritten", c2 != m2 && verifMsgEq(c2, r2))
	c3 := c.Clone(m1)
	verifAssert("second-clone-equals-original", c3 != m1 && c3 != c2 && verifMsgEq(c3, r1))
	verifAssert("live-clone-unchanged-by-a-later-clone", verifMsgEq(c2, r2))
	verifAssert("live-originals-unchanged-by-cloning", verifMsgEq(m1, r1) && verifMsgEq(m2, r2))
	verifReach("done")
}
