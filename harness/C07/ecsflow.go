package ecscache

//verif:pkg internal/ecscache

import (
	"context"
	"net"
	"net/netip"

	"github.com/AdguardTeam/AdGuardDNS/internal/agd"
	"github.com/AdguardTeam/AdGuardDNS/internal/dnsmsg"
	"github.com/AdguardTeam/AdGuardDNS/internal/dnsserver"
	"github.com/AdguardTeam/AdGuardDNS/internal/geoip"
	"github.com/AdguardTeam/golibs/logutil/slogutil"
	"github.com/AdguardTeam/golibs/netutil"
	"github.com/AdguardTeam/golibs/syncutil"
	"github.com/miekg/dns"
)

type verifGeo7 struct{}

func (verifGeo7) SubnetByLocation(*geoip.Location, netutil.AddrFamily) (netip.Prefix, error) {
	return netip.MustParsePrefix("198.51.100.0/24"), nil
}
func (verifGeo7) Data(string, netip.Addr) (*geoip.Location, error) { return nil, nil }

// verifUp7 echoes the subnet it is given, with its own scope.
type verifUp7 struct {
	calls int
	scope uint8
}

func (n *verifUp7) ServeDNS(ctx context.Context, rw dnsserver.ResponseWriter, req *dns.Msg) error {
	n.calls++
	resp := (&dns.Msg{}).SetReply(req)
	resp.Answer = []dns.RR{&dns.A{Hdr: dns.RR_Header{Name: req.Question[0].Name, Rrtype: dns.TypeA, Class: dns.ClassINET, Ttl: 60}, A: net.IP{192, 0, 2, 55}}}
	if o := req.IsEdns0(); o != nil {
		resp.SetEdns0(1232, false)
		ro := resp.IsEdns0()
		for _, e := range o.Option {
			if s, ok := e.(*dns.EDNS0_SUBNET); ok {
				ro.Option = append(ro.Option, &dns.EDNS0_SUBNET{Code: dns.EDNS0SUBNET, Family: s.Family, SourceNetmask: s.SourceNetmask, SourceScope: n.scope, Address: s.Address})
			}
		}
	}
	return rw.WriteMsg(ctx, req, resp)
}

type verifRW7 struct {
	resp *dns.Msg
}

func (w *verifRW7) LocalAddr() net.Addr  { return &net.UDPAddr{IP: net.IP{192, 0, 2, 1}, Port: 53} }
func (w *verifRW7) RemoteAddr() net.Addr { return &net.UDPAddr{IP: net.IP{198, 51, 100, 7}, Port: 4321} }
func (w *verifRW7) WriteMsg(_ context.Context, _, resp *dns.Msg) error {
	w.resp = resp
	return nil
}

// VerifC07ECSFlow: two clients mapped to the same GeoIP subnet ask the same question
// one after the other through the whole ECS cache middleware; the second is answered
// from the cache.  Its response holds nothing of the first client: the subnet option is
// its own (or absent when it sent none), the ID and question spelling are its own.
//
//verif:harness name=H07i-ecs-flow tier=quick,thorough bounds="two consecutive clients of one GeoIP subnet; each with its own symbolic /24 ECS option, with a bare OPT record, or without EDNS; upstream scope 0 or 24; symbolic IDs; one-slot caches" reach=done,hit,second-without-ecs-after-first-with maxpaths=20000
//verif:assume GeoIP and upstream are stubs; one-slot cache stub; no expiry (same instant)
func VerifC07ECSFlow() {
	verifPoolMode(1)
	noECS, ecs := &verifSlot{}, &verifSlot{}
	mw := &Middleware{
		cloner: dnsmsg.NewCloner(dnsmsg.EmptyClonerStat{}),
		cacheReqPool: syncutil.NewPool(func() (req *cacheRequest) {
			return &cacheRequest{}
		}),
		logger:   slogutil.NewDiscardLogger(),
		cache:    noECS,
		ecsCache: ecs,
		geoIP:    verifGeo7{},
	}
	verifSetClock(1 << 40)
	up := &verifUp7{}
	if verifChoice(2) == 1 {
		up.scope = 24
	}
	h := mw.Wrap(up)
	var kinds [2]int
	var subnets [2]netip.Prefix
	for k := 0; k < 2; k++ {
		req := &dns.Msg{}
		req.SetQuestion([]string{"example.org.", "EXAMPLE.org."}[k], dns.TypeA)
		req.Id = nondetU16()
		kinds[k] = verifChoice(3) // 0 no EDNS, 1 bare OPT, 2 ECS
		ri := &agd.RequestInfo{RemoteIP: netip.MustParseAddr("198.51.100.7"), Host: "example.org", QType: dns.TypeA, QClass: dns.ClassINET, Proto: agd.ProtoDNS}
		if kinds[k] >= 1 {
			req.SetEdns0(1232, false)
		}
		if kinds[k] == 2 {
			subnets[k] = netip.PrefixFrom(netip.AddrFrom4([4]byte{203, 0, nondetU8(), 0}), 24)
			o := req.IsEdns0()
			o.Option = append(o.Option, &dns.EDNS0_SUBNET{Code: dns.EDNS0SUBNET, Family: 1, SourceNetmask: 24, Address: subnets[k].Addr().AsSlice()})
			ri.ECS = &dnsmsg.ECS{Subnet: subnets[k]}
		}
		rw := &verifRW7{}
		err := h.ServeDNS(agd.ContextWithRequestInfo(context.Background(), ri), rw, req)
		verifAssert("served", err == nil && rw.resp != nil)
		if rw.resp == nil {
			return
		}
		r := rw.resp
		verifAssert("response-has-the-requester's-id-and-question", r.Id == req.Id && len(r.Question) == 1 && r.Question[0].Name == req.Question[0].Name)
		var got []*dns.EDNS0_SUBNET
		if o := r.IsEdns0(); o != nil {
			for _, e := range o.Option {
				if s, ok := e.(*dns.EDNS0_SUBNET); ok {
					got = append(got, s)
				}
			}
		}
		if kinds[k] == 2 {
			verifAssert("subnet-option-in-the-response-is-the-requester's-own", len(got) == 1 && netip.AddrFrom4([4]byte(got[0].Address.To4())) == subnets[k].Addr() && got[0].SourceNetmask == 24)
		} else {
			verifAssert("no-subnet-option-for-a-requester-that-sent-none", len(got) == 0)
		}
		if k == 1 && up.calls == 1 {
			verifReach("hit")
			if kinds[0] == 2 && kinds[1] != 2 {
				verifReach("second-without-ecs-after-first-with")
			}
		}
	}
	verifReach("done")
}
