package dnsmsg

//verif:pkg internal/dnsmsg

import (
	"net/netip"
	"time"

	"github.com/miekg/dns"
)

// VerifC07ConstructorRecycled: a response built by the message constructor for one
// client out of recycled message parts (records, OPT, EDNS options released with an
// earlier client's message) equals the response a constructor with an empty pool
// builds: nothing of the earlier message survives in it.
//
//verif:harness name=H07h-constructor-recycled tier=quick,thorough bounds="an earlier message with one record of a kind from {A, AAAA, CNAME, MX, PTR, SRV, TXT, SOA} and an OPT with SUBNET / COOKIE+EDE / SUBNET+PADDING (symbolic fields) is cloned and released; then one constructed response for another client from {blocked response in null-IP / NXDOMAIN / REFUSED mode, rcode response + EDE, blocked IP response, TXT response}; request with or without EDNS (symbolic size, DO), qtype A / AAAA / HTTPS; EDE enabled" reach=done,opt-recycled maxpaths=200000
//verif:assume sync.Pool hands released objects back (LIFO)
func VerifC07ConstructorRecycled() {
	verifPoolMode(1)
	seed := make([]byte, 16)
	for i := range seed {
		seed[i] = nondetU8()
	}
	dirty, fresh := NewCloner(EmptyClonerStat{}), NewCloner(EmptyClonerStat{})
	kind, optKind := verifChoice(8), 2+verifChoice(3)
	prev := verifKindMsg(kind, optKind, seed, "client-a.example.")
	dirty.Dispose(dirty.Clone(prev))

	var mode BlockingMode = &BlockingModeNullIP{}
	op := verifChoice(6)
	switch op {
	case 1:
		mode = &BlockingModeNXDOMAIN{}
	case 2:
		mode = &BlockingModeREFUSED{}
	}
	mk := func(c *Cloner) *Constructor {
		cons, err := NewConstructor(&ConstructorConfig{
			Cloner:              c,
			BlockingMode:        mode,
			StructuredErrors:    &StructuredDNSErrorsConfig{Enabled: false},
			FilteredResponseTTL: 10 * time.Second,
			EDEEnabled:          true,
		})
		verifAssume(err == nil)
		return cons
	}
	req := &dns.Msg{}
	req.SetQuestion("client-b.example.", []uint16{dns.TypeA, dns.TypeAAAA, dns.TypeHTTPS}[verifChoice(3)])
	// an address response exists for the matching address question only
	verifAssume(op != 4 || req.Question[0].Qtype == dns.TypeA)
	if op == 5 {
		verifAssume(req.Question[0].Qtype == dns.TypeA)
		req.Question[0].Qtype = dns.TypeTXT
	}
	req.Id = nondetU16()
	hasOPT := verifChoice(2) == 1
	if hasOPT {
		req.SetEdns0(nondetU16(), nondetBool())
	}
	build := func(c *Constructor) (m *dns.Msg) {
		var err error
		switch op {
		case 0, 1, 2:
			m, err = c.NewBlockedResp(req)
		case 3:
			m = c.NewRespRCode(req, dns.RcodeNameError)
			c.AddEDE(req, m, dns.ExtendedErrorCodeFiltered)
		case 4:
			m, err = c.NewBlockedRespIP(req, netip.MustParseAddr("203.0.113.1"))
		default:
			m, err = c.NewRespTXT(req, "first", "second")
		}
		verifAssert("no-error", err == nil && m != nil)
		return m
	}
	got, want := build(mk(dirty)), build(mk(fresh))
	// the earlier message itself is still live (a cached answer, say): releasing its
	// clone and building another client's response must not have changed it
	verifAssert("live-message-unchanged-by-releasing-its-clone-and-constructing-a-response", verifMsgEq(prev, verifKindMsg(kind, optKind, seed, "client-a.example.")))
	if got == nil || want == nil {
		return
	}
	verifAssert("same-sections-as-from-an-empty-pool", len(got.Answer) == len(want.Answer) && len(got.Ns) == len(want.Ns) && len(got.Extra) == len(want.Extra))
	verifAssert("response-equals-the-one-built-from-an-empty-pool", verifMsgEq(got, want))
	if o := got.IsEdns0(); o != nil {
		for _, opt := range o.Option {
			_, isEDE := opt.(*dns.EDNS0_EDE)
			verifAssert("no-option-of-the-earlier-message-in-the-response", isEDE)
		}
		verifReach("opt-recycled")
	}
	verifReach("done")
}
