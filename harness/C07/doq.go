package dnsserver

//verif:pkg internal/dnsserver

import (
	"context"
	"io"
	"net"
	"time"

	"github.com/AdguardTeam/golibs/syncutil"
	"github.com/miekg/dns"
	"github.com/quic-go/quic-go"
)

// verifCountingDisposer makes a released message unusable at once (as a pool does when
// another request takes the object) and counts releases per message.
type verifCountingDisposer struct {
	n      map[*dns.Msg]int
	double bool
}

func (d *verifCountingDisposer) Dispose(m *dns.Msg) {
	if m == nil {
		return
	}
	if d.n == nil {
		d.n = map[*dns.Msg]int{}
	}
	d.n[m]++
	if d.n[m] > 1 {
		d.double = true
	}
	m.Id ^= 0xffff
	m.Question = nil
	m.Answer = nil
}

type verifQStream7 struct {
	quic.Stream
	data    []byte
	pos     int
	written [][]byte
}

func (s *verifQStream7) Read(p []byte) (n int, err error) {
	if s.pos >= len(s.data) {
		return 0, io.EOF
	}
	n = copy(p, s.data[s.pos:])
	s.pos += n
	return n, nil
}
func (s *verifQStream7) SetReadDeadline(time.Time) error { return nil }
func (s *verifQStream7) Write(b []byte) (int, error) {
	s.written = append(s.written, append([]byte(nil), b...))
	return len(b), nil
}
func (s *verifQStream7) Close() error { return nil }

type verifQConn7 struct{ quic.Connection }

func (c *verifQConn7) LocalAddr() net.Addr  { return &net.UDPAddr{IP: net.IP{192, 0, 2, 1}, Port: 853} }
func (c *verifQConn7) RemoteAddr() net.Addr { return &net.UDPAddr{IP: net.IP{198, 51, 100, 7}, Port: 4321} }
func (c *verifQConn7) CloseWithError(quic.ApplicationErrorCode, string) error { return nil }

// verifAnswerA answers with one A record.
type verifAnswerA struct{ resp *dns.Msg }

func (h *verifAnswerA) ServeDNS(ctx context.Context, rw ResponseWriter, req *dns.Msg) error {
	h.resp = (&dns.Msg{}).SetReply(req)
	h.resp.Answer = []dns.RR{&dns.A{Hdr: dns.RR_Header{Name: req.Question[0].Name, Rrtype: dns.TypeA, Class: dns.ClassINET, Ttl: 60}, A: net.IP{192, 0, 2, 9}}}
	return rw.WriteMsg(ctx, req, h.resp)
}

// VerifC07DoQRelease: on DoQ the response is handed back to the message pool exactly
// once and only after it has been written: what goes on the stream is the handler's
// answer for this query, not a message that was already released for reuse.
//
//verif:harness name=H07j-doq-release tier=quick,thorough bounds="one DoQ query (symbolic ID) answered by the handler with one A record; a disposer that invalidates a message as soon as it is released and counts releases" reach=done
func VerifC07DoQRelease() {
	verifPoolMode(1)
	h := &verifAnswerA{}
	disp := &verifCountingDisposer{}
	s := &ServerQUIC{
		ServerBase: newServerBase(ProtoDoQ, ConfigBase{Handler: h, Disposer: disp}),
		reqPool:    syncutil.NewSlicePool[byte](quicBytePoolSize),
		respPool:   syncutil.NewSlicePool[byte](quicBytePoolSize),
	}
	req := &dns.Msg{}
	req.SetQuestion("example.org.", dns.TypeA)
	id := nondetU16()
	req.Id = id
	wire, perr := req.Pack()
	verifAssume(perr == nil)
	stream := &verifQStream7{data: append([]byte{byte(len(wire) >> 8), byte(len(wire))}, wire...)}
	err := s.serveQUICStream(context.Background(), stream, &verifQConn7{})
	verifAssert("no-error", err == nil)
	verifAssert("exactly-one-frame-written", len(stream.written) == 1)
	if len(stream.written) != 1 {
		return
	}
	out := &dns.Msg{}
	verifAssert("written-response-decodes", len(stream.written[0]) > 2 && out.Unpack(stream.written[0][2:]) == nil)
	verifAssert("written-response-is-the-handler's-answer-for-this-query", out.Id == id && len(out.Question) == 1 && out.Question[0].Name == "example.org." && len(out.Answer) == 1)
	verifAssert("response-released-at-most-once", !disp.double)
	verifReach("done")
}
