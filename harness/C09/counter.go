package ratelimit

//verif:pkg internal/dnsserver/ratelimit

import "time"

// VerifC09Counter: RequestCounter.Add equals the sliding-window-log model at every event.
//
//verif:harness name=H09a-window tier=quick,thorough bounds="num in 1..3, events = num+3, timestamps/interval full 64-bit (positive, non-decreasing, below 2^62)" reach=done
//verif:assume timestamps are positive, non-decreasing and below 2^62 (no int64 overflow in ts-tail); interval in 1..2^62
func VerifC09Counter() {
	num := uint(1 + verifChoice(3))
	ivl := nondetI64()
	verifAssume(ivl > 0 && ivl < 1<<62)
	r := NewRequestCounter(num, time.Duration(ivl))
	n := int(num) + 3
	ts := make([]int64, n)
	for j := 0; j < n; j++ {
		ts[j] = nondetI64()
		verifAssume(ts[j] > 0 && ts[j] < 1<<62)
		if j > 0 {
			verifAssume(ts[j] >= ts[j-1])
		}
		got := r.Add(time.Unix(0, ts[j]))
		// reference: the event is above the limit iff at least num earlier events lie
		// within ivl of it, i.e. (timestamps being sorted) iff the num-th previous does.
		want := false
		if j >= int(num) {
			want = ts[j]-ts[j-int(num)] <= ivl
		}
		verifAssert("window-exact", got == want)
	}
	verifReach("done")
}
