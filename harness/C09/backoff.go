package ratelimit

//verif:pkg internal/dnsserver/ratelimit
//verif:noop github.com/patrickmn/go-cache.runJanitor

import (
	"context"
	"net/netip"
	"time"

	"github.com/miekg/dns"
)

func verifAddr(is6 bool) netip.Addr {
	if is6 {
		var b [16]byte
		for i := range b {
			b[i] = nondetU8()
		}
		return netip.AddrFrom16(b)
	}
	var b [4]byte
	for i := range b {
		b[i] = nondetU8()
	}
	return netip.AddrFrom4(b)
}

// refSubnet is the reference limiter state of one subnet.
type verifRefSubnet struct {
	ts   []int64 // recorded events
	hits uint64
}

func (s *verifRefSubnet) event(now int64, num uint, ivl int64, backoffCount uint) (drop bool) {
	if s.hits >= uint64(backoffCount) {
		return true
	}
	s.ts = append(s.ts, now)
	n := len(s.ts)
	above := false
	if n > int(num) {
		above = now-s.ts[n-1-int(num)] <= ivl
	}
	if above {
		s.hits++
	}
	return above
}

// VerifC09Backoff: decisions of the real Backoff limiter over two clients equal a
// per-subnet sliding-window + hit-counter reference; subnets are separated exactly
// by the masked prefix; allowlist and ANY refusal are honoured.
//
//verif:harness name=H09b-backoff tier=quick bounds="2 clients of one family (v4 or v6, full-width addresses; the other family configured with a different count, interval and key length), key length full range, 1 allowlist prefix, count 1..2, backoff count 1..2, 3 events, no cache expiry within the horizon" reach=done,dropped,passed,allowlisted,two-subnets,same-subnet maxpaths=60000
//verif:assume request/hit counters do not expire within the explored horizon (go-cache with no expiration); clock readings positive, non-decreasing, below 2^62
func VerifC09Backoff() { verifC09Backoff(3) }

// VerifC09Backoff4 is the thorough variant (4 events).
//
//verif:harness name=H09b-backoff4 tier=thorough bounds="as H09b-backoff with 4 events" reach=done,dropped,passed,allowlisted,two-subnets,same-subnet maxpaths=200000
//verif:assume request/hit counters do not expire within the explored horizon (go-cache with no expiration); clock readings positive, non-decreasing, below 2^62
func VerifC09Backoff4() { verifC09Backoff(4) }

func verifC09Backoff(events int) {
	is6 := verifChoice(2) == 1
	a, b := verifAddr(is6), verifAddr(is6)
	maxLen := 32
	if is6 {
		maxLen = 128
	}
	keyLen := int(nondetU8())
	verifAssume(keyLen >= 1)
	verifAssume(keyLen <= maxLen)
	num := uint(1 + verifChoice(2))
	backoffCount := uint(1 + verifChoice(2))
	ivl := nondetI64()
	verifAssume(ivl > 0)
	verifAssume(ivl < 1<<62)
	refuseANY := verifChoice(2) == 1

	// allowlist: one symbolic prefix of the same family
	alAddr := verifAddr(is6)
	alBits := int(nondetU8())
	verifAssume(alBits <= maxLen)
	alPrefix := netip.PrefixFrom(alAddr, alBits).Masked()
	al := NewDynamicAllowlist([]netip.Prefix{alPrefix}, nil)

	otherIvl := nondetI64()
	verifAssume(otherIvl > 0)
	verifAssume(otherIvl < 1<<62)
	conf := &BackoffConfig{
		Allowlist:            al,
		Period:               0,
		Duration:             0,
		Count:                backoffCount,
		ResponseSizeEstimate: 12,
		RefuseANY:            refuseANY,
	}
	// the clients' family gets the parameters under test, the other family different ones
	if is6 {
		conf.IPv6Count, conf.IPv6Interval, conf.IPv6SubnetKeyLen = num, time.Duration(ivl), keyLen
		conf.IPv4Count, conf.IPv4Interval, conf.IPv4SubnetKeyLen = 3-num, time.Duration(otherIvl), 24
	} else {
		conf.IPv4Count, conf.IPv4Interval, conf.IPv4SubnetKeyLen = num, time.Duration(ivl), keyLen
		conf.IPv6Count, conf.IPv6Interval, conf.IPv6SubnetKeyLen = 3-num, time.Duration(otherIvl), 56
	}
	l := NewBackoff(conf)

	pa, _ := a.Prefix(keyLen)
	pb, _ := b.Prefix(keyLen)
	same := pa == pb
	if same {
		verifReach("same-subnet")
	} else {
		verifReach("two-subnets")
	}
	inAL := [2]bool{alPrefix.Contains(a), alPrefix.Contains(b)}

	var ref [2]verifRefSubnet
	ctx := context.Background()
	var last int64
	for j := 0; j < events; j++ {
		who := verifChoice(2)
		ip := a
		if who == 1 {
			ip = b
		}
		now := nondetI64()
		verifAssume(now > 0)
		verifAssume(now < 1<<62)
		verifAssume(now >= last)
		last = now
		verifSetClock(now)
		qt := nondetU16()
		req := &dns.Msg{Question: []dns.Question{{Name: "example.org.", Qtype: qt, Qclass: dns.ClassINET}}}

		drop, allowlisted, err := l.IsRateLimited(ctx, req, ip)
		verifAssert("no-error-for-valid-address", err == nil)

		switch {
		case refuseANY && qt == dns.TypeANY:
			verifAssert("any-refused-for-everyone", drop && !allowlisted)
		case inAL[who]:
			verifAssert("allowlisted-never-dropped", !drop && allowlisted)
			verifReach("allowlisted")
		default:
			idx := who
			if same {
				idx = 0
			}
			want := ref[idx].event(now, num, ivl, backoffCount)
			verifAssert("drop-equals-reference", drop == want)
			verifAssert("not-flagged-allowlisted", !allowlisted)
			if drop {
				verifReach("dropped")
			} else {
				verifReach("passed")
			}
		}
	}
	verifReach("done")
}


// VerifC09Responses: a counted response weighs as many events as it has size
// estimates, and every one of them counts towards the limit and towards back-off.
//
//verif:harness name=H09c-responses tier=quick bounds="one client; count 1..2, back-off count 1..3; sequence of 3 steps from {query, counted response of 2 or 3 size estimates}; interval and clock readings symbolic" reach=done,dropped,passed,response-counted maxpaths=100000
//verif:assume request/hit counters do not expire within the explored horizon; clock readings positive, non-decreasing, below 2^62
func VerifC09Responses() { verifC09Responses(3) }

// VerifC09Responses5 is the thorough variant.
//
//verif:harness name=H09c-responses5 tier=thorough bounds="as H09c-responses with 5 steps" reach=done,dropped,passed,response-counted maxpaths=5000000
func VerifC09Responses5() { verifC09Responses(5) }

func verifC09Responses(steps int) {
	ip := netip.MustParseAddr("192.0.2.77")
	num := uint(1 + verifChoice(2))
	backoffCount := uint(1 + verifChoice(3))
	ivl := nondetI64()
	verifAssume(ivl > 0)
	verifAssume(ivl < 1<<62)
	l := NewBackoff(&BackoffConfig{
		Allowlist:            NewDynamicAllowlist(nil, nil),
		Count:                backoffCount,
		ResponseSizeEstimate: 12,
		IPv4Count:            num,
		IPv4Interval:         time.Duration(ivl),
		IPv4SubnetKeyLen:     24,
		IPv6Count:            num,
		IPv6Interval:         time.Duration(ivl),
		IPv6SubnetKeyLen:     48,
	})
	var ref verifRefSubnet
	ctx := context.Background()
	var last int64
	req := &dns.Msg{Question: []dns.Question{{Name: "example.org.", Qtype: dns.TypeA, Qclass: dns.ClassINET}}}
	for j := 0; j < steps; j++ {
		now := nondetI64()
		verifAssume(now > 0)
		verifAssume(now < 1<<62)
		verifAssume(now >= last)
		last = now
		verifSetClock(now)
		if verifChoice(2) == 1 {
			resp := (&dns.Msg{}).SetReply(req)
			if verifChoice(2) == 1 {
				resp.Answer = []dns.RR{&dns.A{Hdr: dns.RR_Header{Name: "example.org.", Rrtype: dns.TypeA, Class: dns.ClassINET, Ttl: 60}, A: []byte{192, 0, 2, 1}}}
			}
			k := resp.Len() / 12
			l.CountResponses(ctx, resp, ip)
			for e := 0; e < k; e++ {
				_ = ref.event(now, num, ivl, backoffCount)
			}
			verifReach("response-counted")
			continue
		}
		drop, _, err := l.IsRateLimited(ctx, req, ip)
		verifAssert("no-error", err == nil)
		want := ref.event(now, num, ivl, backoffCount)
		verifAssert("drop-equals-reference-after-counted-responses", drop == want)
		if drop {
			verifReach("dropped")
		} else {
			verifReach("passed")
		}
	}
	verifReach("done")
}

// verifRefExpiring is the per-subnet reference with the two lifetimes of the limiter:
// the window state lives for the configured period after the subnet's first counted
// event, the hit counter (and with it the backoff state) for the configured duration
// after the first hit.
type verifRefExpiring struct {
	ts      []int64
	hasReq  bool
	reqBorn int64
	hasHit  bool
	hitBorn int64
	hits    uint64
}

func (s *verifRefExpiring) event(now int64, num uint, ivl, period, duration int64, backoffCount uint) (drop bool) {
	if s.hasHit && now > s.hitBorn+duration {
		s.hasHit, s.hits = false, 0
	}
	if s.hasHit && s.hits >= uint64(backoffCount) {
		return true
	}
	if s.hasReq && now > s.reqBorn+period {
		s.hasReq, s.ts = false, nil
	}
	if !s.hasReq {
		s.hasReq, s.reqBorn = true, now
	}
	s.ts = append(s.ts, now)
	n := len(s.ts)
	above := false
	if n > int(num) {
		above = now-s.ts[n-1-int(num)] <= ivl
	}
	if above {
		if !s.hasHit {
			s.hasHit, s.hitBorn, s.hits = true, now, 0
		}
		s.hits++
	}
	return above
}

// VerifC09Expiry: with finite, different backoff period and duration, the limiter's
// decisions for one subnet equal the reference in which the window state lives for
// the period and the backoff state for the duration: a subnet in backoff is dropped
// until the duration has passed since its first hit, and not longer.
//
//verif:harness name=H09d-expiry tier=quick bounds="one IPv4 client; count 1..2, back-off count 1..2; interval, period and duration symbolic (positive, below 2^60); 3 events at symbolic non-decreasing instants" reach=done,dropped,passed,backoff-ended,window-forgotten maxpaths=400000
//verif:assume clock readings positive, non-decreasing, below 2^61; the cache janitor goroutine does not run (expired entries are invisible to Get either way)
func VerifC09Expiry() { verifC09Expiry(3) }

// VerifC09Expiry5 is the thorough variant.
//
//verif:harness name=H09d-expiry5 tier=thorough bounds="as H09d-expiry with 4 events" reach=done,dropped,passed,backoff-ended,window-forgotten maxpaths=4000000
//verif:assume as H09d-expiry
func VerifC09Expiry5() { verifC09Expiry(4) }

func verifC09Expiry(events int) {
	num := uint(1 + verifChoice(2))
	backoffCount := uint(1 + verifChoice(2))
	pos := func() int64 {
		v := nondetI64()
		verifAssume(v > 0)
		verifAssume(v < 1<<60)
		return v
	}
	ivl, period, duration := pos(), pos(), pos()
	l := NewBackoff(&BackoffConfig{
		Allowlist:            NewDynamicAllowlist(nil, nil),
		Period:               time.Duration(period),
		Duration:             time.Duration(duration),
		Count:                backoffCount,
		ResponseSizeEstimate: 12,
		IPv4Count:            num,
		IPv4Interval:         time.Duration(ivl),
		IPv4SubnetKeyLen:     24,
		IPv6Count:            num,
		IPv6Interval:         time.Duration(ivl),
		IPv6SubnetKeyLen:     48,
	})
	ip := netip.AddrFrom4([4]byte{198, 51, 100, 7})
	ref := &verifRefExpiring{}
	ctx := context.Background()
	req := &dns.Msg{Question: []dns.Question{{Name: "example.org.", Qtype: dns.TypeA, Qclass: dns.ClassINET}}}
	var last int64
	for j := 0; j < events; j++ {
		now := nondetI64()
		verifAssume(now > 0)
		verifAssume(now < 1<<61)
		verifAssume(now >= last)
		last = now
		verifSetClock(now)
		hadHit, hadReq := ref.hasHit, ref.hasReq
		want := ref.event(now, num, ivl, period, duration, backoffCount)
		drop, _, err := l.IsRateLimited(ctx, req, ip)
		verifAssert("no-error-for-valid-address", err == nil)
		verifAssert("drop-equals-reference-with-expiry", drop == want)
		if drop {
			verifReach("dropped")
		} else {
			verifReach("passed")
		}
		if hadHit && !ref.hasHit {
			verifReach("backoff-ended")
		}
		if hadReq && ref.hasReq && ref.reqBorn == now && j > 0 {
			verifReach("window-forgotten")
		}
	}
	verifReach("done")
}
