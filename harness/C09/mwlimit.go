package ratelimitmw

//verif:pkg internal/dnssvc/internal/ratelimitmw

import (
	"context"
	"net"
	"net/netip"
	"strings"
	"time"

	"github.com/AdguardTeam/AdGuardDNS/internal/access"
	"github.com/AdguardTeam/AdGuardDNS/internal/agd"
	"github.com/AdguardTeam/AdGuardDNS/internal/agdtest"
	"github.com/AdguardTeam/AdGuardDNS/internal/dnsmsg"
	"github.com/AdguardTeam/AdGuardDNS/internal/dnsserver"
	"github.com/AdguardTeam/AdGuardDNS/internal/dnsserver/ratelimit"
	"github.com/AdguardTeam/AdGuardDNS/internal/geoip"
	"github.com/AdguardTeam/golibs/logutil/slogutil"
	"github.com/AdguardTeam/golibs/netutil"
	"github.com/miekg/dns"
)

type verifAllowAll09 struct{}

func (verifAllowAll09) IsBlockedHost(string, uint16) bool { return false }
func (verifAllowAll09) IsBlockedIP(netip.Addr) bool       { return false }

type verifNoDevice09 struct{}

func (verifNoDevice09) Find(context.Context, *dns.Msg, netip.AddrPort, netip.AddrPort) agd.DeviceResult {
	return nil
}

type verifGeo09 struct{}

func (verifGeo09) SubnetByLocation(*geoip.Location, netutil.AddrFamily) (netip.Prefix, error) {
	return netip.Prefix{}, nil
}
func (verifGeo09) Data(string, netip.Addr) (*geoip.Location, error) { return nil, nil }

// verifBigNext09 answers with a TXT record of the chosen size.
type verifBigNext09 struct {
	calls int
	txt   int
}

func (n *verifBigNext09) ServeDNS(ctx context.Context, rw dnsserver.ResponseWriter, req *dns.Msg) error {
	n.calls++
	resp := (&dns.Msg{}).SetReply(req)
	resp.Answer = []dns.RR{&dns.TXT{Hdr: dns.RR_Header{Name: req.Question[0].Name, Rrtype: dns.TypeTXT, Class: dns.ClassINET, Ttl: 10}, Txt: []string{strings.Repeat("z", n.txt)}}}
	return rw.WriteMsg(ctx, req, resp)
}

type verifRW09 struct {
	writes int
	addr   [4]byte
}

func (w *verifRW09) LocalAddr() net.Addr { return &net.UDPAddr{IP: net.IP{192, 0, 2, 1}, Port: 53} }
func (w *verifRW09) RemoteAddr() net.Addr {
	return &net.UDPAddr{IP: net.IP{w.addr[0], w.addr[1], w.addr[2], w.addr[3]}, Port: 4321}
}
func (w *verifRW09) WriteMsg(context.Context, *dns.Msg, *dns.Msg) error { w.writes++; return nil }

// VerifC09LargeResponses: through the real rate-limit middleware and the real Backoff
// limiter, a response larger than the size estimate counts as several events of the
// client's subnet: after it, queries of the same subnet are dropped exactly as if
// that many queries had been made, and another subnet is unaffected.
//
//verif:harness name=H09e-large-responses tier=quick,thorough bounds="plain-DNS client; limit 3 or 5 events per hour; size estimate 100 bytes; first query answered with a response of about 60, 250 or 450 bytes; then two more queries from the same /24 and one from another /24" reach=done,dropped-after-large-response,passed maxpaths=20000
//verif:assume access manager, device finder, GeoIP and the next handler are stubs; clock fixed
func VerifC09LargeResponses() {
	limit := []uint{3, 5}[verifChoice(2)]
	txt := []int{10, 200, 400}[verifChoice(3)]
	lim := ratelimit.NewBackoff(&ratelimit.BackoffConfig{
		Allowlist:            ratelimit.NewDynamicAllowlist(nil, nil),
		Period:               time.Hour,
		Duration:             time.Hour,
		Count:                1000,
		ResponseSizeEstimate: 100,
		IPv4Count:            limit,
		IPv4Interval:         time.Hour,
		IPv4SubnetKeyLen:     24,
		IPv6Count:            limit,
		IPv6Interval:         time.Hour,
		IPv6SubnetKeyLen:     48,
	})
	msgs, err := dnsmsg.NewConstructor(&dnsmsg.ConstructorConfig{
		Cloner:              agdtest.NewCloner(),
		BlockingMode:        &dnsmsg.BlockingModeNullIP{},
		StructuredErrors:    agdtest.NewSDEConfig(false),
		FilteredResponseTTL: 10 * time.Second,
	})
	verifAssume(err == nil)
	mw := New(&Config{
		Logger:           slogutil.NewDiscardLogger(),
		Messages:         msgs,
		FilteringGroup:   &agd.FilteringGroup{},
		ServerGroup:      &agd.ServerGroup{},
		Server:           &agd.Server{Name: "s", Protocol: agd.ProtoDNS},
		StructuredErrors: agdtest.NewSDEConfig(false),
		AccessManager:    verifAllowAll09{},
		DeviceFinder:     verifNoDevice09{},
		ErrColl:          agdtest.NewErrorCollector(),
		GeoIP:            verifGeo09{},
		Metrics:          EmptyMetrics{},
		Limiter:          lim,
		Protocols:        []agd.Protocol{agd.ProtoDNS},
	})
	verifSetClock(1 << 40)
	next := &verifBigNext09{txt: txt}
	h := mw.Wrap(next)
	ask := func(addr [4]byte) bool {
		rw := &verifRW09{addr: addr}
		req := &dns.Msg{}
		req.SetQuestion("example.org.", dns.TypeTXT)
		serveErr := h.ServeDNS(context.Background(), rw, req)
		verifAssert("no-error", serveErr == nil)
		return rw.writes == 1
	}
	// events of the subnet: one per query that reaches the limiter, plus one per size
	// estimate of every response written
	verifAssert("first-query-answered", ask([4]byte{198, 51, 100, 7}))
	respLen := 12 + 17 + (2 + 10 + 1 + txt) // header, question, one TXT record with a compressed name
	events := 1 + respLen/100
	for k := 0; k < 2; k++ {
		want := events < int(limit)
		got := ask([4]byte{198, 51, 100, byte(8 + k)})
		verifAssert("subnet-dropped-exactly-when-its-events-reach-the-limit", got == want)
		events++
		if got {
			events += respLen / 100
			verifReach("passed")
		} else if txt > 100 {
			verifReach("dropped-after-large-response")
		}
	}
	verifAssert("another-subnet-is-unaffected", ask([4]byte{203, 0, 113, 9}))
	verifReach("done")
}


type verifProfFinder09 struct{ prof *agd.Profile }

func (f verifProfFinder09) Find(_ context.Context, _ *dns.Msg, raddr netip.AddrPort, _ netip.AddrPort) agd.DeviceResult {
	// the profile's device sits at .7; every other address has no profile
	if raddr.Addr() == netip.AddrFrom4([4]byte{198, 51, 100, 7}) {
		return &agd.DeviceResultOK{Profile: f.prof, Device: &agd.Device{ID: "dev12345"}}
	}
	return nil
}

// VerifC09ProfileLimit: a profile's own limit applies instead of the global one for
// its client: the profile's limiter counts that client's queries and its large
// responses, and the global bucket of the client's subnet stays untouched.
//
//verif:harness name=H09f-profile-limit tier=quick,thorough bounds="profile with a custom limit of 3 or 6 per second covering the client; global limit 1 per hour; the profile's client gets a response of about 60 or 450 bytes (size estimate 100), then asks twice more; then a neighbour without a profile in the same /24 asks once" reach=done,profile-dropped,profile-passed maxpaths=20000
//verif:assume access manager, device finder, GeoIP and the next handler are stubs; clock fixed
func VerifC09ProfileLimit() {
	rps := []uint32{3, 6}[verifChoice(2)]
	txt := []int{10, 400}[verifChoice(2)]
	global := ratelimit.NewBackoff(&ratelimit.BackoffConfig{
		Allowlist:            ratelimit.NewDynamicAllowlist(nil, nil),
		Period:               time.Hour,
		Duration:             time.Hour,
		Count:                1000,
		ResponseSizeEstimate: 100,
		IPv4Count:            1,
		IPv4Interval:         time.Hour,
		IPv4SubnetKeyLen:     24,
		IPv6Count:            1,
		IPv6Interval:         time.Hour,
		IPv6SubnetKeyLen:     48,
	})
	prof := &agd.Profile{
		ID:                  "prof1234",
		Access:              access.EmptyProfile{},
		BlockingMode:        &dnsmsg.BlockingModeNullIP{},
		FilteredResponseTTL: 10 * time.Second,
		Ratelimiter: agd.NewDefaultRatelimiter(&agd.RatelimitConfig{
			ClientSubnets: []netip.Prefix{netip.MustParsePrefix("198.51.100.0/24")},
			RPS:           rps,
			Enabled:       true,
		}, 100),
	}
	msgs, err := dnsmsg.NewConstructor(&dnsmsg.ConstructorConfig{
		Cloner:              agdtest.NewCloner(),
		BlockingMode:        &dnsmsg.BlockingModeNullIP{},
		StructuredErrors:    agdtest.NewSDEConfig(false),
		FilteredResponseTTL: 10 * time.Second,
	})
	verifAssume(err == nil)
	mw := New(&Config{
		Logger:           slogutil.NewDiscardLogger(),
		Messages:         msgs,
		FilteringGroup:   &agd.FilteringGroup{},
		ServerGroup:      &agd.ServerGroup{},
		Server:           &agd.Server{Name: "s", Protocol: agd.ProtoDNS},
		StructuredErrors: agdtest.NewSDEConfig(false),
		AccessManager:    verifAllowAll09{},
		DeviceFinder:     verifProfFinder09{prof: prof},
		ErrColl:          agdtest.NewErrorCollector(),
		GeoIP:            verifGeo09{},
		Metrics:          EmptyMetrics{},
		Limiter:          global,
		Protocols:        []agd.Protocol{agd.ProtoDNS},
	})
	verifSetClock(1 << 40)
	next := &verifBigNext09{txt: txt}
	h := mw.Wrap(next)
	ask := func(addr [4]byte) bool {
		rw := &verifRW09{addr: addr}
		req := &dns.Msg{}
		req.SetQuestion("example.org.", dns.TypeTXT)
		serveErr := h.ServeDNS(context.Background(), rw, req)
		verifAssert("no-error", serveErr == nil)
		return rw.writes == 1
	}
	client := [4]byte{198, 51, 100, 7}
	verifAssert("first-query-answered", ask(client))
	respLen := 12 + 17 + (2 + 10 + 1 + txt)
	events := 1 + respLen/100
	for k := 0; k < 2; k++ {
		want := events < int(rps)
		got := ask(client)
		verifAssert("profile-client-dropped-exactly-when-its-events-reach-the-profile's-limit", got == want)
		events++
		if got {
			events += respLen / 100
			verifReach("profile-passed")
		} else {
			verifReach("profile-dropped")
		}
	}
	// the global bucket of the subnet has seen nothing of the profile's client
	verifAssert("global-bucket-untouched-by-the-profile's-client", ask([4]byte{198, 51, 100, 99}))
	verifReach("done")
}
