package websvc

//verif:pkg internal/websvc

import (
	"net/http"
	"strings"
)

// verifRemoveDotSegments is RFC 3986 section 5.2.4 (reference model).
func verifRemoveDotSegments(in string) (out string) {
	for len(in) > 0 {
		switch {
		case strings.HasPrefix(in, "../"):
			in = in[3:]
		case strings.HasPrefix(in, "./"):
			in = in[2:]
		case strings.HasPrefix(in, "/./"):
			in = in[2:]
		case in == "/.":
			in = "/"
		case strings.HasPrefix(in, "/../"):
			in = in[3:]
			if i := strings.LastIndexByte(out, '/'); i >= 0 {
				out = out[:i]
			} else {
				out = ""
			}
		case in == "/..":
			in = "/"
			if i := strings.LastIndexByte(out, '/'); i >= 0 {
				out = out[:i]
			} else {
				out = ""
			}
		case in == "." || in == "..":
			in = ""
		default:
			// move the first path segment (including a leading slash) to the output
			start := 0
			if in[0] == '/' {
				start = 1
			}
			i := strings.IndexByte(in[start:], '/')
			if i < 0 {
				out += in
				in = ""
			} else {
				out += in[:start+i]
				in = in[start+i:]
			}
		}
	}
	return out
}

func verifPathByte() byte {
	b := nondetU8()
	verifAssume(verifOr(b == '/', b == '.', b == 'a', b == 's'))
	return b
}

// VerifC19Shape: whenever the handler decides to proxy, the method and path have one
// of the documented shapes and the path still lies under its API prefix after
// dot-segment normalisation.
//
//verif:harness name=H19a-shape tier=quick bounds="method in {GET, POST, PUT, HEAD}; path = {'/', '//', '///'} + {linkip, ddns, x, '', DDNS, LinkIP} + up to 7 symbolic bytes over {'/', '.', 'a', 's'} + {'', '/status', 'status'}" reach=proxied-get,proxied-post,refused maxpaths=200000
func VerifC19Shape() { verifC19Shape(7) }

// VerifC19ShapeLong is the thorough variant.
//
//verif:harness name=H19a-shape-long tier=thorough bounds="as H19a-shape with up to 10 symbolic bytes" reach=proxied-get,proxied-post,refused maxpaths=5000000
func VerifC19ShapeLong() { verifC19Shape(10) }

func verifC19Shape(maxSym int) {
	method := []string{http.MethodGet, http.MethodPost, http.MethodPut, http.MethodHead}[verifChoice(4)]
	first := []string{"linkip", "ddns", "x", "", "DDNS", "LinkIP"}[verifChoice(6)]
	n := verifChoice(maxSym + 1)
	mid := make([]byte, n)
	for i := range mid {
		mid[i] = verifPathByte()
	}
	suffix := []string{"", "/status", "status"}[verifChoice(3)]
	// the raw request target may start with more than one slash (empty leading segments)
	lead := []string{"/", "//", "///"}[verifChoice(3)]
	p := lead + first + string(mid) + suffix

	if !shouldProxy(method, p) {
		verifReach("refused")
		return
	}
	verifAssert("only-get-and-post-are-proxied", method == http.MethodGet || method == http.MethodPost)
	segs := strings.Split(p[1:], "/")
	switch {
	case method == http.MethodGet:
		verifAssert("get-shape", segs[0] == "linkip" && (len(segs) == 3 || (len(segs) == 4 && segs[3] == "status")))
		verifReach("proxied-get")
	default:
		verifAssert("post-shape", (segs[0] == "linkip" && len(segs) == 3) || (segs[0] == "ddns" && len(segs) == 4))
		verifReach("proxied-post")
	}
	norm := verifRemoveDotSegments(p)
	verifAssert("normalised-path-stays-under-the-api-prefix", strings.HasPrefix(norm, "/"+segs[0]+"/"))
}
