package websvc

//verif:pkg internal/websvc
//verif:stub (*net/http/httputil.ReverseProxy).ServeHTTP verifRPServeHTTP
//verif:noop github.com/AdguardTeam/AdGuardDNS/internal/agd.NewRequestID

import (
	"context"
	"net/http"
	"net/http/httputil"
	"net/url"
	"strings"
	"time"

	"github.com/AdguardTeam/AdGuardDNS/internal/agdtest"
)

// verifRT records the request that would be sent to the backend.
type verifRT struct {
	calls int
	out   *http.Request
}

func (rt *verifRT) RoundTrip(r *http.Request) (*http.Response, error) {
	rt.calls++
	rt.out = r
	return &http.Response{StatusCode: http.StatusOK, Header: http.Header{}, Body: http.NoBody, Request: r}, nil
}

// verifRPServeHTTP stands in for ReverseProxy.ServeHTTP in the symbolic build: it
// applies the proxy's Rewrite hook to a copy of the inbound request and hands the
// result to the transport (the documented behaviour of ReverseProxy with Rewrite set:
// hop-by-hop headers, i.e. those named in Connection and the standard set, are
// removed from the outgoing copy before Rewrite runs).
func verifRPServeHTTP(p *httputil.ReverseProxy, w http.ResponseWriter, r *http.Request) {
	out := new(http.Request)
	*out = *r
	u := *r.URL
	out.URL = &u
	out.Header = r.Header.Clone()
	for _, f := range out.Header["Connection"] {
		for _, sf := range strings.Split(f, ",") {
			if sf = strings.TrimSpace(sf); sf != "" {
				out.Header.Del(sf)
			}
		}
	}
	for _, f := range []string{"Connection", "Proxy-Connection", "Keep-Alive", "Proxy-Authenticate", "Proxy-Authorization", "Te", "Trailer", "Transfer-Encoding", "Upgrade"} {
		out.Header.Del(f)
	}
	p.Rewrite(&httputil.ProxyRequest{In: r, Out: out})
	_, _ = p.Transport.RoundTrip(out)
}

type verifRW struct {
	hdr  http.Header
	code int
}

func (w *verifRW) Header() http.Header         { return w.hdr }
func (w *verifRW) Write(b []byte) (int, error) { return len(b), nil }
func (w *verifRW) WriteHeader(code int)        { w.code = code }

func verifIPText() string {
	// a peer address "d.d.d.d" with symbolic digits
	b := []byte("1.2.3.4")
	for _, i := range []int{0, 2, 4, 6} {
		d := nondetU8()
		verifAssume(d >= '0')
		verifAssume(d <= '9')
		b[i] = d
	}
	return string(b)
}

func verifHdrVal() string {
	b := []byte("v0")
	b[1] = nondetU8()
	return string(b)
}

// VerifC19Headers: every proxied request carries the peer address as the only
// X-Connecting-Ip value and none of the client-supplied client-IP headers; requests
// that are not proxied never reach the backend.
//
//verif:harness name=H19b-headers tier=quick,thorough bounds="method GET/POST/DELETE/HEAD, 10 concrete request targets (4 documented shapes, robots.txt, other, percent-encoded letters, dots and slashes), each forged header absent, present with a symbolic value, or sent twice with an empty first value, Connection header absent or naming X-Connecting-Ip / X-Real-Ip as hop-by-hop, peer address d.d.d.d:port with symbolic digits" reach=proxied,not-found,robots maxpaths=200000
//verif:assume ReverseProxy.ServeHTTP is replaced by its documented Rewrite-then-RoundTrip behaviour in the symbolic build incl. hop-by-hop header removal (other net/http internals and X-Forwarded-* handling outside the claim); request IDs not generated
func VerifC19Headers() {
	api, _ := url.Parse("https://backend.example/api")
	h := linkedIPHandler(api, agdtest.NewErrorCollector(), "n", time.Second).(*linkedIPProxy)
	rt := &verifRT{}
	h.httpProxy.Transport = rt

	method := []string{http.MethodGet, http.MethodPost, http.MethodDelete, http.MethodHead}[verifChoice(4)]
	// request targets as they arrive on the wire; the server parses them as net/http does
	targets := []string{"/linkip/dev/abc", "/linkip/dev/abc/status", "/ddns/dev/abc/example.org", "/robots.txt", "/linkip/dev", "/x/y/z",
		"/linkip/dev/a%62c", "/linkip/%2e%2e/%2e%2e/status", "/ddns/%2E%2E/%2E%2E/admin", "/linkip/dev/enc%2Fstatus%2Fmore"}
	target := targets[verifChoice(len(targets))]
	u, perr := url.ParseRequestURI(target)
	verifAssume(perr == nil)
	path := u.Path
	hdr := http.Header{}
	forged := []string{"Cf-Connecting-Ip", "Forwarded", "True-Client-Ip", "X-Real-Ip", "X-Connecting-Ip"}
	for _, name := range forged {
		switch verifChoice(3) {
		case 1:
			hdr[name] = []string{verifHdrVal()}
		case 2:
			// the header sent twice, the first time empty
			hdr[name] = []string{"", "6.6.6.6"}
		}
	}
	// the client may declare any header hop-by-hop
	switch verifChoice(4) {
	case 1:
		hdr["Connection"] = []string{"X-Connecting-Ip"}
	case 2:
		hdr["Connection"] = []string{"keep-alive, x-connecting-ip"}
	case 3:
		hdr["Connection"] = []string{"close", "X-Real-Ip"}
	}
	ip := verifIPText()
	r := &http.Request{
		Method:     method,
		URL:        u,
		Header:     hdr,
		RemoteAddr: ip + ":4321",
		Host:       "dns.example",
	}
	r = r.WithContext(context.Background())
	w := &verifRW{hdr: http.Header{}}
	h.ServeHTTP(w, r)

	documented := (method == http.MethodGet && (path == "/linkip/dev/abc" || path == "/linkip/dev/abc/status")) ||
		(method == http.MethodPost && (path == "/linkip/dev/abc" || path == "/ddns/dev/abc/example.org"))
	verifAssert("backend-contacted-iff-documented-shape", (rt.calls == 1) == documented)
	if !documented {
		verifAssert("backend-never-contacted-otherwise", rt.calls == 0)
		if path == "/robots.txt" {
			verifReach("robots")
		} else {
			verifAssert("answered-404-locally", w.code == http.StatusNotFound)
			verifReach("not-found")
		}
		return
	}
	out := rt.out
	vals := out.Header["X-Connecting-Ip"]
	verifAssert("client-ip-header-is-the-peer-address", len(vals) == 1 && vals[0] == ip)
	for _, name := range forged[:4] {
		verifAssert("forged-header-removed", len(out.Header[name]) == 0)
	}
	verifAssert("backend-host", out.Host == "backend.example" && out.URL.Host == "backend.example")
	verifAssert("backend-path-under-api", out.URL.Path == "/api"+path)
	verifReach("proxied")
}
