package serviceblock

//verif:pkg internal/filter/internal/serviceblock

import (
	"context"

	"github.com/AdguardTeam/AdGuardDNS/internal/agdcache"
	"github.com/AdguardTeam/AdGuardDNS/internal/filter/internal"
)

type verifErrColl13 struct{}

func (verifErrColl13) Collect(context.Context, error) {}

// verifSvcEntry kinds of one index entry of the second round
const (
	verifSvcKeepA   = iota // svc_a with a new rule
	verifSvcKeepB          // svc_b with a new rule
	verifSvcNewC           // a new service
	verifSvcBadID          // an ID with a space
	verifSvcEmptyID        // an empty ID
	verifSvcN
)

func verifSvcEntryOf(kind int) *indexRespService {
	switch kind {
	case verifSvcKeepA:
		return &indexRespService{ID: "svc_a", Rules: []string{"||a2.example^"}}
	case verifSvcKeepB:
		return &indexRespService{ID: "svc_b", Rules: []string{"||b2.example^"}}
	case verifSvcNewC:
		return &indexRespService{ID: "svc_c", Rules: []string{"||c.example^"}}
	case verifSvcBadID:
		return &indexRespService{ID: "bad id", Rules: []string{"||x.example^"}}
	default:
		return &indexRespService{ID: "", Rules: []string{"||y.example^"}}
	}
}

// VerifC13Services: the blocked-service list keeps serving its previous complete
// content when an update fails - the index cannot be downloaded, or any of its
// entries is invalid, wherever in the index that entry stands - and serves exactly
// the new services after a successful update.
//
//verif:harness name=H13c-services tier=quick,thorough bounds="first round: services svc_a and svc_b; second round: download failure, or an index of 1..3 entries each from {svc_a changed, svc_b changed, new svc_c, ID with a space, empty ID} in every order" reach=done,update-failed,update-ok,invalid-entry-not-last maxpaths=20000
//verif:assume symbolic build: Filter.loadIndex (download + JSON decoding) is a stub delivering the index; native replay serves the JSON from a local file through the real loadIndex
func VerifC13Services() {
	env := verifNewSvcEnv()
	defer env.close()
	f := env.newFilter()
	ctx := context.Background()
	ids := []internal.BlockedServiceID{"svc_a", "svc_b", "svc_c"}

	env.serve([]*indexRespService{
		{ID: "svc_a", Rules: []string{"||a.example^"}},
		{ID: "svc_b", Rules: []string{"||b.example^"}},
	}, false)
	err := f.Refresh(ctx, agdcache.EmptyManager{}, 0, false, false)
	verifAssert("first-update-succeeds", err == nil)
	before := f.RuleLists(ctx, ids)
	verifAssert("first-update-installs-both-services", len(before) == 2)
	if len(before) != 2 {
		return
	}

	downFails := verifChoice(4) == 0
	var idx []*indexRespService
	anyInvalid, invalidNotLast := false, false
	var has [3]bool
	if !downFails {
		n := 1 + verifChoice(3)
		for i := 0; i < n; i++ {
			k := verifChoice(verifSvcN)
			if k <= verifSvcNewC {
				verifAssume(!has[k])
				has[k] = true
			} else {
				anyInvalid = true
				if i < n-1 {
					invalidNotLast = true
				}
			}
			idx = append(idx, verifSvcEntryOf(k))
		}
	}
	env.serve(idx, downFails)
	err = f.Refresh(ctx, agdcache.EmptyManager{}, 0, false, false)
	after := f.RuleLists(ctx, ids)

	if downFails || anyInvalid {
		verifAssert("failed-update-is-reported", err != nil)
		verifAssert("failed-update-keeps-the-previous-services", len(after) == 2 && after[0] == before[0] && after[1] == before[1])
		verifReach("update-failed")
		if invalidNotLast {
			verifReach("invalid-entry-not-last")
		}
	} else {
		verifAssert("successful-update-is-not-reported-as-failed", err == nil)
		n := 0
		for _, h := range has {
			if h {
				n++
			}
		}
		verifAssert("successful-update-installs-exactly-the-new-services", len(after) == n)
		for _, rl := range after {
			verifAssert("new-services-are-new-lists", rl != before[0] && rl != before[1])
		}
		verifReach("update-ok")
	}
	verifReach("done")
}
