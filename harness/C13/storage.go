package filterstorage

//verif:pkg internal/filter/filterstorage

import (
	"context"
	"sync"
	"time"

	"github.com/AdguardTeam/AdGuardDNS/internal/agdcache"
	"github.com/AdguardTeam/AdGuardDNS/internal/agdtime"
	"github.com/AdguardTeam/AdGuardDNS/internal/filter"
	"github.com/AdguardTeam/AdGuardDNS/internal/filter/internal/rulelist"
	"github.com/AdguardTeam/golibs/logutil/slogutil"
)

type verifErrColl13 struct{}

func (verifErrColl13) Collect(context.Context, error) {}

func verifNewStorage(cacheDir string) *Default {
	return &Default{
		baseLogger:             slogutil.NewDiscardLogger(),
		logger:                 slogutil.NewDiscardLogger(),
		ruleListsMu:            &sync.RWMutex{},
		cacheManager:           agdcache.EmptyManager{},
		clock:                  agdtime.SystemClock{},
		errColl:                verifErrColl13{},
		metrics:                filter.EmptyMetrics{},
		cacheDir:               cacheDir,
		ruleListStaleness:      time.Nanosecond,
		ruleListRefreshTimeout: 400 * time.Millisecond,
		ruleListMaxSize:        1 << 20,
	}
}

// VerifC13Storage: over two refresh rounds in which every list download may fail and
// the index may contain an invalid or duplicate entry, a list whose refresh failed
// keeps serving its previous version, a refreshed list serves its new version, and
// invalid entries never remove a valid one.
//
//verif:harness name=H13b-storage tier=quick,thorough bounds="index of two valid lists plus one entry from {none, duplicate key, invalid key, empty URL, non-HTTP URL, null element, third valid list} sorting first, between or last in the index; two refresh rounds; every list download succeeds, fails with an error status or runs into the per-list timeout, independently in each round; the second round may be interrupted (context cancelled) during any one list" reach=done,kept-previous,replaced,invalid-entry,interrupted maxpaths=200000
//verif:assume symbolic build: the index download/JSON decoding (loadIndex) and the per-list download (rulelist.Refreshable.Refresh) are stubs with the chosen outcome; native replay uses a loopback HTTP server; blocked-service and safe-search refresh are not configured
func VerifC13Storage() {
	env := verifNewEnv13()
	defer env.close()
	s := verifNewStorage(env.cacheDir())
	env.attach(s)

	third := verifChoice(7)
	keys := []string{"list_a", "list_b"}
	valid := []string{"list_a", "list_b"}
	// the index is sorted by key: the extra entry may sort first, between or last
	posKey := []string{"list_0", "list_aa", "list_z"}[verifChoice(3)]
	switch third {
	case 1:
		keys = append(keys, "list_a") // duplicate
	case 2:
		keys = append(keys, "bad key!")
	case 3:
		keys = append(keys, "!empty:"+posKey) // entry with an empty URL
	case 4:
		keys = append(keys, posKey)
		valid = append(valid, posKey)
	case 5:
		keys = append(keys, "!ftp:"+posKey) // entry with a non-HTTP download URL
	case 6:
		keys = append(keys, "!null") // a null element of the JSON array
	}
	if third == 1 || third == 2 || third == 3 || third == 5 || third == 6 {
		verifReach("invalid-entry")
	}
	env.setIndex(keys)

	var prev map[string]*rulelist.Refreshable
	for round := 0; round < 2; round++ {
		ok := map[string]bool{}
		// a failing download fails with an error status or by running into the per-list
		// timeout (the round's own context stays alive)
		timesOut := map[string]bool{}
		for _, id := range valid {
			switch verifChoice(3) {
			case 0:
				ok[id] = true
			case 2:
				timesOut[id] = true
			}
		}
		env.setOutcomes(ok)
		env.setTimeouts(timesOut)
		// the round may be interrupted (its context cancelled) while one list is refreshed
		ctx, cancel := context.WithCancel(context.Background())
		cancelAt := ""
		if round == 1 && verifChoice(2) == 1 {
			cancelAt = valid[verifChoice(len(valid))]
		}
		env.setCancelAt(cancelAt, cancel)
		err := s.refresh(ctx, false)
		cancel()
		if cancelAt != "" {
			verifAssert("interrupted-round-is-reported", err != nil)
			verifAssert("interrupted-round-keeps-every-previous-list", len(s.ruleLists) == len(prev))
			for _, id := range valid {
				verifAssert("interrupted-round-keeps-every-previous-list", s.ruleLists[filter.ID(id)] == prev[id])
			}
			verifReach("interrupted")
			continue
		}
		verifAssert("round-succeeds-despite-list-failures", err == nil)
		cur := map[string]*rulelist.Refreshable{}
		for _, id := range valid {
			rl := s.ruleLists[filter.ID(id)]
			cur[id] = rl
			switch {
			case ok[id]:
				verifAssert("refreshed-list-is-served", rl != nil)
				if prev != nil && prev[id] != nil {
					verifAssert("refreshed-list-is-the-new-version", rl != prev[id])
					verifReach("replaced")
				}
			case prev != nil && prev[id] != nil:
				verifAssert("failed-list-keeps-previous-version", rl == prev[id])
				verifReach("kept-previous")
			default:
				verifAssert("failed-list-without-previous-version-absent", rl == nil)
			}
		}
		verifAssert("no-entries-beyond-the-valid-ones", len(s.ruleLists) <= len(valid))
		prev = map[string]*rulelist.Refreshable{}
		for id, rl := range cur {
			if rl != nil {
				prev[id] = rl
			}
		}
	}
	verifReach("done")
}
