package serviceblock

//verif:pkg internal/filter/internal/serviceblock

import (
	"encoding/json"
	"net/url"
	"os"
	"path/filepath"

	"github.com/AdguardTeam/AdGuardDNS/internal/filter/internal"
	"github.com/AdguardTeam/AdGuardDNS/internal/filter/internal/refreshable"
	"github.com/AdguardTeam/golibs/logutil/slogutil"
)

type verifSvcEnv struct{ dir string }

func verifNewSvcEnv() *verifSvcEnv {
	d, err := os.MkdirTemp("", "verif-svc-")
	if err != nil {
		panic(err)
	}
	return &verifSvcEnv{dir: d}
}
func (e *verifSvcEnv) close() { _ = os.RemoveAll(e.dir) }

// serve writes the index to the local file the filter refreshes from; a failing
// download is a missing file.
func (e *verifSvcEnv) serve(idx []*indexRespService, fail bool) {
	p := filepath.Join(e.dir, "services.json")
	if fail {
		_ = os.Remove(p)
		return
	}
	type svc struct {
		ID    string   `json:"id"`
		Rules []string `json:"rules"`
	}
	var out struct {
		BlockedServices []svc `json:"blocked_services"`
	}
	for _, s := range idx {
		out.BlockedServices = append(out.BlockedServices, svc{ID: s.ID, Rules: s.Rules})
	}
	b, err := json.Marshal(out)
	if err != nil {
		panic(err)
	}
	if err = os.WriteFile(p, b, 0o600); err != nil {
		panic(err)
	}
}

func (e *verifSvcEnv) newFilter() *Filter {
	f, err := New(&Config{
		Refreshable: &refreshable.Config{
			Logger:    slogutil.NewDiscardLogger(),
			URL:       &url.URL{Scheme: "file", Path: filepath.Join(e.dir, "services.json")},
			ID:        internal.IDBlockedService,
			CachePath: filepath.Join(e.dir, "cache"),
			MaxSize:   1 << 20,
		},
		ErrColl: verifErrColl13{},
		Metrics: internal.EmptyMetrics{},
	})
	if err != nil {
		panic(err)
	}
	return f
}
