package serviceblock

//verif:pkg internal/filter/internal/serviceblock
//verif:stub (*github.com/AdguardTeam/AdGuardDNS/internal/filter/internal/serviceblock.Filter).loadIndex verifLoadIndex

import (
	"context"
	"errors"
	"net/url"
	"time"

	"github.com/AdguardTeam/AdGuardDNS/internal/filter/internal"
	"github.com/AdguardTeam/AdGuardDNS/internal/filter/internal/refreshable"
	"github.com/AdguardTeam/golibs/logutil/slogutil"
)

type verifSvcEnv struct{}

var (
	verifSvcIndex []*indexRespService
	verifSvcFail  bool
)

func verifNewSvcEnv() *verifSvcEnv { return &verifSvcEnv{} }
func (*verifSvcEnv) close()        {}
func (*verifSvcEnv) serve(idx []*indexRespService, fail bool) {
	verifSvcIndex, verifSvcFail = idx, fail
}

func (*verifSvcEnv) newFilter() *Filter {
	f, err := New(&Config{
		Refreshable: &refreshable.Config{
			Logger:    slogutil.NewDiscardLogger(),
			URL:       &url.URL{Scheme: "https", Host: "lists.example", Path: "/services.json"},
			ID:        internal.IDBlockedService,
			CachePath: "/ghost/services.json",
			Staleness: time.Hour,
			Timeout:   time.Second,
			MaxSize:   1 << 20,
		},
		ErrColl: verifErrColl13{},
		Metrics: internal.EmptyMetrics{},
	})
	verifAssume(err == nil)
	return f
}

// verifLoadIndex stands in for the download and the JSON decoding.
func verifLoadIndex(f *Filter, ctx context.Context, acceptStale bool) (*indexResp, error) {
	if verifSvcFail {
		return nil, errors.New("loading index: connection refused")
	}
	return &indexResp{BlockedServices: verifSvcIndex}, nil
}
