package filterstorage

//verif:pkg internal/filter/filterstorage
//verif:stub (*github.com/AdguardTeam/AdGuardDNS/internal/filter/filterstorage.Default).loadIndex verifLoadIndex
//verif:stub (*github.com/AdguardTeam/AdGuardDNS/internal/filter/internal/rulelist.Refreshable).Refresh verifListRefresh
//verif:stub github.com/AdguardTeam/AdGuardDNS/internal/filter/internal/rulelist.NewRefreshable verifNewRefreshable

import (
	"context"
	"errors"
	"fmt"
	"slices"
	"strings"

	"github.com/AdguardTeam/AdGuardDNS/internal/filter/internal/refreshable"
	"github.com/AdguardTeam/AdGuardDNS/internal/filter/internal/rulelist"
)

var (
	verifIdxKeys  []string
	verifOutcome  map[string]bool
	verifTimesOut map[string]bool
	verifCallKeys []string // keys of the valid entries in index order, consumed per refresh call
	verifCallPos  int
	verifCancelID string
	verifCancelFn func()
)

type verifEnv13 struct{}

func verifNewEnv13() *verifEnv13       { return &verifEnv13{} }
func (*verifEnv13) close()             {}
func (*verifEnv13) cacheDir() string   { return "/ghost/cache" }
func (*verifEnv13) attach(s *Default)  {}
func (*verifEnv13) setIndex(k []string) { verifIdxKeys = k }
func (*verifEnv13) setCancelAt(id string, cancel func()) { verifCancelID, verifCancelFn = id, cancel }
func (*verifEnv13) setTimeouts(t map[string]bool) { verifTimesOut = t }
func (*verifEnv13) setOutcomes(ok map[string]bool) {
	verifOutcome = ok
	verifCallPos = 0
}

// verifLoadIndex stands in for the index download and JSON decoding.
func verifLoadIndex(s *Default, ctx context.Context, acceptStale bool) (*indexResp, error) {
	resp := &indexResp{}
	verifCallKeys = nil
	seen := map[string]bool{}
	for _, k := range verifIdxKeys {
		if k == "!null" {
			resp.Filters = append(resp.Filters, nil)
			continue
		}
		f := &indexRespFilter{DownloadURL: "https://lists.example/" + k + ".txt", Key: k}
		if rest, ok := strings.CutPrefix(k, "!empty:"); ok {
			f.Key, f.DownloadURL = rest, ""
		} else if rest, ok = strings.CutPrefix(k, "!ftp:"); ok {
			f.Key, f.DownloadURL = rest, "ftp://lists.example/"+rest+".txt"
		}
		resp.Filters = append(resp.Filters, f)
	}
	// as the real loadIndex does after decoding
	slices.SortStableFunc(resp.Filters, (*indexRespFilter).compare)
	for _, f := range resp.Filters {
		if f != nil && f.validate() == nil && strings.HasPrefix(f.DownloadURL, "https://") && !seen[f.Key] {
			seen[f.Key] = true
			verifCallKeys = append(verifCallKeys, f.Key)
		}
	}
	return resp, nil
}

var verifListIDs = map[*rulelist.Refreshable]string{}

// verifNewRefreshable builds an empty rule list and remembers which index entry it is for.
func verifNewRefreshable(c *refreshable.Config, cache rulelist.ResultCache) (*rulelist.Refreshable, error) {
	rl, err := rulelist.NewFromString("", c.ID, "", cache)
	if err == nil {
		verifListIDs[rl] = string(c.ID)
	}
	return rl, err
}

// verifListRefresh stands in for the download of one rule list.
func verifListRefresh(rl *rulelist.Refreshable, ctx context.Context, acceptStale bool) error {
	if verifCancelID != "" && verifListIDs[rl] == verifCancelID {
		verifCancelFn()
		return ctx.Err()
	}
	if verifOutcome[verifListIDs[rl]] {
		return nil
	}
	if verifTimesOut[verifListIDs[rl]] {
		// what the HTTP client reports when its own timeout expires
		return fmt.Errorf("refreshing: requesting: %w", context.DeadlineExceeded)
	}
	return errors.New("download failed")
}
