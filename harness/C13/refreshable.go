package refreshable

//verif:pkg internal/filter/internal/refreshable

import (
	"context"
	"time"
)

// fault kinds of one download attempt
const (
	verifFaultNone = iota
	verifFaultConnError
	verifFaultStatus404
	verifFaultStatus500
	verifFaultEmptyBody
	verifFaultOversized
	verifFaultTruncated
	verifFaultStatus206
	verifFaultN
)

const (
	verifOld = "||old.example^\n"
	verifNew = "||new.example^\n||newer.example^\n"
)

// verifServed is the list text the (stub or loopback) server currently serves.
var verifServed = verifNew

const verifNew2 = "||third.example^\n"

// VerifC13Refreshable: whatever goes wrong while a list is downloaded, the cached
// copy on disk is afterwards either the previous complete list or the new complete
// list, an error is reported exactly when no usable text was obtained, and a fresh
// enough cached copy is used without any download.
//
//verif:harness name=H13a-refreshable tier=quick bounds="two consecutive refresh rounds of one list (the second 2 h or 1 min later, new list version, independent outcome); per round: cache file absent / present-and-fresh / present-and-stale; download outcome from {ok, connection error, 404, 500, 206 with part of the list, empty body, oversized body, truncated transfer}, body length announced or streamed (Content-Length known / -1); temp-file creation and the atomic replace may fail (symbolic build only)" reach=downloaded,used-cache,failed,second-round maxpaths=200000
//verif:assume symbolic build: os/renameio/HTTP client calls are stubs over a ghost file system in which only CloseAtomicallyReplace changes the destination (rename(2) atomicity is the kernel's); native replay uses a real temp dir and a loopback HTTP server
func VerifC13Refreshable() { verifC13Refreshable(2) }

// VerifC13Refreshable2 runs three consecutive refresh rounds: each starts from whatever
// the previous one left on disk and downloads a different list version.
//
//verif:harness name=H13a-refreshable2 tier=thorough bounds="as H13a-refreshable with three rounds" reach=downloaded,used-cache,failed,second-round maxpaths=2000000
//verif:assume as H13a-refreshable
func VerifC13Refreshable2() { verifC13Refreshable(3) }

func verifC13Refreshable(rounds int) {
	env := verifNewEnv()
	defer env.close()
	cacheKind := verifChoice(3) // 0 absent, 1 fresh, 2 stale
	const staleness = time.Hour
	now := time.Unix(1_700_000_000, 0)
	prevExists, prev := false, ""
	switch cacheKind {
	case 1:
		env.putCache(verifOld, now.Add(-time.Minute))
		prevExists, prev = true, verifOld
	case 2:
		env.putCache(verifOld, now.Add(-2*time.Hour))
		prevExists, prev = true, verifOld
	}
	r := env.newRefreshable(staleness, uint64(len(verifNew)+4))
	fresh := cacheKind == 1
	served := verifNew
	for round := 0; round < rounds; round++ {
		if round >= 1 {
			verifReach("second-round")
			served = []string{verifNew, verifNew2, verifNew}[round]
			if verifChoice(2) == 0 {
				now = now.Add(2 * time.Hour)
				fresh = false
			} else {
				now = now.Add(time.Minute)
				// fresh only if the file was (re)written or already fresh in round 1
				fresh = prevExists && env.cacheAge(now) < staleness
			}
		}
		verifServed = served
		fault := verifChoice(verifFaultN)
		env.setFault(fault)
		// whether the server announces the body length or streams it (chunked transfer)
		env.setChunked(verifChoice(2) == 1)
		env.setNow(now)
		dlBefore := env.downloads()

		text, err := r.Refresh(context.Background(), false)
		after, exists := env.readCache()

		// the destination is never partial or foreign
		verifAssert("cache-file-is-previous-or-new-complete-version", (!exists && !prevExists) || (exists && prevExists && after == prev) || (exists && after == served))
		if prevExists {
			verifAssert("existing-cache-never-removed", exists)
		}
		switch {
		case fresh:
			verifAssert("fresh-cache-used-without-download", err == nil && text == prev && env.downloads() == dlBefore && after == prev)
			verifReach("used-cache")
		case env.effectiveFault() == verifFaultNone:
			verifAssert("successful-download-returns-and-stores-the-new-list", err == nil && text == served && exists && after == served)
			verifReach("downloaded")
		default:
			verifAssert("failed-download-is-reported", err != nil && text == "")
			verifAssert("failed-download-keeps-the-previous-version", (!prevExists && !exists) || (prevExists && after == prev))
			verifAssert("temporary-file-cleaned-up", env.tempFilesLeft() == 0)
			verifReach("failed")
		}
		if exists && (!prevExists || after != prev) {
			// the file was replaced in this round: its modification time is this round's instant
			env.stampCache(now)
		}
		prevExists, prev = exists, after
	}
}
