package refreshable

//verif:pkg internal/filter/internal/refreshable

import (
	"context"
	"time"
)

// fault kinds of one download attempt
const (
	verifFaultNone = iota
	verifFaultConnError
	verifFaultStatus404
	verifFaultStatus500
	verifFaultEmptyBody
	verifFaultOversized
	verifFaultTruncated
	verifFaultN
)

const (
	verifOld = "||old.example^\n"
	verifNew = "||new.example^\n||newer.example^\n"
)

// VerifC13Refreshable: whatever goes wrong while a list is downloaded, the cached
// copy on disk is afterwards either the previous complete list or the new complete
// list, an error is reported exactly when no usable text was obtained, and a fresh
// enough cached copy is used without any download.
//
//verif:harness name=H13a-refreshable tier=quick,thorough bounds="one refresh round of one list: cache file absent / present-and-fresh / present-and-stale; download outcome from {ok, connection error, 404, 500, empty body, oversized body, truncated transfer}, body length announced or streamed (Content-Length known / -1); temp-file creation and the atomic replace may fail (symbolic build only)" reach=downloaded,used-cache,failed maxpaths=20000
//verif:assume symbolic build: os/renameio/HTTP client calls are stubs over a ghost file system in which only CloseAtomicallyReplace changes the destination (rename(2) atomicity is the kernel's); native replay uses a real temp dir and a loopback HTTP server
func VerifC13Refreshable() {
	env := verifNewEnv()
	defer env.close()
	cacheKind := verifChoice(3) // 0 absent, 1 fresh, 2 stale
	const staleness = time.Hour
	now := time.Unix(1_700_000_000, 0)
	switch cacheKind {
	case 1:
		env.putCache(verifOld, now.Add(-time.Minute))
	case 2:
		env.putCache(verifOld, now.Add(-2*time.Hour))
	}
	fault := verifChoice(verifFaultN)
	env.setFault(fault)
	// whether the server announces the body length or streams it (chunked transfer)
	env.setChunked(verifChoice(2) == 1)
	r := env.newRefreshable(staleness, uint64(len(verifNew)+4))
	env.setNow(now)

	text, err := r.Refresh(context.Background(), false)
	after, exists := env.readCache()

	// the destination is never partial or foreign
	verifAssert("cache-file-is-previous-or-new-complete-version", !exists || after == verifOld || after == verifNew)
	if cacheKind == 0 {
		verifAssert("no-file-or-the-new-complete-version", !exists || after == verifNew)
	} else {
		verifAssert("existing-cache-never-removed", exists)
	}
	switch {
	case cacheKind == 1:
		verifAssert("fresh-cache-used-without-download", err == nil && text == verifOld && env.downloads() == 0 && after == verifOld)
		verifReach("used-cache")
	case env.effectiveFault() == verifFaultNone:
		verifAssert("successful-download-returns-and-stores-the-new-list", err == nil && text == verifNew && exists && after == verifNew)
		verifReach("downloaded")
	default:
		verifAssert("failed-download-is-reported", err != nil && text == "")
		verifAssert("failed-download-keeps-the-previous-version", (cacheKind == 0 && !exists) || (cacheKind != 0 && after == verifOld))
		verifAssert("temporary-file-cleaned-up", env.tempFilesLeft() == 0)
		verifReach("failed")
	}
}
