package filterstorage

//verif:pkg internal/filter/filterstorage

import (
	"encoding/json"
	"net/http"
	"net/http/httptest"
	"net/url"
	"os"
	"path/filepath"
	"strings"
	"time"

	"github.com/AdguardTeam/AdGuardDNS/internal/filter/internal/refreshable"
	"github.com/AdguardTeam/golibs/logutil/slogutil"
)

type verifEnv13 struct {
	dir  string
	srv  *httptest.Server
	keys []string
	ok   map[string]bool
	timesOut map[string]bool

	cancelID string
	cancelFn func()
}

func verifNewEnv13() *verifEnv13 {
	dir, err := os.MkdirTemp("", "verif-fs-")
	if err != nil {
		panic(err)
	}
	e := &verifEnv13{dir: dir}
	e.srv = httptest.NewServer(http.HandlerFunc(func(w http.ResponseWriter, r *http.Request) {
		if r.URL.Path == "/index.json" {
			idx := map[string]any{}
			var fl []map[string]string
			for _, k := range e.keys {
				if k == "!null" {
					fl = append(fl, nil)
					continue
				}
				u := e.srv.URL + "/lists/" + url.PathEscape(k) + ".txt"
				if rest, ok := strings.CutPrefix(k, "!empty:"); ok {
					fl = append(fl, map[string]string{"filterKey": rest, "downloadUrl": ""})
					continue
				}
				if rest, ok := strings.CutPrefix(k, "!ftp:"); ok {
					fl = append(fl, map[string]string{"filterKey": rest, "downloadUrl": "ftp://lists.example/" + rest + ".txt"})
					continue
				}
				fl = append(fl, map[string]string{"filterKey": k, "downloadUrl": u})
			}
			idx["filters"] = fl
			_ = json.NewEncoder(w).Encode(idx)
			return
		}
		id := strings.TrimSuffix(filepath.Base(r.URL.Path), ".txt")
		if e.cancelID != "" && id == e.cancelID {
			e.cancelFn()
			return
		}
		if e.timesOut[id] {
			// stall for longer than the per-list timeout
			time.Sleep(900 * time.Millisecond)
			return
		}
		if !e.ok[id] {
			http.Error(w, "fail", http.StatusInternalServerError)
			return
		}
		_, _ = w.Write([]byte("||" + id + ".example^\n"))
	}))
	return e
}

func (e *verifEnv13) close() {
	e.srv.Close()
	_ = os.RemoveAll(e.dir)
}
func (e *verifEnv13) cacheDir() string { return e.dir }
func (e *verifEnv13) attach(s *Default) {
	u, _ := url.Parse(e.srv.URL + "/index.json")
	r, err := refreshable.New(&refreshable.Config{
		Logger:    slogutil.NewDiscardLogger(),
		URL:       u,
		ID:        "rule_list_index",
		CachePath: filepath.Join(e.dir, "index.json"),
		Staleness: time.Nanosecond,
		Timeout:   2 * time.Second,
		MaxSize:   1 << 20,
	})
	if err != nil {
		panic(err)
	}
	s.ruleListIdxRefr = r
}
func (e *verifEnv13) setIndex(k []string)            { e.keys = k }
func (e *verifEnv13) setOutcomes(ok map[string]bool) { e.ok = ok }
func (e *verifEnv13) setTimeouts(t map[string]bool) { e.timesOut = t }
func (e *verifEnv13) setCancelAt(id string, cancel func()) { e.cancelID, e.cancelFn = id, cancel }
