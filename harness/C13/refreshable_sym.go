package refreshable

//verif:pkg internal/filter/internal/refreshable
//verif:stub os.Open verifOpen
//verif:stub (*os.File).Stat verifFileStat
//verif:stub (*os.File).Read verifFileRead
//verif:stub (*os.File).Write verifFileWrite
//verif:stub (*os.File).Close verifFileClose
//verif:stub os.Chtimes verifChtimes
//verif:stub github.com/google/renameio/v2.TempDir verifTempDir
//verif:stub github.com/google/renameio/v2.TempFile verifTempFile
//verif:stub (*github.com/google/renameio/v2.PendingFile).CloseAtomicallyReplace verifReplace
//verif:stub (*github.com/google/renameio/v2.PendingFile).Cleanup verifCleanup
//verif:stub (*github.com/AdguardTeam/AdGuardDNS/internal/agdhttp.Client).Get verifHTTPGet

import (
	"context"
	"errors"
	"io"
	"io/fs"
	"net/http"
	"net/url"
	"os"
	"time"

	"github.com/AdguardTeam/AdGuardDNS/internal/agdhttp"
	"github.com/AdguardTeam/golibs/logutil/slogutil"
	"github.com/c2h5oh/datasize"
	renameio "github.com/google/renameio/v2"
)

const verifCachePath = "/ghost/cache/list_a"

// ghost file system and network of the symbolic build
type verifGhost struct {
	exists    bool
	content   string
	mtime     time.Time
	now       time.Time
	fault     int
	chunked   bool
	effFault  int
	nDownload int
	pending   bool
	pendBuf   []byte
	leftTemp  int
	reader    map[*os.File]*verifReadState
	direct    int
}

type verifReadState struct {
	data string
	pos  int
}

var verifG *verifGhost

type verifEnv struct{}

func verifNewEnv() *verifEnv {
	verifG = &verifGhost{reader: map[*os.File]*verifReadState{}}
	return &verifEnv{}
}
func (*verifEnv) close() {}
func (*verifEnv) putCache(text string, mtime time.Time) {
	verifG.exists, verifG.content, verifG.mtime = true, text, mtime
}
func (*verifEnv) setFault(f int) { verifG.fault, verifG.effFault = f, f }
func (*verifEnv) setChunked(c bool) { verifG.chunked = c }
func (*verifEnv) setNow(t time.Time) {
	verifG.now = t
	verifSetClock(t.UnixNano())
}
func (*verifEnv) readCache() (string, bool) { return verifG.content, verifG.exists }
func (*verifEnv) cacheAge(now time.Time) time.Duration { return now.Sub(verifG.mtime) }
func (*verifEnv) stampCache(now time.Time)             { verifG.mtime = now }
func (*verifEnv) downloads() int            { return verifG.nDownload }
func (*verifEnv) effectiveFault() int       { return verifG.effFault }
func (*verifEnv) tempFilesLeft() int        { return verifG.leftTemp }
func (*verifEnv) newRefreshable(staleness time.Duration, maxSize uint64) *Refreshable {
	r, err := New(&Config{
		Logger:    slogutil.NewDiscardLogger(),
		URL:       &url.URL{Scheme: "https", Host: "lists.example", Path: "/list_a.txt"},
		ID:        "list_a",
		CachePath: verifCachePath,
		Staleness: staleness,
		Timeout:   time.Second,
		MaxSize:   datasize.ByteSize(maxSize),
	})
	verifAssume(err == nil)
	return r
}

func verifOpen(name string) (*os.File, error) {
	if name != verifCachePath || !verifG.exists {
		return nil, os.ErrNotExist
	}
	f := new(os.File)
	verifG.reader[f] = &verifReadState{data: verifG.content}
	return f, nil
}

type verifFileInfo struct{ mtime time.Time }

func (verifFileInfo) Name() string         { return "list_a" }
func (verifFileInfo) Size() int64          { return 0 }
func (verifFileInfo) Mode() fs.FileMode    { return 0o600 }
func (i verifFileInfo) ModTime() time.Time { return i.mtime }
func (verifFileInfo) IsDir() bool          { return false }
func (verifFileInfo) Sys() any             { return nil }

func verifFileStat(f *os.File) (fs.FileInfo, error) { return verifFileInfo{mtime: verifG.mtime}, nil }

func verifFileRead(f *os.File, b []byte) (int, error) {
	st := verifG.reader[f]
	if st == nil || st.pos >= len(st.data) {
		return 0, io.EOF
	}
	n := copy(b, st.data[st.pos:])
	st.pos += n
	return n, nil
}

// verifFileWrite: the only file written by the code under test must be the pending temp file.
func verifFileWrite(f *os.File, b []byte) (int, error) {
	if f != nil || !verifG.pending {
		verifG.direct++
		verifAssert("cache-file-never-written-directly", false)
		return len(b), nil
	}
	verifG.pendBuf = append(verifG.pendBuf, b...)
	return len(b), nil
}

func verifFileClose(f *os.File) error { return nil }

func verifChtimes(name string, atime, mtime time.Time) error {
	if name == verifCachePath {
		verifG.mtime = mtime
	}
	return nil
}

func verifTempDir(dir string) string { return dir }

func verifTempFile(dir, path string) (*renameio.PendingFile, error) {
	if verifSymChoice(2) == 1 {
		if verifG.effFault == verifFaultNone {
			verifG.effFault = verifFaultConnError
		}
		return nil, errors.New("cannot create temp file")
	}
	verifG.pending, verifG.pendBuf = true, nil
	verifG.leftTemp++
	return new(renameio.PendingFile), nil
}

func verifReplace(t *renameio.PendingFile) error {
	verifAssert("replace-only-a-pending-file", verifG.pending)
	verifG.pending = false
	if verifSymChoice(2) == 1 {
		// the rename failed: the destination is untouched, the temp file is gone
		verifG.leftTemp--
		if verifG.effFault == verifFaultNone {
			verifG.effFault = verifFaultConnError
		}
		return errors.New("rename failed")
	}
	verifG.exists, verifG.content = true, string(verifG.pendBuf)
	verifG.leftTemp--
	return nil
}

func verifCleanup(t *renameio.PendingFile) error {
	if verifG.pending {
		verifG.pending = false
		verifG.leftTemp--
	}
	return nil
}

type verifBody struct {
	data     string
	pos      int
	failAt   int // < 0: never
	chunkLen int
}

func (b *verifBody) Read(p []byte) (int, error) {
	if b.failAt >= 0 && b.pos >= b.failAt {
		return 0, io.ErrUnexpectedEOF
	}
	if b.pos >= len(b.data) {
		return 0, io.EOF
	}
	end := len(b.data)
	if b.failAt >= 0 && b.failAt < end {
		end = b.failAt
	}
	if b.chunkLen > 0 && b.pos+b.chunkLen < end {
		end = b.pos + b.chunkLen
	}
	n := copy(p, b.data[b.pos:end])
	b.pos += n
	return n, nil
}
func (b *verifBody) Close() error { return nil }

func verifHTTPGet(c *agdhttp.Client, ctx context.Context, u *url.URL) (*http.Response, error) {
	verifG.nDownload++
	resp := &http.Response{StatusCode: http.StatusOK, Header: http.Header{}}
	body := &verifBody{data: verifServed, failAt: -1, chunkLen: 7}
	switch verifG.fault {
	case verifFaultConnError:
		return nil, errors.New("connection refused")
	case verifFaultStatus404:
		resp.StatusCode = http.StatusNotFound
		body.data = "not found"
	case verifFaultStatus500:
		resp.StatusCode = http.StatusInternalServerError
		body.data = "oops"
	case verifFaultStatus206:
		resp.StatusCode = http.StatusPartialContent
		body.data = verifServed[:9]
	case verifFaultEmptyBody:
		body.data = ""
	case verifFaultOversized:
		body.data = verifServed + "||way.too.long.example^\n||and.longer.still.example^\n"
	case verifFaultTruncated:
		body.failAt = 9
	}
	resp.Body = body
	// net/http contract: ContentLength is the announced length, -1 when unknown
	resp.ContentLength = int64(len(body.data))
	if verifG.fault == verifFaultTruncated {
		resp.ContentLength = 1000
	} else if verifG.chunked {
		resp.ContentLength = -1
	}
	return resp, nil
}
