package refreshable

//verif:pkg internal/filter/internal/refreshable

import (
	"net/http"
	"net/http/httptest"
	"net/url"
	"os"
	"path/filepath"
	"time"

	"github.com/AdguardTeam/golibs/logutil/slogutil"
	"github.com/c2h5oh/datasize"
)

type verifEnv struct {
	dir   string
	path  string
	srv   *httptest.Server
	fault int
	nDown int
	chunk bool
}

func verifNewEnv() *verifEnv {
	dir, err := os.MkdirTemp("", "verif-refr-")
	if err != nil {
		panic(err)
	}
	e := &verifEnv{dir: dir, path: filepath.Join(dir, "list_a")}
	e.srv = httptest.NewServer(http.HandlerFunc(func(w http.ResponseWriter, r *http.Request) {
		e.nDown++
		if e.chunk && e.fault != verifFaultTruncated && e.fault != verifFaultStatus404 && e.fault != verifFaultStatus500 && e.fault != verifFaultStatus206 {
			// flushing the header first makes the server stream the body
			w.WriteHeader(http.StatusOK)
			w.(http.Flusher).Flush()
		}
		switch e.fault {
		case verifFaultStatus404:
			http.Error(w, "not found", http.StatusNotFound)
		case verifFaultStatus500:
			http.Error(w, "oops", http.StatusInternalServerError)
		case verifFaultStatus206:
			// a successful-class answer that is not the complete list
			w.WriteHeader(http.StatusPartialContent)
			_, _ = w.Write([]byte(verifServed[:9]))
		case verifFaultEmptyBody:
			if !e.chunk {
				w.WriteHeader(http.StatusOK)
			}
		case verifFaultOversized:
			_, _ = w.Write([]byte(verifServed + "||way.too.long.example^\n||and.longer.still.example^\n"))
		case verifFaultTruncated:
			w.Header().Set("Content-Length", "1000")
			_, _ = w.Write([]byte(verifServed[:9]))
		default:
			_, _ = w.Write([]byte(verifServed))
		}
	}))
	return e
}

func (e *verifEnv) close() {
	e.srv.Close()
	_ = os.RemoveAll(e.dir)
}

func (e *verifEnv) putCache(text string, mtime time.Time) {
	if err := os.WriteFile(e.path, []byte(text), 0o600); err != nil {
		panic(err)
	}
	if err := os.Chtimes(e.path, mtime, mtime); err != nil {
		panic(err)
	}
}

func (e *verifEnv) setChunked(c bool) { e.chunk = c }

func (e *verifEnv) setFault(f int) {
	e.fault = f
	if f == verifFaultConnError {
		e.srv.Close() // nobody listens any more
	}
}
func (e *verifEnv) setNow(t time.Time) { verifSetClock(t.UnixNano()) }
func (e *verifEnv) readCache() (string, bool) {
	b, err := os.ReadFile(e.path)
	if err != nil {
		return "", false
	}
	return string(b), true
}
func (e *verifEnv) cacheAge(now time.Time) time.Duration {
	fi, err := os.Stat(e.path)
	if err != nil {
		return 0
	}
	return now.Sub(fi.ModTime())
}
func (e *verifEnv) stampCache(now time.Time) { _ = os.Chtimes(e.path, now, now) }
func (e *verifEnv) downloads() int      { return e.nDown }
func (e *verifEnv) effectiveFault() int { return e.fault }
func (e *verifEnv) tempFilesLeft() int {
	ents, _ := os.ReadDir(e.dir)
	n := 0
	for _, ent := range ents {
		if ent.Name() != "list_a" {
			n++
		}
	}
	return n
}
func (e *verifEnv) newRefreshable(staleness time.Duration, maxSize uint64) *Refreshable {
	u, _ := url.Parse(e.srv.URL + "/list_a.txt")
	r, err := New(&Config{
		Logger:    slogutil.NewDiscardLogger(),
		URL:       u,
		ID:        "list_a",
		CachePath: e.path,
		Staleness: staleness,
		Timeout:   2 * time.Second,
		MaxSize:   datasize.ByteSize(maxSize),
	})
	if err != nil {
		panic(err)
	}
	return r
}
