package mainmw

//verif:pkg internal/dnssvc/internal/mainmw

import (
	"context"
	"net"
	"net/netip"
	"time"

	"github.com/AdguardTeam/AdGuardDNS/internal/agd"
	"github.com/AdguardTeam/AdGuardDNS/internal/agdtest"
	"github.com/AdguardTeam/AdGuardDNS/internal/dnsmsg"
	"github.com/AdguardTeam/AdGuardDNS/internal/dnsserver"
	"github.com/AdguardTeam/AdGuardDNS/internal/filter"
	"github.com/miekg/dns"
)

func verifProfileMsgs(mode dnsmsg.BlockingMode, ttl time.Duration) *dnsmsg.Constructor {
	c, err := dnsmsg.NewConstructor(&dnsmsg.ConstructorConfig{
		Cloner:              agdtest.NewCloner(),
		BlockingMode:        mode,
		StructuredErrors:    agdtest.NewSDEConfig(false),
		FilteredResponseTTL: ttl,
	})
	verifAssume(err == nil)
	return c
}

// VerifC02Blocked: through the filtering middleware a verdict on the request wins over
// one on the response, nothing is filtered when filtering is off for the profile or
// the device, and a blocked query is answered in the requester's own blocking mode
// with the requester's TTL and without any record obtained from upstream.
//
//verif:harness name=H02b-blocked-shape tier=quick,thorough bounds="blocking mode of the requester from {null IP, custom IP (0..1 address per family, symbolic), NXDOMAIN, REFUSED}; question type from {A, AAAA, HTTPS, TXT}; request verdict from {none, allowed, blocked, modified response}; response verdict from {none, allowed, blocked}; profile / device FilteringEnabled symbolic; upstream answer address and TTL symbolic; the server default constructor has another mode and TTL" reach=blocked-by-request,blocked-by-response,not-filtered,passed maxpaths=100000
//verif:assume the filter storage returns a stub filter with the chosen verdicts (the precedence inside the filter is H02a)
func VerifC02Blocked() {
	e := verifNewEnv() // default constructor: null IP, TTL 77 s
	modeKind := verifChoice(4)
	var mode dnsmsg.BlockingMode
	var custom4, custom6 []netip.Addr
	switch modeKind {
	case 0:
		mode = &dnsmsg.BlockingModeNullIP{}
	case 1:
		if verifChoice(2) == 1 {
			custom4 = []netip.Addr{netip.AddrFrom4([4]byte{nondetU8(), nondetU8(), nondetU8(), nondetU8()})}
		}
		if verifChoice(2) == 1 {
			var b [16]byte
			for i := range b {
				b[i] = nondetU8()
			}
			a6 := netip.AddrFrom16(b)
			verifAssume(!a6.Is4In6())
			custom6 = []netip.Addr{a6}
		}
		verifAssume(len(custom4)+len(custom6) > 0)
		mode = &dnsmsg.BlockingModeCustomIP{IPv4: custom4, IPv6: custom6}
	case 2:
		mode = &dnsmsg.BlockingModeNXDOMAIN{}
	case 3:
		mode = &dnsmsg.BlockingModeREFUSED{}
	}
	const profTTL = 33
	profMsgs := verifProfileMsgs(mode, profTTL*time.Second)

	profOn, devOn := nondetBool(), nondetBool()
	prof := &agd.Profile{ID: "prof1234", FilterConfig: &filter.ConfigClient{}, FilteringEnabled: profOn, BlockingMode: mode, FilteredResponseTTL: profTTL * time.Second}
	dev := &agd.Device{ID: "dev12345", FilteringEnabled: devOn}
	qt := []uint16{dns.TypeA, dns.TypeAAAA, dns.TypeHTTPS, dns.TypeTXT}[verifChoice(4)]
	req := &dns.Msg{}
	req.SetQuestion("example.org.", qt)
	req.Id = nondetU16()
	ri := &agd.RequestInfo{
		DeviceResult:   &agd.DeviceResultOK{Profile: prof, Device: dev},
		FilteringGroup: &agd.FilteringGroup{FilterConfig: &filter.ConfigGroup{}},
		Messages:       profMsgs,
		RemoteIP:       netip.MustParseAddr("198.51.100.7"),
		Host:           "example.org",
		QType:          qt,
		QClass:         dns.ClassINET,
		Proto:          agd.ProtoDoT,
	}
	reqKind, respKind := verifChoice(4), verifChoice(3)
	e.flt.reqRes = verifResult(reqKind, req, profMsgs)
	e.flt.respRes = verifResult(respKind, req, profMsgs)
	e.ups.ip = [4]byte{nondetU8(), nondetU8(), nondetU8(), nondetU8()}
	e.ups.ttl = nondetU32()

	ctx := agd.ContextWithRequestInfo(context.Background(), ri)
	ctx = dnsserver.ContextWithRequestInfo(ctx, &dnsserver.RequestInfo{StartTime: time.Unix(1700000000, 0)})
	err := e.mw.Wrap(e.ups).ServeDNS(ctx, e.rw, req)
	verifAssert("served-with-one-response", err == nil && e.rw.writes == 1)
	out := e.rw.resp
	verifAssert("response-id-and-question-of-the-request", out.Id == req.Id && len(out.Question) == 1 && out.Question[0] == req.Question[0])

	filtering := profOn && devOn
	if !filtering {
		verifAssert("filter-not-consulted-when-filtering-disabled", e.flt.reqCalls == 0 && e.flt.respCalls == 0)
		verifAssert("upstream-answer-passed-unchanged-when-filtering-disabled", out == e.ups.resp)
		verifReach("not-filtered")
		return
	}
	blockedByReq := reqKind == 2
	blockedByResp := reqKind == 0 && respKind == 2
	switch {
	case reqKind == 3:
		verifAssert("request-rewrite-wins-over-response-verdict", out == e.flt.reqRes.(*filter.ResultModifiedResponse).Msg)
	case reqKind == 1:
		verifAssert("request-allow-wins-over-response-verdict", out == e.ups.resp)
		verifReach("passed")
	case blockedByReq || blockedByResp:
		if blockedByReq {
			verifReach("blocked-by-request")
		} else {
			verifReach("blocked-by-response")
		}
		verifAssert("blocked-answer-is-not-the-upstream-message", out != e.ups.resp)
		// no record object or address obtained from upstream
		for _, rr := range out.Answer {
			for _, up := range e.ups.resp.Answer {
				verifAssert("blocked-answer-shares-no-record-with-upstream", rr != up)
			}
			verifAssert("blocked-answer-ttl-is-the-requester's", rr.Header().Ttl == profTTL)
		}
		for _, rr := range out.Ns {
			verifAssert("blocked-authority-ttl-is-the-requester's", rr.Header().Ttl == profTTL)
		}
		isAddr := qt == dns.TypeA || qt == dns.TypeAAAA
		switch modeKind {
		case 0:
			if isAddr {
				verifAssert("null-ip-shape", out.Rcode == dns.RcodeSuccess && len(out.Answer) == 1)
				if a, ok := out.Answer[0].(*dns.A); ok {
					verifAssert("null-ip-address", qt == dns.TypeA && a.A.Equal(net.IPv4zero))
				} else if a6, ok := out.Answer[0].(*dns.AAAA); ok {
					verifAssert("null-ip-address", qt == dns.TypeAAAA && a6.AAAA.Equal(net.IPv6unspecified))
				} else {
					verifAssert("null-ip-address", false)
				}
			} else {
				verifAssert("nodata-shape-for-other-types", out.Rcode == dns.RcodeSuccess && len(out.Answer) == 0 && len(out.Ns) == 1)
			}
		case 1:
			has := (qt == dns.TypeA && len(custom4) > 0) || (qt == dns.TypeAAAA && len(custom6) > 0)
			if has {
				verifAssert("custom-ip-shape", out.Rcode == dns.RcodeSuccess && len(out.Answer) == 1)
				if a, ok := out.Answer[0].(*dns.A); ok {
					got, _ := netip.AddrFromSlice(a.A.To4())
					verifAssert("custom-ip-address-of-the-requester", got == custom4[0])
				} else if a6, ok := out.Answer[0].(*dns.AAAA); ok {
					got, _ := netip.AddrFromSlice(a6.AAAA)
					verifAssert("custom-ip-address-of-the-requester", got == custom6[0])
				}
			} else {
				verifAssert("custom-ip-fallback-has-no-upstream-answers", len(out.Answer) == 0)
			}
		case 2:
			verifAssert("nxdomain-shape", out.Rcode == dns.RcodeNameError && len(out.Answer) == 0)
		case 3:
			verifAssert("refused-shape", out.Rcode == dns.RcodeRefused && len(out.Answer) == 0)
		}
	default:
		verifAssert("unfiltered-answer-is-the-upstream's", out == e.ups.resp)
		verifReach("passed")
	}
}
