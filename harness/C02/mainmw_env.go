package mainmw

//verif:pkg internal/dnssvc/internal/mainmw

import (
	"context"
	"net"
	"net/netip"
	"time"

	"github.com/AdguardTeam/AdGuardDNS/internal/agd"
	"github.com/AdguardTeam/AdGuardDNS/internal/agdtest"
	"github.com/AdguardTeam/AdGuardDNS/internal/dnsmsg"
	"github.com/AdguardTeam/AdGuardDNS/internal/dnsserver"
	"github.com/AdguardTeam/AdGuardDNS/internal/filter"
	"github.com/AdguardTeam/AdGuardDNS/internal/geoip"
	"github.com/AdguardTeam/AdGuardDNS/internal/querylog"
	"github.com/AdguardTeam/golibs/logutil/slogutil"
	"github.com/AdguardTeam/golibs/netutil"
	"github.com/miekg/dns"
)

// --- recorder stubs shared by the mainmw harnesses

type verifFlt struct {
	reqRes, respRes filter.Result
	reqCalls        int
	respCalls       int
}

func (f *verifFlt) FilterRequest(context.Context, *filter.Request) (filter.Result, error) {
	f.reqCalls++
	return f.reqRes, nil
}
func (f *verifFlt) FilterResponse(context.Context, *filter.Response) (filter.Result, error) {
	f.respCalls++
	return f.respRes, nil
}

type verifStorage struct {
	flt      *verifFlt
	lastConf filter.Config
	calls    int
}

func (s *verifStorage) ForConfig(_ context.Context, c filter.Config) filter.Interface {
	s.calls++
	s.lastConf = c
	if c == nil {
		return filter.Empty{}
	}
	return s.flt
}
func (s *verifStorage) HasListID(filter.ID) bool { return true }

type verifBill struct {
	calls int
	id    agd.DeviceID
	ctry  geoip.Country
	asn   geoip.ASN
	start time.Time
	proto agd.Protocol
}

func (b *verifBill) Record(_ context.Context, id agd.DeviceID, c geoip.Country, a geoip.ASN, s time.Time, p agd.Protocol) {
	b.calls++
	b.id, b.ctry, b.asn, b.start, b.proto = id, c, a, s, p
}

type verifQLog struct {
	calls int
	e     *querylog.Entry
}

func (q *verifQLog) Write(_ context.Context, e *querylog.Entry) error {
	q.calls++
	q.e = e
	return nil
}

type verifRuleStat struct {
	calls int
	id    filter.ID
}

func (r *verifRuleStat) Collect(_ context.Context, id filter.ID, _ filter.RuleText) {
	r.calls++
	r.id = id
}

type verifMetrics struct{}

func (verifMetrics) OnRequest(context.Context, *RequestMetrics) {}

type verifGeoIP struct{}

func (verifGeoIP) SubnetByLocation(*geoip.Location, netutil.AddrFamily) (netip.Prefix, error) {
	return netip.Prefix{}, nil
}
func (verifGeoIP) Data(string, netip.Addr) (*geoip.Location, error) {
	return &geoip.Location{Country: "NL"}, nil
}

type verifUpstream struct {
	calls int
	resp  *dns.Msg
	ip    [4]byte
	ttl   uint32
	req   *dns.Msg
}

func (u *verifUpstream) ServeDNS(ctx context.Context, rw dnsserver.ResponseWriter, req *dns.Msg) error {
	u.calls++
	u.req = req
	resp := (&dns.Msg{}).SetReply(req)
	resp.Answer = []dns.RR{&dns.A{
		Hdr: dns.RR_Header{Name: req.Question[0].Name, Rrtype: dns.TypeA, Class: dns.ClassINET, Ttl: u.ttl},
		A:   net.IP{u.ip[0], u.ip[1], u.ip[2], u.ip[3]},
	}}
	u.resp = resp
	return rw.WriteMsg(ctx, req, resp)
}

type verifMainRW struct {
	writes int
	resp   *dns.Msg
}

func (w *verifMainRW) LocalAddr() net.Addr  { return &net.UDPAddr{IP: net.IP{192, 0, 2, 1}, Port: 53} }
func (w *verifMainRW) RemoteAddr() net.Addr { return &net.UDPAddr{IP: net.IP{198, 51, 100, 7}, Port: 4321} }
func (w *verifMainRW) WriteMsg(_ context.Context, _, resp *dns.Msg) error {
	w.writes++
	w.resp = resp
	return nil
}

type verifEnv struct {
	mw    *Middleware
	strg  *verifStorage
	flt   *verifFlt
	bill  *verifBill
	qlog  *verifQLog
	rstat *verifRuleStat
	ups   *verifUpstream
	rw    *verifMainRW
}

func verifNewEnv() *verifEnv {
	e := &verifEnv{flt: &verifFlt{}, bill: &verifBill{}, qlog: &verifQLog{}, rstat: &verifRuleStat{}, ups: &verifUpstream{ttl: 300}, rw: &verifMainRW{}}
	e.strg = &verifStorage{flt: e.flt}
	cloner := agdtest.NewCloner()
	msgs, err := dnsmsg.NewConstructor(&dnsmsg.ConstructorConfig{
		Cloner:              cloner,
		BlockingMode:        &dnsmsg.BlockingModeNullIP{},
		StructuredErrors:    agdtest.NewSDEConfig(false),
		FilteredResponseTTL: 77 * time.Second,
	})
	verifAssume(err == nil)
	e.mw = New(&Config{
		Cloner:        cloner,
		Logger:        slogutil.NewDiscardLogger(),
		Messages:      msgs,
		BillStat:      e.bill,
		ErrColl:       agdtest.NewErrorCollector(),
		FilterStorage: e.strg,
		GeoIP:         verifGeoIP{},
		Metrics:       verifMetrics{},
		QueryLog:      e.qlog,
		RuleStat:      e.rstat,
	})
	return e
}

func verifResult(kind int, req *dns.Msg, msgs *dnsmsg.Constructor) filter.Result {
	switch kind {
	case 1:
		return &filter.ResultAllowed{List: "allow_list", Rule: "@@||example.org^"}
	case 2:
		return &filter.ResultBlocked{List: "block_list", Rule: "||example.org^"}
	case 3:
		resp := (&dns.Msg{}).SetReply(req)
		resp.Answer = []dns.RR{&dns.A{
			Hdr: dns.RR_Header{Name: req.Question[0].Name, Rrtype: dns.TypeA, Class: dns.ClassINET, Ttl: 10},
			A:   net.IP{203, 0, 113, 9},
		}}
		return &filter.ResultModifiedResponse{Msg: resp, List: "rewrite_list", Rule: "||example.org^$dnsrewrite=203.0.113.9"}
	case 4:
		mod := req.Copy()
		mod.Question[0].Name = "cname.example."
		return &filter.ResultModifiedRequest{Msg: mod, List: "cname_list", Rule: "||example.org^$dnsrewrite=cname.example"}
	}
	return nil
}


// VerifChainEnv is the main middleware over recorder stubs whose filter blocks every
// request, for the harnesses of the packages in front of it.
type VerifChainEnv struct{ e *verifEnv }

// VerifNewChainEnv returns the environment; every filtered request is blocked.
func VerifNewChainEnv() *VerifChainEnv {
	e := verifNewEnv()
	e.flt.reqRes = &filter.ResultBlocked{List: "block_list", Rule: "||example.org^"}
	return &VerifChainEnv{e: e}
}

// Handler returns the main middleware wrapped around the stub upstream.
func (c *VerifChainEnv) Handler() dnsserver.Handler { return c.e.mw.Wrap(c.e.ups) }

// Resolved returns the number of queries that reached the upstream.
func (c *VerifChainEnv) Resolved() int { return c.e.ups.calls }
