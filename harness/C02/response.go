package composite

//verif:pkg internal/filter/internal/composite

import (
	"context"
	"net"
	"net/netip"

	"github.com/AdguardTeam/AdGuardDNS/internal/filter/internal"
	"github.com/AdguardTeam/AdGuardDNS/internal/filter/internal/rulelist"
	"github.com/miekg/dns"
)

// VerifC02Response: the verdict of the composite filter on a response is decided by
// the first answer record (address, CNAME target, HTTPS address hint) that any rule
// matches; for that record an allow rule from any rule source beats every block rule
// and a matching block rule blocks; rewrite rules are not applied to responses and
// records matched by nothing leave the response alone.
//
//verif:harness name=H02c-response tier=quick,thorough bounds="response of 1..2 answers drawn from {clean A, A 203.0.113.66, CNAME tracker.example, HTTPS with ipv4hint 203.0.113.66, TXT}; shared list blocks the address, blocked-service list blocks the CNAME target, custom rules hold one of {nothing, allow the address, allow the target, $dnsrewrite of the target}" reach=blocked,allowed,none,second-answer-decides maxpaths=20000
//verif:assume rule text matching is done by the real urlfilter engine on concrete names
func VerifC02Response() {
	cache := rulelist.ResultCacheEmpty{}
	customText := []string{
		"||unrelated.example^\n",
		"@@||203.0.113.66^\n",
		"@@||tracker.example^\n",
		"||tracker.example^$dnsrewrite=203.0.113.5\n",
	}
	kc := verifChoice(len(customText))
	custom, err := rulelist.NewImmutable(customText[kc], internal.IDCustom, "", cache)
	verifAssume(err == nil)
	l1, err := rulelist.NewFromString("||203.0.113.66^\n", "list_one", "", cache)
	verifAssume(err == nil)
	svc, err := rulelist.NewImmutable("||tracker.example^\n", internal.IDBlockedService, "svc_x", cache)
	verifAssume(err == nil)
	f := New(&Config{Custom: custom, RuleLists: []*rulelist.Refreshable{l1}, ServiceLists: []*rulelist.Immutable{svc}})

	hdr := func(t uint16) dns.RR_Header {
		return dns.RR_Header{Name: "example.org.", Rrtype: t, Class: dns.ClassINET, Ttl: 60}
	}
	// kinds: 0 clean A, 1 blocked A, 2 CNAME to the blocked target, 3 HTTPS hint with the blocked address, 4 TXT
	mk := func(k int) dns.RR {
		switch k {
		case 0:
			return &dns.A{Hdr: hdr(dns.TypeA), A: net.IP{192, 0, 2, 1}}
		case 1:
			return &dns.A{Hdr: hdr(dns.TypeA), A: net.IP{203, 0, 113, 66}}
		case 2:
			return &dns.CNAME{Hdr: hdr(dns.TypeCNAME), Target: "tracker.example."}
		case 3:
			return &dns.HTTPS{SVCB: dns.SVCB{Hdr: hdr(dns.TypeHTTPS), Priority: 1, Target: ".", Value: []dns.SVCBKeyValue{
				&dns.SVCBAlpn{Alpn: []string{"h2"}},
				&dns.SVCBIPv4Hint{Hint: []net.IP{{192, 0, 2, 9}, {203, 0, 113, 66}}},
			}}}
		default:
			return &dns.TXT{Hdr: hdr(dns.TypeTXT), Txt: []string{"203.0.113.66 tracker.example"}}
		}
	}
	n := 1 + verifChoice(2)
	kinds := make([]int, n)
	resp := &dns.Msg{}
	resp.SetQuestion("example.org.", dns.TypeA)
	resp.Response = true
	for i := range kinds {
		kinds[i] = verifChoice(5)
		resp.Answer = append(resp.Answer, mk(kinds[i]))
	}
	r, ferr := f.FilterResponse(context.Background(), &internal.Response{DNS: resp, RemoteIP: netip.MustParseAddr("198.51.100.7")})
	verifAssert("no-error", ferr == nil)

	// reference
	want, wantList := "none", internal.ID("")
	decidedBy := -1
	for i, k := range kinds {
		var blockedBy internal.ID
		allowed := false
		switch k {
		case 1, 3:
			blockedBy, allowed = "list_one", kc == 1
		case 2:
			blockedBy, allowed = internal.IDBlockedService, kc == 2
		}
		if blockedBy == "" {
			continue
		}
		decidedBy = i
		if allowed {
			want, wantList = "allowed", internal.IDCustom
		} else {
			want, wantList = "blocked", blockedBy
		}
		break
	}
	got, gotList := "none", internal.ID("")
	switch r := r.(type) {
	case *internal.ResultAllowed:
		got, gotList = "allowed", r.List
	case *internal.ResultBlocked:
		got, gotList = "blocked", r.List
	case nil:
	default:
		got = "other"
	}
	verifAssert("response-verdict-of-the-first-matched-answer", got == want)
	verifAssert("response-verdict-names-the-deciding-list", gotList == wantList)
	verifAssert("rewrite-rules-are-not-applied-to-responses", got != "other")
	switch {
	case got == "blocked":
		verifReach("blocked")
	case got == "allowed":
		verifReach("allowed")
	default:
		verifReach("none")
	}
	if decidedBy == 1 {
		verifReach("second-answer-decides")
	}
}
