package composite

//verif:pkg internal/filter/internal/composite

import (
	"context"
	"net/netip"
	"net/url"
	"time"

	"github.com/AdguardTeam/AdGuardDNS/internal/agdcache"
	"github.com/AdguardTeam/AdGuardDNS/internal/dnsmsg"
	"github.com/AdguardTeam/AdGuardDNS/internal/filter/hashprefix"
	"github.com/AdguardTeam/AdGuardDNS/internal/filter/internal"
	"github.com/AdguardTeam/AdGuardDNS/internal/filter/internal/rulelist"
	"github.com/AdguardTeam/golibs/logutil/slogutil"
	"github.com/miekg/dns"
)

// rule kinds a list may contain for the queried host
const (
	verifRuleNone = iota
	verifRuleBlock
	verifRuleAllow
	verifRuleRewriteIP
	verifRuleRewriteCNAME
	verifRuleHosts
	verifRuleN
	// kinds of the extended grammar (thorough tier)
)

const (
	verifRuleBlockOnlyAAAA = verifRuleN     // ||example.org^$dnstype=AAAA
	verifRuleRewriteRcode  = verifRuleN + 1 // $dnsrewrite=REFUSED
	verifRuleExtN          = verifRuleN + 2
)

var verifRuleText = [verifRuleExtN]string{
	"||unrelated.example^\n",
	"||example.org^\n",
	"@@||example.org^\n",
	"||example.org^$dnsrewrite=203.0.113.5\n",
	"||example.org^$dnsrewrite=NOERROR;CNAME;cname.example\n",
	"0.0.0.0 example.org\n",
	"||example.org^$dnstype=AAAA\n",
	"||example.org^$dnsrewrite=REFUSED\n",
}

type verifErrColl2 struct{}

func (verifErrColl2) Collect(context.Context, error) {}

func verifHashFilter(id internal.ID, listed bool) *hashprefix.Filter {
	text := "other.example\n"
	if listed {
		text = "example.org\n"
	}
	strg, err := hashprefix.NewStorage(text)
	verifAssume(err == nil)
	f, err := hashprefix.NewFilter(&hashprefix.FilterConfig{
		Logger:          slogutil.NewDiscardLogger(),
		Cloner:          dnsmsg.NewCloner(dnsmsg.EmptyClonerStat{}),
		CacheManager:    agdcache.EmptyManager{},
		Hashes:          strg,
		URL:             &url.URL{Scheme: "https", Host: "lists.example", Path: "/" + string(id)},
		ErrColl:         verifErrColl2{},
		Metrics:         internal.EmptyMetrics{},
		ID:              id,
		CachePath:       "/ghost/" + string(id),
		ReplacementHost: "safe.example",
		Staleness:       time.Hour,
		CacheCount:      4,
		MaxSize:         1 << 20,
	})
	verifAssume(err == nil)
	return f
}

// VerifC02Precedence: the verdict of the composite filter on a request follows the
// documented order: rewrite rules (custom first, then lists in order), then allow
// beats block over all rule sources, the profile's own allow rule stops everything,
// otherwise dangerous-domain, adult and newly-registered filters in that order, then
// the rule-list verdict.
//
//verif:harness name=H02a-precedence tier=quick bounds="custom rules, two shared lists and one blocked-service list, each holding for the queried host one of {nothing, block, allow, $dnsrewrite to IP, $dnsrewrite to CNAME, hosts-style block} (service list: nothing/block); safe-browsing, adult and newly-registered hash filters each listing the host or not; question type A; real urlfilter engine" reach=rewrite,blocked,allowed,custom-allow,safe-browsing,adult,new-reg,none maxpaths=200000
//verif:assume rule texts come from the grammar above ($important, $badfilter, $client, $ctag outside the grammar); safe-search filters not configured
func VerifC02Precedence() { verifC02Precedence(false) }

// VerifC02Precedence2 is the thorough variant: question types A and AAAA and two more
// rule kinds ($dnstype-restricted block, $dnsrewrite to an rcode).
//
//verif:harness name=H02a-precedence2 tier=thorough bounds="as H02a-precedence with question type A or AAAA and the rule kinds $dnstype=AAAA block and $dnsrewrite=REFUSED in addition" reach=rewrite,blocked,allowed,custom-allow,safe-browsing,adult,new-reg,none,typed-rule-skipped maxpaths=3000000
//verif:assume rule texts come from the grammar above ($important, $badfilter, $client, $ctag outside the grammar); safe-search filters not configured
func VerifC02Precedence2() { verifC02Precedence(true) }

func verifC02Precedence(ext bool) {
	nk := verifRuleN
	qt := uint16(dns.TypeA)
	if ext {
		nk = verifRuleExtN
		qt = []uint16{dns.TypeA, dns.TypeAAAA}[verifChoice(2)]
	}
	kc, k1, k2 := verifChoice(nk), verifChoice(nk), verifChoice(nk)
	ks := verifChoice(2) // service list: none / block
	sb, adult, newReg := verifChoice(2) == 1, verifChoice(2) == 1, verifChoice(2) == 1

	cache := rulelist.ResultCacheEmpty{}
	custom, err := rulelist.NewImmutable(verifRuleText[kc], internal.IDCustom, "", cache)
	verifAssume(err == nil)
	l1, err := rulelist.NewFromString(verifRuleText[k1], "list_one", "", cache)
	verifAssume(err == nil)
	l2, err := rulelist.NewFromString(verifRuleText[k2], "list_two", "", cache)
	verifAssume(err == nil)
	svc, err := rulelist.NewImmutable(verifRuleText[ks], internal.IDBlockedService, "svc_x", cache)
	verifAssume(err == nil)

	f := New(&Config{
		SafeBrowsing:         verifHashFilter(internal.IDSafeBrowsing, sb),
		AdultBlocking:        verifHashFilter(internal.IDAdultBlocking, adult),
		NewRegisteredDomains: verifHashFilter(internal.IDNewRegDomains, newReg),
		Custom:               custom,
		RuleLists:            []*rulelist.Refreshable{l1, l2},
		ServiceLists:         []*rulelist.Immutable{svc},
	})
	msgs, cerr := dnsmsg.NewConstructor(&dnsmsg.ConstructorConfig{
		Cloner:              dnsmsg.NewCloner(dnsmsg.EmptyClonerStat{}),
		BlockingMode:        &dnsmsg.BlockingModeNullIP{},
		StructuredErrors:    &dnsmsg.StructuredDNSErrorsConfig{},
		FilteredResponseTTL: 10 * time.Second,
	})
	verifAssume(cerr == nil)
	req := &dns.Msg{}
	req.SetQuestion("example.org.", qt)
	r, ferr := f.FilterRequest(context.Background(), &internal.Request{
		DNS: req, Messages: msgs, RemoteIP: netip.MustParseAddr("198.51.100.7"), Host: "example.org", QType: qt, QClass: dns.ClassINET,
	})
	verifAssert("no-error", ferr == nil)

	// ---- reference: the documented order
	kinds := []int{kc, k1, k2}
	ids := []internal.ID{internal.IDCustom, "list_one", "list_two"}
	wantKind, wantList := "none", internal.ID("")
	decided := false
	// 1. rewrites: custom first, then lists in order
	for i, k := range kinds {
		if k == verifRuleRewriteIP || k == verifRuleRewriteRcode {
			// a rewrite wins for every question type (an A value leaves an AAAA
			// question with an empty NOERROR answer)
			wantKind, wantList, decided = "modresp", ids[i], true
			break
		} else if k == verifRuleRewriteCNAME {
			wantKind, wantList, decided = "modreq", ids[i], true
			break
		}
	}
	if !decided {
		// 2. allow beats block over every rule source
		allowBy, blockBy := -1, -1
		for i, k := range kinds {
			if k == verifRuleAllow && allowBy < 0 {
				allowBy = i
			}
			if k == verifRuleBlockOnlyAAAA && qt != dns.TypeAAAA {
				verifReach("typed-rule-skipped")
			}
			if (k == verifRuleBlock || k == verifRuleHosts || (k == verifRuleBlockOnlyAAAA && qt == dns.TypeAAAA)) && blockBy < 0 {
				blockBy = i
			}
		}
		svcBlocks := ks == 1
		switch {
		case allowBy >= 0:
			wantKind = "allowed"
			if allowBy == 0 {
				wantKind, wantList, decided = "allowed", internal.IDCustom, true // 3. custom allow stops everything
			}
		case blockBy >= 0 || svcBlocks:
			wantKind, decided = "blocked", true
		}
		if !decided {
			// 4. safety filters in order
			switch {
			case sb:
				wantKind, wantList, decided = "modreq", internal.IDSafeBrowsing, true
			case adult:
				wantKind, wantList, decided = "modreq", internal.IDAdultBlocking, true
			case newReg:
				wantKind, wantList, decided = "modreq", internal.IDNewRegDomains, true
			}
		}
	}

	gotKind, gotList := "none", internal.ID("")
	switch r := r.(type) {
	case *internal.ResultAllowed:
		gotKind, gotList = "allowed", r.List
	case *internal.ResultBlocked:
		gotKind, gotList = "blocked", r.List
	case *internal.ResultModifiedResponse:
		gotKind, gotList = "modresp", r.List
	case *internal.ResultModifiedRequest:
		gotKind, gotList = "modreq", r.List
	}
	verifAssert("verdict-kind-follows-documented-order", gotKind == wantKind)
	if wantList != "" {
		verifAssert("deciding-list-follows-documented-order", gotList == wantList)
	}
	switch {
	case gotKind == "modresp" || (gotKind == "modreq" && gotList != internal.IDSafeBrowsing && gotList != internal.IDAdultBlocking && gotList != internal.IDNewRegDomains):
		verifReach("rewrite")
	case gotKind == "blocked":
		verifReach("blocked")
	case gotKind == "allowed" && gotList == internal.IDCustom:
		verifReach("custom-allow")
	case gotKind == "allowed":
		verifReach("allowed")
	case gotList == internal.IDSafeBrowsing:
		verifReach("safe-browsing")
	case gotList == internal.IDAdultBlocking:
		verifReach("adult")
	case gotList == internal.IDNewRegDomains:
		verifReach("new-reg")
	default:
		verifReach("none")
	}
}
