package ratelimitmw

//verif:pkg internal/dnssvc/internal/ratelimitmw

import (
	"context"
	"net"
	"net/netip"
	"time"

	"github.com/AdguardTeam/AdGuardDNS/internal/access"
	"github.com/AdguardTeam/AdGuardDNS/internal/agd"
	"github.com/AdguardTeam/AdGuardDNS/internal/agdtest"
	"github.com/AdguardTeam/AdGuardDNS/internal/dnsmsg"
	"github.com/AdguardTeam/AdGuardDNS/internal/dnsserver"
	"github.com/AdguardTeam/AdGuardDNS/internal/dnssvc/internal/mainmw"
	"github.com/AdguardTeam/AdGuardDNS/internal/filter"
	"github.com/AdguardTeam/AdGuardDNS/internal/geoip"
	"github.com/AdguardTeam/golibs/logutil/slogutil"
	"github.com/AdguardTeam/golibs/netutil"
	"github.com/miekg/dns"
)

type verifAllowAll02 struct{}

func (verifAllowAll02) IsBlockedHost(string, uint16) bool { return false }
func (verifAllowAll02) IsBlockedIP(netip.Addr) bool       { return false }

// verifFinder02 answers the i-th request with the i-th result.
type verifFinder02 struct {
	res []agd.DeviceResult
	n   *int
}

func (f verifFinder02) Find(context.Context, *dns.Msg, netip.AddrPort, netip.AddrPort) agd.DeviceResult {
	r := f.res[*f.n]
	*f.n++
	return r
}

type verifGeo02 struct{}

func (verifGeo02) SubnetByLocation(*geoip.Location, netutil.AddrFamily) (netip.Prefix, error) {
	return netip.Prefix{}, nil
}
func (verifGeo02) Data(string, netip.Addr) (*geoip.Location, error) {
	return &geoip.Location{Country: "NL", ASN: 64501}, nil
}

type verifRW02 struct {
	resp *dns.Msg
}

func (w *verifRW02) LocalAddr() net.Addr  { return &net.UDPAddr{IP: net.IP{192, 0, 2, 1}, Port: 53} }
func (w *verifRW02) RemoteAddr() net.Addr { return &net.UDPAddr{IP: net.IP{198, 51, 100, 7}, Port: 4321} }
func (w *verifRW02) WriteMsg(_ context.Context, _, resp *dns.Msg) error {
	w.resp = resp
	return nil
}

// VerifC02RequesterShape: over 2..3 consecutive requests of different requesters
// through the real access / rate-limit middleware (which prepares the recycled
// request information) and the real main middleware, every blocked query is answered
// in the blocking mode and with the TTL of its own requester: the profile's for a
// device of a profile, the server's defaults for a client without one.
//
//verif:harness name=H02f-requester-shape tier=quick,thorough bounds="2..3 consecutive blocked A queries; each requester from {no profile (server default: null IP, 77 s), profile in NXDOMAIN mode with 1234 s, profile in REFUSED mode with 55 s}; the request-information pool hands released objects back" reach=done,anonymous-after-profile,profile-after-profile maxpaths=20000
//verif:assume device finder, GeoIP, filter storage (blocks everything), upstream, billing and query log are stubs; global access manager allows everything
func VerifC02RequesterShape() {
	verifPoolMode(1)
	profs := []*agd.Profile{
		nil,
		{ID: "prof0001", Access: access.EmptyProfile{}, FilterConfig: &filter.ConfigClient{}, BlockingMode: &dnsmsg.BlockingModeNXDOMAIN{}, FilteredResponseTTL: 1234 * time.Second, FilteringEnabled: true},
		{ID: "prof0002", Access: access.EmptyProfile{}, FilterConfig: &filter.ConfigClient{}, BlockingMode: &dnsmsg.BlockingModeREFUSED{}, FilteredResponseTTL: 55 * time.Second, FilteringEnabled: true},
	}
	n := 2 + verifChoice(2)
	var kinds []int
	var results []agd.DeviceResult
	for i := 0; i < n; i++ {
		k := verifChoice(3)
		kinds = append(kinds, k)
		if k == 0 {
			results = append(results, nil)
		} else {
			results = append(results, &agd.DeviceResultOK{Profile: profs[k], Device: &agd.Device{ID: "dev12345", FilteringEnabled: true}})
		}
	}
	msgs, err := dnsmsg.NewConstructor(&dnsmsg.ConstructorConfig{
		Cloner:              agdtest.NewCloner(),
		BlockingMode:        &dnsmsg.BlockingModeNullIP{},
		StructuredErrors:    agdtest.NewSDEConfig(false),
		FilteredResponseTTL: 77 * time.Second,
	})
	verifAssume(err == nil)
	calls := 0
	mw := New(&Config{
		Logger:           slogutil.NewDiscardLogger(),
		Messages:         msgs,
		FilteringGroup:   &agd.FilteringGroup{ID: "fg", FilterConfig: &filter.ConfigGroup{}},
		ServerGroup:      &agd.ServerGroup{},
		Server:           &agd.Server{Name: "s", Protocol: agd.ProtoDNS},
		StructuredErrors: agdtest.NewSDEConfig(false),
		AccessManager:    verifAllowAll02{},
		DeviceFinder:     verifFinder02{res: results, n: &calls},
		ErrColl:          agdtest.NewErrorCollector(),
		GeoIP:            verifGeo02{},
		Metrics:          EmptyMetrics{},
		Protocols:        []agd.Protocol{},
	})
	chain := mainmw.VerifNewChainEnv()
	h := mw.Wrap(chain.Handler())
	for i := 0; i < n; i++ {
		rw := &verifRW02{}
		req := &dns.Msg{}
		req.SetQuestion("example.org.", dns.TypeA)
		req.Id = uint16(100 + i)
		ctx := dnsserver.ContextWithRequestInfo(context.Background(), &dnsserver.RequestInfo{StartTime: time.Unix(1_700_000_000, 0)})
		serveErr := h.ServeDNS(ctx, rw, req)
		verifAssert("no-error", serveErr == nil)
		verifAssert("blocked-query-answered", rw.resp != nil)
		if rw.resp == nil {
			return
		}
		r := rw.resp
		wantTTL := []uint32{77, 1234, 55}[kinds[i]]
		for _, rr := range r.Answer {
			verifAssert("blocked-answer-carries-the-requester's-ttl", rr.Header().Ttl == wantTTL)
		}
		for _, rr := range r.Ns {
			verifAssert("blocked-answer-carries-the-requester's-ttl", rr.Header().Ttl == wantTTL)
		}
		switch kinds[i] {
		case 0:
			a, ok := (*dns.A)(nil), false
			if len(r.Answer) == 1 {
				a, ok = r.Answer[0].(*dns.A)
			}
			verifAssert("client-without-profile-gets-the-server's-default-mode", r.Rcode == dns.RcodeSuccess && ok && a.A.Equal(net.IP{0, 0, 0, 0}))
		case 1:
			verifAssert("nxdomain-profile-gets-nxdomain", r.Rcode == dns.RcodeNameError && len(r.Answer) == 0)
		default:
			verifAssert("refused-profile-gets-refused", r.Rcode == dns.RcodeRefused && len(r.Answer) == 0)
		}
		verifAssert("answer-is-for-this-request", r.Id == req.Id)
		if i > 0 && kinds[i] == 0 && kinds[i-1] != 0 {
			verifReach("anonymous-after-profile")
		}
		if i > 0 && kinds[i] != 0 && kinds[i-1] != 0 && kinds[i] != kinds[i-1] {
			verifReach("profile-after-profile")
		}
	}
	verifReach("done")
}
