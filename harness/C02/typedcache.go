package composite

//verif:pkg internal/filter/internal/composite

import (
	"context"
	"net/netip"
	"time"

	"github.com/AdguardTeam/AdGuardDNS/internal/dnsmsg"
	"github.com/AdguardTeam/AdGuardDNS/internal/filter/internal"
	"github.com/AdguardTeam/AdGuardDNS/internal/filter/internal/rulelist"
	"github.com/miekg/dns"
)

// VerifC02TypedRules: with the production result cache of a shared rule list enabled,
// a rule that applies to some question types only ($dnstype) decides every query by
// the query's own type, whatever was asked for the same name before: blocked exactly
// when the rule names the type.
//
//verif:harness name=H02g-typed-rules-cached tier=quick,thorough bounds="shared list with ||example.org^$dnstype=A|AAAA behind the real LRU result cache; 2..3 consecutive queries for the name with types from {A, AAAA, TXT, CAA (257), DLV (32769), TYPE513}" reach=done,blocked,not-blocked,types-equal-modulo-256 maxpaths=20000
//verif:assume urlfilter engine interpreted on the concrete name; real agdcache.LRU
func VerifC02TypedRules() {
	l1, err := rulelist.NewFromString("||example.org^$dnstype=A|AAAA\n", "list_one", "", rulelist.NewResultCache(100, true))
	verifAssume(err == nil)
	custom, err := rulelist.NewImmutable("", internal.IDCustom, "", rulelist.ResultCacheEmpty{})
	verifAssume(err == nil)
	f := New(&Config{Custom: custom, RuleLists: []*rulelist.Refreshable{l1}})
	msgs, cerr := dnsmsg.NewConstructor(&dnsmsg.ConstructorConfig{
		Cloner:              dnsmsg.NewCloner(dnsmsg.EmptyClonerStat{}),
		BlockingMode:        &dnsmsg.BlockingModeNullIP{},
		StructuredErrors:    &dnsmsg.StructuredDNSErrorsConfig{},
		FilteredResponseTTL: 10 * time.Second,
	})
	verifAssume(cerr == nil)
	qts := []uint16{dns.TypeA, dns.TypeAAAA, dns.TypeTXT, dns.TypeCAA, dns.TypeDLV, 513}
	n := 2 + verifChoice(2)
	var prev []uint16
	for i := 0; i < n; i++ {
		qt := qts[verifChoice(len(qts))]
		req := &dns.Msg{}
		req.SetQuestion("example.org.", qt)
		r, ferr := f.FilterRequest(context.Background(), &internal.Request{
			DNS: req, Messages: msgs, RemoteIP: netip.MustParseAddr("198.51.100.7"), Host: "example.org", QType: qt, QClass: dns.ClassINET,
		})
		verifAssert("no-error", ferr == nil)
		_, blocked := r.(*internal.ResultBlocked)
		want := qt == dns.TypeA || qt == dns.TypeAAAA
		verifAssert("typed-rule-decides-by-the-query's-own-type", blocked == want && (want || r == nil))
		if blocked {
			verifReach("blocked")
		} else {
			verifReach("not-blocked")
		}
		for _, p := range prev {
			if p != qt && p%256 == qt%256 {
				verifReach("types-equal-modulo-256")
			}
		}
		prev = append(prev, qt)
	}
	verifReach("done")
}
