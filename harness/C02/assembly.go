package filterstorage

//verif:pkg internal/filter/filterstorage

import (
	"context"
	"sync"
	"time"

	"github.com/AdguardTeam/AdGuardDNS/internal/agdtime"
	"github.com/AdguardTeam/AdGuardDNS/internal/filter"
	"github.com/AdguardTeam/AdGuardDNS/internal/filter/hashprefix"
	"github.com/AdguardTeam/AdGuardDNS/internal/filter/internal/composite"
	"github.com/AdguardTeam/AdGuardDNS/internal/filter/internal/rulelist"
	"github.com/AdguardTeam/AdGuardDNS/internal/filter/internal/safesearch"
)

type verifClock2 struct{}

func (verifClock2) Now() time.Time { return time.Unix(1_700_000_000, 0) }

var _ agdtime.Clock = verifClock2{}

// VerifC02Assembly: the filter assembled for a profile or filtering group consists of
// exactly the enabled parts of its configuration, each in its own slot, with the
// shared rule lists in their configured order (the order decides which $dnsrewrite
// wins) and unknown list IDs skipped.
//
//verif:harness name=H02d-assembly tier=quick,thorough bounds="3 known rule lists; configured ID sequence of 0..3 entries drawn from the 3 known IDs and one unknown ID, in any order; rule lists, parental control (adult, two safe-search kinds), safe browsing (dangerous, newly registered) each enabled or not" reach=done,reordered,unknown-skipped maxpaths=100000
//verif:assume blocked services and the pause schedule are not configured
func VerifC02Assembly() {
	cache := rulelist.ResultCacheEmpty{}
	ids := []filter.ID{"zz_list", "aa_list", "mm_list", "unknown_list"}
	lists := map[filter.ID]*rulelist.Refreshable{}
	for _, id := range ids[:3] {
		rl, err := rulelist.NewFromString("||"+string(id)+".example^\n", id, "", cache)
		verifAssume(err == nil)
		lists[id] = rl
	}
	s := &Default{
		ruleListsMu:       &sync.RWMutex{},
		ruleLists:         lists,
		clock:             verifClock2{},
		adult:             &hashprefix.Filter{},
		dangerous:         &hashprefix.Filter{},
		newlyRegistered:   &hashprefix.Filter{},
		safeSearchGeneral: &safesearch.Filter{},
		safeSearchYouTube: &safesearch.Filter{},
	}
	n := verifChoice(4)
	var conf []filter.ID
	used := [4]bool{}
	for i := 0; i < n; i++ {
		k := verifChoice(4)
		verifAssume(!used[k])
		used[k] = true
		conf = append(conf, ids[k])
	}
	rlEnabled := verifChoice(2) == 1
	par := &filter.ConfigParental{Enabled: verifChoice(2) == 1, AdultBlockingEnabled: verifChoice(2) == 1, SafeSearchGeneralEnabled: verifChoice(2) == 1, SafeSearchYouTubeEnabled: verifChoice(2) == 1}
	sb := &filter.ConfigSafeBrowsing{Enabled: verifChoice(2) == 1, DangerousDomainsEnabled: verifChoice(2) == 1, NewlyRegisteredDomainsEnabled: verifChoice(2) == 1}

	cc := &composite.Config{}
	s.setParental(context.Background(), cc, par)
	s.setRuleLists(cc, &filter.ConfigRuleList{IDs: conf, Enabled: rlEnabled})
	s.setSafeBrowsing(cc, sb)

	var want []*rulelist.Refreshable
	if rlEnabled {
		for _, id := range conf {
			if rl := lists[id]; rl != nil {
				want = append(want, rl)
			} else {
				verifReach("unknown-skipped")
			}
		}
	}
	same := len(cc.RuleLists) == len(want)
	for i := 0; same && i < len(want); i++ {
		same = cc.RuleLists[i] == want[i]
	}
	verifAssert("rule-lists-are-the-configured-ones-in-configured-order", same)
	if len(want) >= 2 && want[0].URLFilterID() != 0 && string(conf[0]) > string(conf[1]) {
		verifReach("reordered")
	}
	verifAssert("adult-blocking-slot", (cc.AdultBlocking == s.adult) == (par.Enabled && par.AdultBlockingEnabled) && (cc.AdultBlocking == nil || cc.AdultBlocking == s.adult))
	verifAssert("general-safe-search-slot", (cc.GeneralSafeSearch == s.safeSearchGeneral) == (par.Enabled && par.SafeSearchGeneralEnabled) && (cc.GeneralSafeSearch == nil || cc.GeneralSafeSearch == s.safeSearchGeneral))
	verifAssert("youtube-safe-search-slot", (cc.YouTubeSafeSearch == s.safeSearchYouTube) == (par.Enabled && par.SafeSearchYouTubeEnabled) && (cc.YouTubeSafeSearch == nil || cc.YouTubeSafeSearch == s.safeSearchYouTube))
	verifAssert("dangerous-domains-slot", (cc.SafeBrowsing == s.dangerous) == (sb.Enabled && sb.DangerousDomainsEnabled) && (cc.SafeBrowsing == nil || cc.SafeBrowsing == s.dangerous))
	verifAssert("newly-registered-slot", (cc.NewRegisteredDomains == s.newlyRegistered) == (sb.Enabled && sb.NewlyRegisteredDomainsEnabled) && (cc.NewRegisteredDomains == nil || cc.NewRegisteredDomains == s.newlyRegistered))
	verifAssert("no-service-lists-without-blocked-services", len(cc.ServiceLists) == 0)
	verifReach("done")
}
