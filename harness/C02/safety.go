package hashprefix

//verif:pkg internal/filter/hashprefix

import (
	"context"
	"net/netip"
	"net/url"
	"time"

	"github.com/AdguardTeam/AdGuardDNS/internal/agdcache"
	"github.com/AdguardTeam/AdGuardDNS/internal/dnsmsg"
	"github.com/AdguardTeam/AdGuardDNS/internal/filter/internal"
	"github.com/AdguardTeam/golibs/logutil/slogutil"
	"github.com/miekg/dns"
)

// verifSafetyCache is a result cache honouring the agdcache.Interface contract.
type verifSafetyCache struct {
	keys []internal.CacheKey
	vals []*cacheItem
}

func (c *verifSafetyCache) Set(k internal.CacheKey, v *cacheItem) {
	for i := range c.keys {
		if c.keys[i] == k {
			c.vals[i] = v
			return
		}
	}
	c.keys, c.vals = append(c.keys, k), append(c.vals, v)
}
func (c *verifSafetyCache) SetWithExpire(k internal.CacheKey, v *cacheItem, _ time.Duration) {
	c.Set(k, v)
}
func (c *verifSafetyCache) Get(k internal.CacheKey) (*cacheItem, bool) {
	for i := range c.keys {
		if c.keys[i] == k {
			return c.vals[i], true
		}
	}
	return nil, false
}
func (c *verifSafetyCache) Clear()   { c.keys, c.vals = nil, nil }
func (c *verifSafetyCache) Len() int { return len(c.keys) }

type verifSafetyErrColl struct{}

func (verifSafetyErrColl) Collect(context.Context, error) {}

// VerifC02SafetyShape: a verdict of a safety (hash-prefix) filter with an IP
// replacement is answered in the shape of the asking profile, also when the filter
// has answered the same question for another profile before: the profile's own TTL on
// every record, its own blocking mode for question types that have no replacement
// address, its own ID and question.
//
//verif:harness name=H02e-safety-shape tier=quick,thorough bounds="one listed host; 1..2 earlier requests of another profile (mode and TTL chosen independently) for the same host; question types A, AAAA, HTTPS; blocking modes null-IP, NXDOMAIN, REFUSED; TTL 10 s or 300 s; symbolic IDs" reach=done,address-replaced,blocked-by-mode maxpaths=100000
//verif:assume the result cache is a stub honouring the agdcache contract; SHA-256 computed for the concrete host name
func VerifC02SafetyShape() {
	hashes, err := NewStorage("bad.example\n")
	verifAssume(err == nil)
	f, err := NewFilter(&FilterConfig{
		Logger:          slogutil.NewDiscardLogger(),
		Cloner:          dnsmsg.NewCloner(dnsmsg.EmptyClonerStat{}),
		CacheManager:    agdcache.EmptyManager{},
		Hashes:          hashes,
		URL:             &url.URL{Scheme: "http", Host: "lists.example", Path: "/sb"},
		ErrColl:         verifSafetyErrColl{},
		Metrics:         internal.EmptyMetrics{},
		ID:              internal.IDAdultBlocking,
		CachePath:       "/nonexistent/verif",
		ReplacementHost: "203.0.113.1",
		Staleness:       time.Hour,
		CacheTTL:        time.Hour,
		RefreshTimeout:  time.Second,
		CacheCount:      16,
		MaxSize:         1 << 20,
	})
	verifAssume(err == nil)
	f.resCache = &verifSafetyCache{}

	modes := []dnsmsg.BlockingMode{&dnsmsg.BlockingModeNullIP{}, &dnsmsg.BlockingModeNXDOMAIN{}, &dnsmsg.BlockingModeREFUSED{}}
	rcodes := []int{dns.RcodeSuccess, dns.RcodeNameError, dns.RcodeRefused}
	ttls := []uint32{10, 300}
	qts := []uint16{dns.TypeA, dns.TypeAAAA, dns.TypeHTTPS}
	ctx := context.Background()
	ask := func(mode, ttl int, qt uint16) (req *dns.Msg, r internal.Result) {
		msgs, cerr := dnsmsg.NewConstructor(&dnsmsg.ConstructorConfig{
			Cloner:              dnsmsg.NewCloner(dnsmsg.EmptyClonerStat{}),
			BlockingMode:        modes[mode],
			StructuredErrors:    &dnsmsg.StructuredDNSErrorsConfig{Enabled: false},
			FilteredResponseTTL: time.Duration(ttls[ttl]) * time.Second,
		})
		verifAssume(cerr == nil)
		req = &dns.Msg{}
		req.SetQuestion("bad.example.", qt)
		req.Id = nondetU16()
		r, ferr := f.FilterRequest(ctx, &internal.Request{DNS: req, Messages: msgs, Host: "bad.example", QType: qt, QClass: dns.ClassINET,
			RemoteIP: netip.AddrFrom4([4]byte{192, 0, 2, 1})})
		verifAssert("no-error", ferr == nil)
		return req, r
	}

	qt := qts[verifChoice(3)]
	// earlier requests of another profile
	for n := verifChoice(2) + 1; n > 0; n-- {
		_, _ = ask(verifChoice(3), verifChoice(2), qt)
	}
	mode, ttl := verifChoice(3), verifChoice(2)
	req, r := ask(mode, ttl, qt)

	res, ok := r.(*internal.ResultModifiedResponse)
	verifAssert("listed-host-gets-a-modified-response", ok && res != nil && res.Msg != nil)
	if !ok || res == nil || res.Msg == nil {
		return
	}
	m := res.Msg
	verifAssert("answer-is-for-this-request", m.Id == req.Id && m.Response && len(m.Question) == 1 && m.Question[0] == req.Question[0])
	for _, rr := range m.Answer {
		verifAssert("records-carry-the-asking-profile's-ttl", rr.Header().Ttl == ttls[ttl])
	}
	for _, rr := range m.Ns {
		verifAssert("records-carry-the-asking-profile's-ttl", rr.Header().Ttl == ttls[ttl])
	}
	switch qt {
	case dns.TypeA:
		a, isA := (dns.RR)(nil), false
		if len(m.Answer) == 1 {
			a = m.Answer[0]
			_, isA = a.(*dns.A)
		}
		verifAssert("address-question-answered-with-the-replacement-address", m.Rcode == dns.RcodeSuccess && isA && a.(*dns.A).A.Equal([]byte{203, 0, 113, 1}))
		verifReach("address-replaced")
	case dns.TypeAAAA:
		// the replacement host has no address of this family: an empty answer
		verifAssert("no-address-of-the-other-family", len(m.Answer) == 0)
	default:
		verifAssert("other-question-blocked-in-the-asking-profile's-mode", m.Rcode == rcodes[mode] && len(m.Answer) == 0)
		verifReach("blocked-by-mode")
	}
	verifReach("done")
}
