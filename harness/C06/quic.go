package dnsserver

//verif:pkg internal/dnsserver

import (
	"context"
	"io"
	"time"

	"github.com/AdguardTeam/golibs/syncutil"
	"github.com/miekg/dns"
	"github.com/quic-go/quic-go"
)

// verifStream delivers a fixed byte string in one or two chunks.
type verifStream struct {
	quic.Stream
	data  []byte
	pos   int
	split int
	// sizes, if set, are the chunk sizes of consecutive reads (cycled)
	sizes []int
	reads int
}

func (s *verifStream) Read(p []byte) (n int, err error) {
	if s.pos >= len(s.data) {
		return 0, io.EOF
	}
	end := len(s.data)
	if s.pos < s.split {
		end = s.split
	}
	if len(s.sizes) > 0 {
		if e := s.pos + s.sizes[s.reads%len(s.sizes)]; e < end {
			end = e
		}
		s.reads++
	}
	n = copy(p, s.data[s.pos:end])
	s.pos += n
	return n, nil
}

func (s *verifStream) SetReadDeadline(t time.Time) error { return nil }

// verifBodyByte constrains a message body byte to the harness alphabet: 0..3 (label
// lengths, terminator, small type/class values) or a lower-case letter.
func verifBodyByte() byte {
	b := nondetU8()
	verifAssume(verifOr(b <= 3, verifAnd(b >= 'a', b <= 'z')))
	return b
}

// verifWireMsg returns a symbolic wire message of n bytes: a fully symbolic header
// whose section counts are at most 2 / 0 / 0 / 0 and a body over the harness alphabet.
func verifWireMsg(n int) []byte {
	m := make([]byte, n)
	for i := 0; i < n && i < 12; i++ {
		m[i] = nondetU8()
	}
	if n >= 12 {
		verifAssume(m[4] == 0)
		verifAssume(m[5] <= 2)
		for i := 6; i < 12; i++ {
			verifAssume(m[i] == 0)
		}
	}
	for i := 12; i < n; i++ {
		m[i] = verifBodyByte()
	}
	return m
}

func verifNewQUIC() *ServerQUIC {
	return &ServerQUIC{
		ServerBase: newServerBase(ProtoDoQ, ConfigBase{}),
		reqPool:    syncutil.NewSlicePool[byte](quicBytePoolSize),
		respPool:   syncutil.NewSlicePool[byte](quicBytePoolSize),
	}
}

// verifSameMsg asserts that two decode results are indistinguishable.
func verifSameMsg(tag string, m1 *dns.Msg, e1 error, m2 *dns.Msg, e2 error) {
	verifAssert(tag+"-same-accept-or-reject", (e1 == nil) == (e2 == nil))
	if e1 != nil || e2 != nil {
		return
	}
	verifAssert(tag+"-same-header", m1.MsgHdr == m2.MsgHdr)
	verifAssert(tag+"-same-question-count", len(m1.Question) == len(m2.Question))
	if len(m1.Question) != len(m2.Question) {
		return
	}
	for i := range m1.Question {
		verifAssert(tag+"-same-question", m1.Question[i] == m2.Question[i])
	}
	verifAssert(tag+"-same-record-counts", len(m1.Answer) == len(m2.Answer) && len(m1.Ns) == len(m2.Ns) && len(m1.Extra) == len(m2.Extra))
}

// VerifC06QUIC: a DoQ message is decoded by a server whose receive buffer holds
// arbitrary bytes of earlier traffic exactly as by a freshly started server.
//
//verif:harness name=H06a-quic tier=quick bounds="length-prefixed message of 12..16 bytes (header symbolic with QDCOUNT<=2, other counts 0; body bytes in {0..3} or a-z), delivered in 1 or 2 chunks or in many reads of 5,1,5,1.. / 1,7,1,7.. bytes; the pooled buffer holds 6 arbitrary stale bytes (same alphabet) after the message, zeros elsewhere" reach=decoded,rejected maxpaths=100000 fanout=70
//verif:assume sync.Pool hands the most recently released buffer back (LIFO), which is what makes stale bytes visible; stale bytes beyond 8 positions are zero
func VerifC06QUIC() { verifC06QUIC(12, 16, 6) }

// VerifC06QUICThorough widens the message length.
//
//verif:harness name=H06a-quic-long tier=thorough bounds="as H06a-quic with message length 12..17 and 8 stale bytes" reach=decoded,rejected maxpaths=2000000 fanout=70
//verif:assume sync.Pool hands the most recently released buffer back (LIFO); stale bytes beyond 8 positions are zero
func VerifC06QUICThorough() { verifC06QUIC(12, 17, 8) }

func verifC06QUIC(lo, hi, nstale int) {
	verifPoolMode(1)
	n := lo + verifChoice(hi-lo+1)
	msg := verifWireMsg(n)
	framed := make([]byte, 2+n)
	framed[0], framed[1] = byte(n>>8), byte(n)
	copy(framed[2:], msg)
	split := 0
	var sizes []int
	switch verifChoice(4) {
	case 1:
		split = 1 + verifChoice(2) // inside the length prefix or right after it
	case 2:
		sizes = []int{5, 1} // many small reads
	case 3:
		sizes = []int{1, 7}
	}

	// warm server: the pooled request buffer carries stale bytes of earlier traffic
	warm := verifNewQUIC()
	bp := warm.reqPool.Get()
	stale := (*bp)[:quicBytePoolSize]
	for i := 0; i < nstale; i++ {
		stale[2+n+i] = verifBodyByte()
	}
	warm.reqPool.Put(bp)
	ctx := context.Background()
	mWarm, eWarm := warm.readQUICMsg(ctx, &verifStream{data: framed, split: split, sizes: sizes})

	fresh := verifNewQUIC()
	mFresh, eFresh := fresh.readQUICMsg(ctx, &verifStream{data: framed, split: split, sizes: sizes})

	verifSameMsg("doq", mWarm, eWarm, mFresh, eFresh)
	// and both decode the message's own bytes, however the stream was chunked
	ref := &dns.Msg{}
	refErr := ref.Unpack(msg)
	verifSameMsg("doq-own-bytes", mFresh, eFresh, ref, refErr)
	if eFresh == nil {
		verifReach("decoded")
	} else {
		verifReach("rejected")
	}
}
