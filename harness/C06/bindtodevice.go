//go:build linux

package bindtodevice

//verif:pkg internal/bindtodevice

import (
	"github.com/miekg/dns"
)

// VerifC06BindToDevice: datagrams received through an interface listener (the
// bind-to-device receive path) and still waiting in the session queue are each decoded
// from their own bytes, whatever the listener reads after them: a pooled datagram
// buffer is not reused while its session has not been consumed.
//
//verif:harness name=H06h-bind-to-device tier=quick,thorough bounds="2..3 datagrams of different clients (symbolic IDs, names of different lengths) read by interfaceListener.readUDP one after another, then consumed from the chanPacketConn in order and answered; then a longer datagram; the buffer pool hands released buffers back" reach=done,three maxpaths=20000 switches=0
//verif:assume symbolic build: readPacketSession (recvmsg + control-message parsing) is a stub that fills the buffer it is given; native replay uses a loopback UDP socket with IP_RECVORIGDSTADDR
func VerifC06BindToDevice() {
	verifPoolMode(1)
	env := verifNewBTDEnv()
	defer env.close()
	names := []string{"alpha-of-client-a.example.", "b.example.", "third-client.example.org."}
	qts := []uint16{dns.TypeA, dns.TypeAAAA, dns.TypeTXT}
	n := 2 + verifChoice(2)
	var ids [3]uint16
	for i := 0; i < n; i++ {
		q := &dns.Msg{}
		q.SetQuestion(names[i], qts[i])
		ids[i] = nondetU16()
		q.Id = ids[i]
		b, err := q.Pack()
		verifAssume(err == nil)
		verifAssert("datagram-read", env.deliver(i, b) == nil)
	}
	for i := 0; i < n; i++ {
		buf := make([]byte, 512)
		k, port, err := env.consume(buf)
		verifAssert("session-consumed", err == nil)
		if err != nil {
			return
		}
		m := &dns.Msg{}
		verifAssert("queued-datagram-decodes", m.Unpack(buf[:k]) == nil)
		verifAssert("queued-session-belongs-to-its-sender", port == env.clientPort(i))
		verifAssert("queued-datagram-carries-its-own-id-and-question", m.Id == ids[i] && len(m.Question) == 1 && m.Question[0].Name == names[i] && m.Question[0].Qtype == qts[i])
	}
	// the sessions are answered, which gives their buffers back to the pool; a longer
	// query arriving afterwards is received whole
	for i := 0; i < n; i++ {
		verifAssert("response-written", env.respond(i) == nil)
	}
	long := &dns.Msg{}
	long.SetQuestion("a-much-longer-name-than-before.example.org.", dns.TypeHTTPS)
	long.Id = nondetU16()
	long.SetEdns0(1232, true)
	lb, lerr := long.Pack()
	verifAssume(lerr == nil)
	verifAssert("datagram-read", env.deliver(0, lb) == nil)
	buf := make([]byte, 512)
	k, _, cerr := env.consume(buf)
	verifAssert("session-consumed", cerr == nil)
	m := &dns.Msg{}
	verifAssert("longer-datagram-after-a-recycled-buffer-is-received-whole", cerr == nil && k == len(lb) && m.Unpack(buf[:k]) == nil && m.Id == long.Id && len(m.Question) == 1 && m.Question[0].Name == long.Question[0].Name && m.IsEdns0() != nil)
	if n == 3 {
		verifReach("three")
	}
	verifReach("done")
}
