//go:build linux

package bindtodevice

//verif:pkg internal/bindtodevice
//verif:stub github.com/AdguardTeam/AdGuardDNS/internal/bindtodevice.readPacketSession verifReadPacketSession
//verif:stub (*net.UDPConn).WriteMsgUDP verifWriteMsgUDP

import (
	"context"
	"net"
	"net/netip"

	"github.com/AdguardTeam/AdGuardDNS/internal/dnsserver/netext"
	"github.com/AdguardTeam/golibs/logutil/slogutil"
	"github.com/AdguardTeam/golibs/syncutil"
)

type verifBTDEnv struct {
	l        *interfaceListener
	c        *chanPacketConn
	sessions []*packetSession
}

type verifObs struct{}

func (verifObs) Observe(float64) {}

func verifWriteMsgUDP(c *net.UDPConn, b, oob []byte, addr *net.UDPAddr) (int, int, error) {
	return len(b), len(oob), nil
}

// the datagram the ghost socket delivers next
var (
	verifNextPkt  []byte
	verifNextPort int
)

func verifReadPacketSession(c msgUDPReader, body, oob []byte) (*packetSession, error) {
	n := copy(body, verifNextPkt)
	return &packetSession{
		laddr:    &net.UDPAddr{IP: net.IP{127, 0, 0, 1}, Port: 53},
		raddr:    &net.UDPAddr{IP: net.IP{127, 0, 0, 1}, Port: verifNextPort},
		readBody: body[:n],
	}, nil
}

func verifNewBTDEnv() *verifBTDEnv {
	sessions := make(chan *packetSession, 8)
	writeRequests := make(chan *packetConnWriteReq, 8)
	c := newChanPacketConn(sessions, netip.MustParsePrefix("127.0.0.0/8"), writeRequests, nil, &net.UDPAddr{IP: net.IP{127, 0, 0, 1}, Port: 53})
	conns := &connIndex{}
	verifAssume(conns.addPacketConn(c) == nil)
	l := &interfaceListener{
		logger:        slogutil.NewDiscardLogger(),
		conns:         conns,
		bodyPool:      syncutil.NewSlicePool[byte](512),
		oobPool:       syncutil.NewSlicePool[byte](netext.IPDstOOBSize),
		writeRequests: writeRequests,
		writeDurationHist: verifObs{},
		done:          make(chan unit),
		ifaceName:     "lo",
		port:          53,
	}
	return &verifBTDEnv{l: l, c: c}
}

func (e *verifBTDEnv) close()                 {}
func (e *verifBTDEnv) clientPort(i int) int   { return 5000 + i }
func (e *verifBTDEnv) deliver(i int, pkt []byte) error {
	verifNextPkt, verifNextPort = pkt, 5000+i
	return e.l.readUDP(context.Background(), e.l.logger, nil)
}

func (e *verifBTDEnv) consume(buf []byte) (n, port int, err error) {
	n, sess, err := e.c.ReadFromSession(buf)
	if err != nil {
		return 0, 0, err
	}
	e.sessions = append(e.sessions, sess.(*packetSession))
	return n, sess.RemoteAddr().(*net.UDPAddr).Port, nil
}

// respond answers the i-th consumed session through the listener's write path.
func (e *verifBTDEnv) respond(i int) error {
	resp := &packetConnWriteResp{}
	e.l.writeToUDPConn(nil, &packetConnWriteReq{session: e.sessions[i], body: []byte{0, 0, 0x80, 0, 0, 0, 0, 0, 0, 0, 0, 0}}, resp)
	return resp.err
}
