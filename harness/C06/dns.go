package dnsserver

//verif:pkg internal/dnsserver
//verif:noop github.com/AdguardTeam/AdGuardDNS/internal/dnsserver.newPoolNonblocking
//verif:stub (*github.com/panjf2000/ants/v2.Pool).Submit verifAntsSubmit

import (
	"context"
	"io"
	"net"
	"sync"
	"time"

	"github.com/AdguardTeam/golibs/syncutil"
	"github.com/miekg/dns"
	"github.com/panjf2000/ants/v2"
)

// verifAsyncWorkers makes the worker-pool stub run tasks as separate threads.
var verifAsyncWorkers bool

// verifAntsSubmit replaces the worker pool in the symbolic build: the task runs inline
// or, with verifAsyncWorkers, as a thread of its own (like a pool worker).
func verifAntsSubmit(p *ants.Pool, task func()) error {
	if verifAsyncWorkers {
		go task()
		return nil
	}
	task()
	return nil
}

// verifRecorder is a handler that records what the server decoded.
type verifRecorder struct {
	mu    sync.Mutex
	calls int
	req   *dns.Msg
}

func (h *verifRecorder) ServeDNS(ctx context.Context, rw ResponseWriter, req *dns.Msg) error {
	h.mu.Lock()
	defer h.mu.Unlock()
	h.calls++
	h.req = req.Copy()
	return nil
}

func (h *verifRecorder) result() (*dns.Msg, error) {
	h.mu.Lock()
	defer h.mu.Unlock()
	if h.calls == 0 {
		return nil, io.ErrUnexpectedEOF
	}
	return h.req, nil
}

type verifPacketConn struct {
	net.PacketConn
	data    []byte
	written [][]byte
}

func (c *verifPacketConn) ReadFrom(b []byte) (int, net.Addr, error) {
	return copy(b, c.data), &net.UDPAddr{IP: net.IP{192, 0, 2, 7}, Port: 5353}, nil
}
func (c *verifPacketConn) SetReadDeadline(t time.Time) error  { return nil }
func (c *verifPacketConn) SetWriteDeadline(t time.Time) error { return nil }
func (c *verifPacketConn) WriteTo(b []byte, a net.Addr) (int, error) {
	c.written = append(c.written, append([]byte(nil), b...))
	return len(b), nil
}
func (c *verifPacketConn) LocalAddr() net.Addr {
	return &net.UDPAddr{IP: net.IP{192, 0, 2, 1}, Port: 53}
}

type verifTCPConn struct {
	net.Conn
	data    []byte
	pos     int
	split   int
	written [][]byte
}

func (c *verifTCPConn) Read(p []byte) (n int, err error) {
	if c.pos >= len(c.data) {
		return 0, io.EOF
	}
	end := len(c.data)
	if c.pos < c.split {
		end = c.split
	}
	n = copy(p, c.data[c.pos:end])
	c.pos += n
	return n, nil
}
func (c *verifTCPConn) SetReadDeadline(t time.Time) error  { return nil }
func (c *verifTCPConn) SetWriteDeadline(t time.Time) error { return nil }
func (c *verifTCPConn) Write(b []byte) (int, error) {
	c.written = append(c.written, append([]byte(nil), b...))
	return len(b), nil
}
func (c *verifTCPConn) Close() error                      { return nil }
func (c *verifTCPConn) LocalAddr() net.Addr {
	return &net.TCPAddr{IP: net.IP{192, 0, 2, 1}, Port: 53}
}
func (c *verifTCPConn) RemoteAddr() net.Addr {
	return &net.TCPAddr{IP: net.IP{192, 0, 2, 7}, Port: 5353}
}

func verifNewDNS(h Handler, bufSize int) *ServerDNS {
	return &ServerDNS{
		ServerBase: newServerBase(ProtoDNS, ConfigBase{Handler: h}),
		workerPool: newPoolNonblocking(),
		udpPool:    syncutil.NewSlicePool[byte](bufSize),
		tcpPool:    syncutil.NewSlicePool[byte](bufSize),
		respPool:   syncutil.NewSlicePool[byte](dns.MinMsgSize),
		tcpConns:   map[net.Conn]struct{}{},
		tcpConnsMu: &sync.Mutex{},
		conf:       ConfigDNS{ReadTimeout: time.Second, WriteTimeout: time.Second, TCPIdleTimeout: time.Second},
	}
}

// VerifC06UDP: a UDP datagram is decoded by a server whose pooled receive buffer
// holds arbitrary earlier bytes exactly as by a fresh server.
//
//verif:harness name=H06c-udp tier=quick bounds="datagram of 12..17 bytes (header symbolic with QDCOUNT<=2, other counts 0; body bytes in {0..3} or a-z); 64-byte pooled buffer holding 6 arbitrary stale bytes after the datagram" reach=decoded,rejected maxpaths=100000 fanout=70
//verif:assume sync.Pool hands the most recently released buffer back (LIFO); the worker pool runs the task inline; pool buffer 64 bytes instead of the configured size
func VerifC06UDP() { verifC06UDP(12, 17, 6) }

// VerifC06UDPLong is the thorough variant.
//
//verif:harness name=H06c-udp-long tier=thorough bounds="as H06c-udp with 12..19 bytes and 8 stale bytes" reach=decoded,rejected maxpaths=2000000 fanout=70
func VerifC06UDPLong() { verifC06UDP(12, 19, 8) }

func verifC06UDP(lo, hi, nstale int) {
	verifPoolMode(1)
	n := lo + verifChoice(hi-lo+1)
	msg := verifWireMsg(n)
	ctx := context.Background()

	hw := &verifRecorder{}
	warm := verifNewDNS(hw, 64)
	bp := warm.udpPool.Get()
	for i := 0; i < nstale; i++ {
		(*bp)[n+i] = verifBodyByte()
	}
	warm.udpPool.Put(bp)
	_ = warm.acceptUDPMsg(ctx, &verifPacketConn{data: msg})
	warm.wg.Wait()

	hf := &verifRecorder{}
	fresh := verifNewDNS(hf, 64)
	_ = fresh.acceptUDPMsg(ctx, &verifPacketConn{data: msg})
	fresh.wg.Wait()

	mw, ew := hw.result()
	mf, ef := hf.result()
	verifSameMsg("udp", mw, ew, mf, ef)
	if ef == nil {
		verifReach("decoded")
	} else {
		verifReach("rejected")
	}
}

// VerifC06TCP: same for a length-prefixed TCP/DoT message.
//
//verif:harness name=H06d-tcp tier=quick bounds="framed message of 12..15 bytes (as H06c-udp), delivered in 1 or 2 chunks; pooled buffer of 64 or 14 bytes (smaller than some messages) holding arbitrary stale bytes, left at length 8/14/48 by the previous message" reach=decoded,rejected maxpaths=100000 fanout=70
//verif:assume sync.Pool hands the most recently released buffer back (LIFO); the worker pool runs the task inline
func VerifC06TCP() { verifC06TCP(12, 15, 24) }

// VerifC06TCPLong is the thorough variant.
//
//verif:harness name=H06d-tcp-long tier=thorough bounds="as H06d-tcp with 12..17 bytes" reach=decoded,rejected maxpaths=2000000 fanout=70
func VerifC06TCPLong() { verifC06TCP(12, 17, 28) }

func verifC06TCP(lo, hi, nstale int) {
	verifPoolMode(1)
	n := lo + verifChoice(hi-lo+1)
	msg := verifWireMsg(n)
	data := append([]byte{byte(n >> 8), byte(n)}, msg...)
	split := 0
	if verifChoice(2) == 1 {
		split = 1 + verifChoice(3)
	}

	run := func(s *ServerDNS) {
		wg := &sync.WaitGroup{}
		_ = s.acceptTCPMsg(&verifTCPConn{data: data, split: split}, wg, &sync.Mutex{}, time.Second, syncutil.EmptySemaphore{})
		wg.Wait()
	}

	// the pool's buffers may be smaller than the message (they are grown on demand)
	bufSize := []int{64, 14}[verifChoice(2)]
	hw := &verifRecorder{}
	warm := verifNewDNS(hw, bufSize)
	bp := warm.tcpPool.Get()
	for i := 0; i < nstale && i < bufSize; i++ {
		(*bp)[i] = verifBodyByte()
	}
	// an earlier, longer or shorter message leaves the slice with another length
	prevLen := []int{8, 14, 48}[verifChoice(3)]
	if prevLen > bufSize {
		prevLen = bufSize
	}
	*bp = (*bp)[:prevLen]
	warm.tcpPool.Put(bp)
	run(warm)

	hf := &verifRecorder{}
	fresh := verifNewDNS(hf, bufSize)
	run(fresh)

	mw, ew := hw.result()
	mf, ef := hf.result()
	verifSameMsg("tcp", mw, ew, mf, ef)
	if ef == nil {
		verifReach("decoded")
	} else {
		verifReach("rejected")
	}
}
