package dnsserver

//verif:pkg internal/dnsserver

import (
	"bytes"
	"io"
	"net/http"
	"net/url"
)

// VerifC06DoHBody: the bytes of a DoH POST body handed to the decoder belong to that
// request alone: reading a later request's body does not change them (they are
// decoded only afterwards, in serveDNS), and they are exactly the body sent.
//
//verif:harness name=H06f-doh-body tier=quick,thorough bounds="two consecutive POST bodies of 12..14 and 12..16 symbolic bytes read by httpRequestToMsg before the first is decoded; released pool buffers are handed back" reach=done
//verif:assume sync.Pool hands the most recently released buffer back
func VerifC06DoHBody() {
	verifPoolMode(1)
	mk := func(n int) (*http.Request, []byte) {
		b := make([]byte, n)
		for i := range b {
			b[i] = nondetU8()
		}
		r := &http.Request{Method: http.MethodPost, URL: &url.URL{Path: "/dns-query"}, Header: http.Header{}, Body: io.NopCloser(bytes.NewReader(b))}
		return r, b
	}
	ra, wantA := mk(12 + verifChoice(3))
	rb, wantB := mk(12 + verifChoice(5))
	gotA, errA := httpRequestToMsg(ra)
	verifAssert("first-body-read", errA == nil && len(gotA) == len(wantA))
	gotB, errB := httpRequestToMsg(rb)
	verifAssert("second-body-read", errB == nil && len(gotB) == len(wantB))
	if len(gotA) == len(wantA) {
		same := true
		for i := range wantA {
			same = verifAnd(same, gotA[i] == wantA[i])
		}
		verifAssert("first-request's-bytes-unchanged-by-the-second", same)
	}
	if len(gotB) == len(wantB) {
		same := true
		for i := range wantB {
			same = verifAnd(same, gotB[i] == wantB[i])
		}
		verifAssert("second-request's-bytes-are-its-own", same)
	}
	verifReach("done")
}
