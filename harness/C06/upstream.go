package forward

//verif:pkg internal/dnsserver/forward

import (
	"io"
	"net"

	"github.com/miekg/dns"
)

// verifConn delivers a fixed byte string (TCP: stream semantics in up to two chunks; UDP: one datagram).
type verifConn struct {
	net.Conn
	data  []byte
	pos   int
	split int
}

func (c *verifConn) Read(p []byte) (n int, err error) {
	if c.pos >= len(c.data) {
		return 0, io.EOF
	}
	end := len(c.data)
	if c.pos < c.split {
		end = c.split
	}
	n = copy(p, c.data[c.pos:end])
	c.pos += n
	return n, nil
}

func verifBodyByte() byte {
	b := nondetU8()
	verifAssume(verifOr(b <= 3, verifAnd(b >= 'a', b <= 'z')))
	return b
}

func verifWireMsg(n int) []byte {
	m := make([]byte, n)
	for i := 0; i < n && i < 12; i++ {
		m[i] = nondetU8()
	}
	verifAssume(m[4] == 0)
	verifAssume(m[5] <= 2)
	for i := 6; i < 12; i++ {
		verifAssume(m[i] == 0)
	}
	for i := 12; i < n; i++ {
		m[i] = verifBodyByte()
	}
	return m
}

func verifSameMsg(tag string, m1 *dns.Msg, e1 error, m2 *dns.Msg, e2 error) {
	verifAssert(tag+"-same-accept-or-reject", (e1 == nil) == (e2 == nil))
	if e1 != nil || e2 != nil {
		return
	}
	verifAssert(tag+"-same-header", m1.MsgHdr == m2.MsgHdr)
	verifAssert(tag+"-same-question-count", len(m1.Question) == len(m2.Question))
	if len(m1.Question) != len(m2.Question) {
		return
	}
	for i := range m1.Question {
		verifAssert(tag+"-same-question", m1.Question[i] == m2.Question[i])
	}
	verifAssert(tag+"-same-record-counts", len(m1.Answer) == len(m2.Answer) && len(m1.Ns) == len(m2.Ns) && len(m1.Extra) == len(m2.Extra))
}

// VerifC06Upstream: an upstream reply (UDP datagram or TCP frame) is decoded from a
// buffer holding arbitrary earlier bytes exactly as from a zeroed buffer.
//
//verif:harness name=H06b-upstream tier=quick bounds="reply of 17 bytes (header symbolic with QDCOUNT<=2, other counts 0; body bytes in {0..3} or a-z) over UDP or TCP (1 or 2 chunks); 64-byte receive buffer with 6 arbitrary stale bytes after the reply" reach=decoded,rejected maxpaths=100000 fanout=70
//verif:assume the receive buffer is 64 bytes (the real pool buffers are larger; only bytes after the reply matter); stale bytes beyond 6 positions are zero
func VerifC06Upstream() { verifC06Upstream(17, 17, 6) }

// VerifC06UpstreamLong is the thorough variant.
//
//verif:harness name=H06b-upstream-long tier=thorough bounds="as H06b-upstream with replies of 17..18 bytes and 8 stale bytes" reach=decoded,rejected maxpaths=2000000 fanout=70
func VerifC06UpstreamLong() { verifC06Upstream(17, 18, 8) }

func verifC06Upstream(lo, hi, nstale int) {
	network := NetworkUDP
	if verifChoice(2) == 1 {
		network = NetworkTCP
	}
	n := lo + verifChoice(hi-lo+1)
	msg := verifWireMsg(n)
	data := msg
	split := 0
	if network == NetworkTCP {
		data = append([]byte{byte(n >> 8), byte(n)}, msg...)
		if verifChoice(2) == 1 {
			split = 2 + verifChoice(3)
		}
	}
	u := &UpstreamPlain{}
	warm := make([]byte, 64)
	for i := 0; i < nstale; i++ {
		warm[n+i] = verifBodyByte()
	}
	fresh := make([]byte, 64)
	mWarm, eWarm := u.readMsg(network, &verifConn{data: data, split: split}, warm)
	mFresh, eFresh := u.readMsg(network, &verifConn{data: data, split: split}, fresh)
	verifSameMsg("upstream", mWarm, eWarm, mFresh, eFresh)
	// and both decode the reply's own bytes
	ref := &dns.Msg{}
	refErr := ref.Unpack(msg)
	verifSameMsg("upstream-own-bytes", mFresh, eFresh, ref, refErr)
	if eFresh == nil {
		verifReach("decoded")
	} else {
		verifReach("rejected")
	}
}
