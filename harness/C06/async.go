package dnsserver

//verif:pkg internal/dnsserver

import (
	"context"
	"sync"

	"github.com/miekg/dns"
)

// verifMultiRecorder records every decoded request.
type verifMultiRecorder struct {
	mu   sync.Mutex
	reqs []*dns.Msg
}

func (h *verifMultiRecorder) ServeDNS(ctx context.Context, rw ResponseWriter, req *dns.Msg) error {
	h.mu.Lock()
	h.reqs = append(h.reqs, req.Copy())
	h.mu.Unlock()
	resp := (&dns.Msg{}).SetReply(req)
	return rw.WriteMsg(ctx, req, resp)
}

// VerifC06UDPAsync: two datagrams received back to back, before the workers that
// serve them have run, are each decoded from their own bytes and answered to their
// own sender: the receive buffer of the first is not reused for the second while the
// first is still being processed.
//
//verif:harness name=H06e-udp-async tier=quick,thorough bounds="two queries (symbolic IDs, different names) read by acceptUDPMsg before either worker runs; workers then run in either order; LIFO buffer pool" reach=done switches=0
//verif:assume the worker pool starts one thread per task (ants without its queue limits); threads switch only when blocked or finished
func VerifC06UDPAsync() {
	verifPoolMode(1)
	verifAsyncWorkers = true
	defer func() { verifAsyncWorkers = false }()
	h := &verifMultiRecorder{}
	s := verifNewDNS(h, 64)
	ctx := context.Background()
	idA, idB := nondetU16(), nondetU16()
	qa, qb := &dns.Msg{}, &dns.Msg{}
	qa.SetQuestion("aaaa.example.", dns.TypeA)
	qb.SetQuestion("bb.example.", dns.TypeAAAA)
	qa.Id, qb.Id = idA, idB
	ba, errA := qa.Pack()
	bb, errB := qb.Pack()
	verifAssume(errA == nil && errB == nil)
	ca, cb := &verifPacketConn{data: ba}, &verifPacketConn{data: bb}

	_ = s.acceptUDPMsg(ctx, ca)
	_ = s.acceptUDPMsg(ctx, cb)
	verifRunAll()

	verifAssert("both-queries-served", len(h.reqs) == 2 && len(ca.written) == 1 && len(cb.written) == 1)
	if len(ca.written) == 1 && len(cb.written) == 1 {
		ra, rb := &dns.Msg{}, &dns.Msg{}
		verifAssert("responses-decodable", ra.Unpack(ca.written[0]) == nil && rb.Unpack(cb.written[0]) == nil)
		verifAssert("first-sender-gets-its-own-id-and-question", ra.Id == idA && len(ra.Question) == 1 && ra.Question[0].Name == "aaaa.example." && ra.Question[0].Qtype == dns.TypeA)
		verifAssert("second-sender-gets-its-own-id-and-question", rb.Id == idB && len(rb.Question) == 1 && rb.Question[0].Name == "bb.example." && rb.Question[0].Qtype == dns.TypeAAAA)
	}
	verifReach("done")
}
