package dnsserver

//verif:pkg internal/dnsserver

import (
	"context"
	"sync"
	"time"

	"github.com/AdguardTeam/golibs/syncutil"

	"github.com/miekg/dns"
)

// verifMultiRecorder records every decoded request.
type verifMultiRecorder struct {
	mu   sync.Mutex
	reqs []*dns.Msg
}

func (h *verifMultiRecorder) ServeDNS(ctx context.Context, rw ResponseWriter, req *dns.Msg) error {
	h.mu.Lock()
	h.reqs = append(h.reqs, req.Copy())
	h.mu.Unlock()
	resp := (&dns.Msg{}).SetReply(req)
	return rw.WriteMsg(ctx, req, resp)
}

// VerifC06UDPAsync: two datagrams received back to back, before the workers that
// serve them have run, are each decoded from their own bytes and answered to their
// own sender: the receive buffer of the first is not reused for the second while the
// first is still being processed.
//
//verif:harness name=H06e-udp-async tier=quick,thorough bounds="two queries (symbolic IDs, different names) read by acceptUDPMsg before either worker runs; workers then run in either order; LIFO buffer pool" reach=done switches=0
//verif:assume the worker pool starts one thread per task (ants without its queue limits); threads switch only when blocked or finished
func VerifC06UDPAsync() {
	verifPoolMode(1)
	verifAsyncWorkers = true
	defer func() { verifAsyncWorkers = false }()
	h := &verifMultiRecorder{}
	s := verifNewDNS(h, 64)
	ctx := context.Background()
	idA, idB := nondetU16(), nondetU16()
	qa, qb := &dns.Msg{}, &dns.Msg{}
	qa.SetQuestion("aaaa.example.", dns.TypeA)
	qb.SetQuestion("bb.example.", dns.TypeAAAA)
	qa.Id, qb.Id = idA, idB
	ba, errA := qa.Pack()
	bb, errB := qb.Pack()
	verifAssume(errA == nil && errB == nil)
	ca, cb := &verifPacketConn{data: ba}, &verifPacketConn{data: bb}

	_ = s.acceptUDPMsg(ctx, ca)
	_ = s.acceptUDPMsg(ctx, cb)
	verifRunAll()

	verifAssert("both-queries-served", len(h.reqs) == 2 && len(ca.written) == 1 && len(cb.written) == 1)
	if len(ca.written) == 1 && len(cb.written) == 1 {
		ra, rb := &dns.Msg{}, &dns.Msg{}
		verifAssert("responses-decodable", ra.Unpack(ca.written[0]) == nil && rb.Unpack(cb.written[0]) == nil)
		verifAssert("first-sender-gets-its-own-id-and-question", ra.Id == idA && len(ra.Question) == 1 && ra.Question[0].Name == "aaaa.example." && ra.Question[0].Qtype == dns.TypeA)
		verifAssert("second-sender-gets-its-own-id-and-question", rb.Id == idB && len(rb.Question) == 1 && rb.Question[0].Name == "bb.example." && rb.Question[0].Qtype == dns.TypeAAAA)
	}
	verifReach("done")
}

// VerifC06TCPShort: a TCP message that ends before its announced length is rejected
// and leaves the receive-buffer pool consistent: the buffer is released once, so two
// later messages never share one buffer.
//
//verif:harness name=H06g-tcp-short tier=quick,thorough bounds="framed message announcing 12..40 bytes but carrying 0..11 of them (or ending inside the length prefix); then a 43-byte UDP query is served by the same server and two buffers are taken from the TCP pool" reach=done,short-read
//verif:assume sync.Pool hands released buffers back
func VerifC06TCPShort() {
	verifPoolMode(1)
	h := &verifMultiRecorder{}
	s := verifNewDNS(h, 64)
	announced := 12 + verifChoice(29)
	have := verifChoice(12)
	data := []byte{byte(announced >> 8), byte(announced)}
	if verifChoice(8) == 0 {
		data = data[:1] // the stream ends inside the length prefix
		have = 0
	}
	for i := 0; i < have; i++ {
		data = append(data, nondetU8())
	}
	conn := &verifTCPConn{data: data}
	wg := &sync.WaitGroup{}
	err := s.acceptTCPMsg(conn, wg, &sync.Mutex{}, time.Second, syncutil.EmptySemaphore{})
	wg.Wait()
	verifAssert("short-message-is-an-error", err != nil)
	verifAssert("short-message-reaches-no-handler-and-gets-no-response", len(h.reqs) == 0 && len(conn.written) == 0)
	verifReach("short-read")
	// a UDP query arriving afterwards on the same server is served as by a fresh one
	q := &dns.Msg{}
	q.SetQuestion("a-longer-name.example.org.", dns.TypeA)
	q.Id = nondetU16()
	pkt, perr := q.Pack()
	verifAssume(perr == nil)
	pc := &verifPacketConn{data: pkt}
	_ = s.acceptUDPMsg(context.Background(), pc)
	s.wg.Wait()
	verifAssert("later-udp-query-served-as-by-a-fresh-server", len(h.reqs) == 1 && len(pc.written) == 1 && h.reqs[0].Id == q.Id && h.reqs[0].Question[0].Name == "a-longer-name.example.org.")
	a := s.tcpPool.Get()
	b := s.tcpPool.Get()
	verifAssert("buffer-released-at-most-once", a != b)
	verifReach("done")
}
