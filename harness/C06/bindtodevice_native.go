//go:build linux

package bindtodevice

//verif:pkg internal/bindtodevice

import (
	"context"
	"net"
	"net/netip"
	"syscall"
	"time"

	"github.com/AdguardTeam/AdGuardDNS/internal/dnsserver/netext"
	"github.com/AdguardTeam/golibs/logutil/slogutil"
	"github.com/AdguardTeam/golibs/syncutil"
	"golang.org/x/sys/unix"
)

type verifBTDEnv struct {
	l       *interfaceListener
	c       *chanPacketConn
	conn    *net.UDPConn
	clients [3]*net.UDPConn
	sessions []*packetSession
}

type verifObs struct{}

func (verifObs) Observe(float64) {}

// verifNewBTDEnv listens on a loopback socket with the control-message option of the
// real listener, but without SO_BINDTODEVICE (no privileges needed).
func verifNewBTDEnv() *verifBTDEnv {
	lc := &net.ListenConfig{
		Control: func(_, _ string, c syscall.RawConn) (err error) {
			var opErr error
			err = c.Control(func(fd uintptr) {
				opErr = unix.SetsockoptInt(int(fd), unix.IPPROTO_IP, unix.IP_RECVORIGDSTADDR, 1)
			})
			if err != nil {
				return err
			}
			return opErr
		},
	}
	pc, err := lc.ListenPacket(context.Background(), "udp4", "127.0.0.1:0")
	if err != nil {
		panic(err)
	}
	conn := pc.(*net.UDPConn)
	srvAddr := conn.LocalAddr().(*net.UDPAddr)
	sessions := make(chan *packetSession, 8)
	writeRequests := make(chan *packetConnWriteReq, 8)
	c := newChanPacketConn(sessions, netip.MustParsePrefix("127.0.0.0/8"), writeRequests, nil, srvAddr)
	conns := &connIndex{}
	if err = conns.addPacketConn(c); err != nil {
		panic(err)
	}
	l := &interfaceListener{
		logger:        slogutil.NewDiscardLogger(),
		conns:         conns,
		bodyPool:      syncutil.NewSlicePool[byte](512),
		oobPool:       syncutil.NewSlicePool[byte](netext.IPDstOOBSize),
		writeRequests: writeRequests,
		writeDurationHist: verifObs{},
		done:          make(chan unit),
		ifaceName:     "lo",
		port:          uint16(srvAddr.Port),
	}
	e := &verifBTDEnv{l: l, c: c, conn: conn}
	for i := range e.clients {
		e.clients[i], err = net.DialUDP("udp4", nil, srvAddr)
		if err != nil {
			panic(err)
		}
	}
	return e
}

func (e *verifBTDEnv) close() {
	_ = e.conn.Close()
	for _, c := range e.clients {
		_ = c.Close()
	}
}

func (e *verifBTDEnv) clientPort(i int) int { return e.clients[i].LocalAddr().(*net.UDPAddr).Port }

func (e *verifBTDEnv) deliver(i int, pkt []byte) error {
	if _, err := e.clients[i].Write(pkt); err != nil {
		return err
	}
	_ = e.conn.SetReadDeadline(time.Now().Add(5 * time.Second))
	return e.l.readUDP(context.Background(), e.l.logger, e.conn)
}

func (e *verifBTDEnv) consume(buf []byte) (n, port int, err error) {
	_ = e.c.SetReadDeadline(time.Now().Add(5 * time.Second))
	n, sess, err := e.c.ReadFromSession(buf)
	if err != nil {
		return 0, 0, err
	}
	e.sessions = append(e.sessions, sess.(*packetSession))
	return n, sess.RemoteAddr().(*net.UDPAddr).Port, nil
}

// respond answers the i-th consumed session through the listener's write path.
func (e *verifBTDEnv) respond(i int) error {
	resp := &packetConnWriteResp{}
	e.l.writeToUDPConn(e.conn, &packetConnWriteReq{session: e.sessions[i], body: []byte{0, 0, 0x80, 0, 0, 0, 0, 0, 0, 0, 0, 0}}, resp)
	return resp.err
}
