package dnsserver

//verif:pkg internal/dnsserver

import (
	"bytes"
	"encoding/base64"
	"io"
	"net"
	"net/http"
	"net/url"

	"github.com/miekg/dns"
)

// verifScrambler is a message disposer that makes a disposed message unusable at once
// (as a pool does when another request takes the object) and counts disposals.
type verifScrambler struct {
	n      map[*dns.Msg]int
	double bool
}

func (d *verifScrambler) Dispose(m *dns.Msg) {
	if m == nil {
		return
	}
	if d.n == nil {
		d.n = map[*dns.Msg]int{}
	}
	d.n[m]++
	if d.n[m] > 1 {
		d.double = true
	}
	m.Id ^= 0xffff
	m.Question = nil
	m.Answer = nil
	m.Rcode = dns.RcodeNameError
}

type verifDoHW struct {
	hdr      http.Header
	statuses []int
	body     []byte
}

func (w *verifDoHW) Header() http.Header { return w.hdr }
func (w *verifDoHW) WriteHeader(s int)   { w.statuses = append(w.statuses, s) }
func (w *verifDoHW) Write(b []byte) (int, error) {
	if len(w.statuses) == 0 {
		w.statuses = append(w.statuses, http.StatusOK)
	}
	w.body = append(w.body, b...)
	return len(b), nil
}

// VerifC01DoHWire: a wire-format DoH request (POST body, or GET with the base64url
// "dns" parameter) gets exactly one HTTP response; a decodable single-question query
// is answered with status 200 and a DNS message carrying its own ID and question, the
// same answer the shared serveDNS path gives every other transport; anything else is
// an HTTP error without a DNS body.
//
//verif:harness name=H01g-doh-wire tier=quick,thorough bounds="POST body of 12..17 bytes (header symbolic with QDCOUNT<=2, other counts 0; body bytes in {0..3} or a-z) or GET with a concrete query / malformed base64 / missing or duplicated dns parameter; handler answers every accepted query" reach=answered,http-error,get maxpaths=200000 fanout=70
//verif:assume net/http server framing is outside the claim: the handler is driven with a constructed *http.Request and a recording ResponseWriter
func VerifC01DoHWire() {
	h := &verifAnswering{}
	disp := &verifScrambler{}
	srv := &ServerHTTPS{ServerBase: newServerBase(ProtoDoH, ConfigBase{Handler: h, Disposer: disp})}
	hh := &httpHandler{srv: srv, localAddr: &net.TCPAddr{IP: net.IP{192, 0, 2, 1}, Port: 443}}
	w := &verifDoHW{hdr: http.Header{}}
	r := &http.Request{URL: &url.URL{Path: "/dns-query"}, Header: http.Header{}, RemoteAddr: "198.51.100.7:4321"}

	var msg []byte
	wellFormedTransport := true
	if verifChoice(2) == 0 {
		n := 12 + verifChoice(6)
		msg = verifWireMsg(n)
		r.Method = http.MethodPost
		r.Body = io.NopCloser(bytes.NewReader(msg))
	} else {
		q := &dns.Msg{}
		q.SetQuestion("example.org.", dns.TypeA)
		q.Id = 0x1234
		b, err := q.Pack()
		verifAssume(err == nil)
		msg = b
		r.Method = http.MethodGet
		enc := base64.RawURLEncoding.EncodeToString(b)
		switch verifChoice(4) {
		case 0:
			r.URL.RawQuery = "dns=" + enc
		case 1:
			r.URL.RawQuery = "dns=" + enc + "%3D%3D" // padded: not raw base64url
			wellFormedTransport = false
		case 2:
			r.URL.RawQuery = "name=example.org"
			wellFormedTransport = false
		case 3:
			r.URL.RawQuery = "dns=" + enc + "&dns=" + enc
			wellFormedTransport = false
		}
		verifReach("get")
	}
	panicked := verifCatch(func() { hh.ServeHTTP(w, r) })
	verifAssert("no-panic", !panicked)
	verifAssert("exactly-one-http-status", len(w.statuses) == 1)
	if len(w.statuses) != 1 {
		return
	}
	probe := &dns.Msg{}
	decodable := probe.Unpack(msg) == nil
	if !wellFormedTransport {
		verifAssert("malformed-request-is-an-http-client-error-without-dns-processing", w.statuses[0] >= 400 && w.statuses[0] < 500 && h.calls == 0)
		verifReach("http-error")
		return
	}
	if w.statuses[0] != http.StatusOK {
		verifAssert("http-error-only-for-dropped-queries", !decodable || probe.Response)
		verifAssert("handler-not-reached-for-dropped-queries", h.calls == 0)
		verifReach("http-error")
		return
	}
	out := &dns.Msg{}
	verifAssert("200-carries-a-dns-message", out.Unpack(w.body) == nil && w.hdr.Get("Content-Type") == MimeTypeDoH)
	verifAssert("answer-carries-the-request-id", len(w.body) >= 12 && w.body[0] == msg[0] && w.body[1] == msg[1] && out.Response)
	if h.calls == 1 {
		verifAssert("answer-echoes-the-question", len(out.Question) == 1 && len(probe.Question) == 1 && out.Question[0] == probe.Question[0])
	}
	verifAssert("handler-reached-at-most-once", h.calls <= 1)
	verifAssert("response-disposed-at-most-once-and-only-after-it-was-written", !disp.double)
	verifReach("answered")
}
