package dnsserver

//verif:pkg internal/dnsserver

import (
	"io"
	"time"

	"github.com/AdguardTeam/golibs/syncutil"
	"github.com/quic-go/quic-go"
)

// verifStream delivers a fixed byte string in one or two chunks.
type verifStream struct {
	quic.Stream
	data  []byte
	pos   int
	split int
}

func (s *verifStream) Read(p []byte) (n int, err error) {
	if s.pos >= len(s.data) {
		return 0, io.EOF
	}
	end := len(s.data)
	if s.pos < s.split {
		end = s.split
	}
	n = copy(p, s.data[s.pos:end])
	s.pos += n
	return n, nil
}

func (s *verifStream) SetReadDeadline(t time.Time) error { return nil }

func verifNewQUIC() *ServerQUIC {
	return &ServerQUIC{
		ServerBase: newServerBase(ProtoDoQ, ConfigBase{}),
		reqPool:    syncutil.NewSlicePool[byte](quicBytePoolSize),
		respPool:   syncutil.NewSlicePool[byte](quicBytePoolSize),
	}
}

