package dnsserver

//verif:pkg internal/dnsserver

import (
	"context"
	"errors"
	"net"

	"github.com/miekg/dns"
)

type verifRW1 struct {
	writes int
	resp   *dns.Msg
}

func (w *verifRW1) LocalAddr() net.Addr  { return &net.UDPAddr{IP: net.IP{192, 0, 2, 1}, Port: 53} }
func (w *verifRW1) RemoteAddr() net.Addr { return &net.UDPAddr{IP: net.IP{198, 51, 100, 7}, Port: 4321} }
func (w *verifRW1) WriteMsg(_ context.Context, _, resp *dns.Msg) error {
	w.writes++
	w.resp = resp
	return nil
}

type verifNetErr1 struct{}

func (verifNetErr1) Error() string   { return "i/o timeout" }
func (verifNetErr1) Timeout() bool   { return true }
func (verifNetErr1) Temporary() bool { return true }

// verifHandler1 behaves as chosen: answer, stay silent, or fail.
type verifHandler1 struct {
	kind  int
	rcode int
	calls int
	resp  *dns.Msg
}

func (h *verifHandler1) ServeDNS(ctx context.Context, rw ResponseWriter, req *dns.Msg) error {
	h.calls++
	switch h.kind {
	case 0:
		h.resp = (&dns.Msg{}).SetRcode(req, h.rcode)
		return rw.WriteMsg(ctx, req, h.resp)
	case 1:
		return nil
	case 2:
		return &net.OpError{Op: "read", Net: "udp", Err: verifNetErr1{}}
	default:
		return errors.New("handler failed")
	}
}

type verifMetrics1 struct {
	EmptyMetricsListener
	invalid, panics, errs, requests int
}

func (m *verifMetrics1) OnInvalidMsg(context.Context)                          { m.invalid++ }
func (m *verifMetrics1) OnPanic(context.Context, any)                          { m.panics++ }
func (m *verifMetrics1) OnError(context.Context, error)                        { m.errs++ }
func (m *verifMetrics1) OnRequest(context.Context, *QueryInfo, ResponseWriter) { m.requests++ }

func verifQuestion(i int) dns.Question {
	return dns.Question{Name: []string{"example.org.", "Second.Example."}[i], Qtype: []uint16{dns.TypeA, dns.TypeAAAA}[i], Qclass: dns.ClassINET}
}

// VerifC01Accept: every acceptable query gets exactly one response with its own ID and
// question and the handler's rcode; responses, unsupported opcodes and wrong section
// counts get the documented drop / NOTIMP / FORMERR treatment; handler failures become
// SERVFAIL; nothing ever carries another ID or question.
//
//verif:harness name=H01a-accept tier=quick,thorough bounds="message built directly: ID, QR bit, opcode (0..15), RD/CD/AD symbolic; 0..2 questions, 0..2 answers, 0..2 authority records; OPT present or not; handler answers with a symbolic rcode (0..15), writes nothing, fails with a network error or another error" reach=answered,formerr,notimp,ignored,servfail,silent maxpaths=200000
func VerifC01Accept() {
	req := &dns.Msg{}
	req.Id = nondetU16()
	req.Response = nondetBool()
	op := nondetU8()
	verifAssume(op <= 15)
	req.Opcode = int(op)
	req.RecursionDesired = nondetBool()
	req.CheckingDisabled = nondetBool()
	req.AuthenticatedData = nondetBool()
	nq, na, nn := verifChoice(3), verifChoice(3), verifChoice(3)
	for i := 0; i < nq; i++ {
		req.Question = append(req.Question, verifQuestion(i))
	}
	for i := 0; i < na; i++ {
		req.Answer = append(req.Answer, &dns.A{Hdr: dns.RR_Header{Name: "example.org.", Rrtype: dns.TypeA, Class: dns.ClassINET}, A: net.IP{1, 2, 3, byte(4 + i)}})
	}
	for i := 0; i < nn; i++ {
		req.Ns = append(req.Ns, &dns.NS{Hdr: dns.RR_Header{Name: "example.org.", Rrtype: dns.TypeNS, Class: dns.ClassINET}, Ns: "ns.example."})
	}
	hasOpt := verifChoice(2) == 1
	if hasOpt {
		req.SetEdns0(1232, false)
	}
	rc := nondetU8()
	verifAssume(rc <= 15)
	h := &verifHandler1{kind: verifChoice(4), rcode: int(rc)}
	m := &verifMetrics1{}
	s := newServerBase(ProtoDNS, ConfigBase{Handler: h, Metrics: m})
	rw := &verifRW1{}
	written := s.serveDNSMsg(context.Background(), req, rw)

	verifAssert("no-panic", m.panics == 0)
	verifAssert("at-most-one-response", rw.writes <= 1)
	verifAssert("written-flag-matches", written == (rw.writes == 1))
	if rw.writes == 1 {
		verifAssert("response-carries-the-request-id", rw.resp.Id == req.Id)
		verifAssert("response-is-a-response", rw.resp.Response)
		if len(req.Question) > 0 {
			verifAssert("response-carries-the-request-question", len(rw.resp.Question) > 0 && rw.resp.Question[0] == req.Question[0])
		}
	}
	switch {
	case req.Response:
		verifAssert("responses-are-dropped-silently", rw.writes == 0 && h.calls == 0 && m.invalid == 1)
		verifReach("ignored")
	case req.Opcode != dns.OpcodeQuery && req.Opcode != dns.OpcodeNotify:
		verifAssert("unsupported-opcode-gets-notimp", rw.writes == 1 && rw.resp.Rcode == dns.RcodeNotImplemented && h.calls == 0)
		verifReach("notimp")
	case nq != 1 || na > 1 || nn > 1:
		verifAssert("wrong-section-counts-get-formerr", rw.writes == 1 && rw.resp.Rcode == dns.RcodeFormatError && h.calls == 0)
		verifReach("formerr")
	default:
		verifAssert("acceptable-query-reaches-the-handler-once", h.calls == 1)
		switch h.kind {
		case 0:
			verifAssert("handler-answer-is-the-answer", rw.writes == 1 && rw.resp == h.resp && rw.resp.Rcode == int(rc))
			verifReach("answered")
		case 1:
			verifAssert("silent-handler-means-no-response", rw.writes == 0)
			verifReach("silent")
		default:
			verifAssert("handler-error-becomes-servfail", rw.writes == 1 && rw.resp.Rcode == dns.RcodeServerFailure && m.errs == 1)
			ede := false
			if o := rw.resp.IsEdns0(); o != nil {
				for _, e := range o.Option {
					if _, ok := e.(*dns.EDNS0_EDE); ok {
						ede = true
					}
				}
			}
			verifAssert("network-error-ede-only-with-request-opt", ede == (h.kind == 2 && hasOpt))
			verifReach("servfail")
		}
	}
}
