package dnsserver

//verif:pkg internal/dnsserver
//verif:noop github.com/AdguardTeam/AdGuardDNS/internal/dnsserver.newPoolNonblocking
//verif:stub (*github.com/panjf2000/ants/v2.Pool).Submit verifAntsSubmit

import (
	"context"
	"io"
	"net"
	"sync"
	"time"

	"github.com/AdguardTeam/golibs/syncutil"
	"github.com/miekg/dns"
	"github.com/panjf2000/ants/v2"
)

// verifAntsSubmit replaces the worker pool in the symbolic build: the task runs inline.
func verifAntsSubmit(p *ants.Pool, task func()) error {
	if verifAsyncWorkers {
		go task()
		return nil
	}
	task()
	return nil
}

// verifAsyncWorkers makes the worker-pool stub run every task as a thread of its own.
var verifAsyncWorkers bool

// verifRecorder is a handler that records what the server decoded.
type verifRecorder struct {
	mu    sync.Mutex
	calls int
	req   *dns.Msg
}

func (h *verifRecorder) ServeDNS(ctx context.Context, rw ResponseWriter, req *dns.Msg) error {
	h.mu.Lock()
	defer h.mu.Unlock()
	h.calls++
	h.req = req.Copy()
	return nil
}

func (h *verifRecorder) result() (*dns.Msg, error) {
	h.mu.Lock()
	defer h.mu.Unlock()
	if h.calls == 0 {
		return nil, io.ErrUnexpectedEOF
	}
	return h.req, nil
}

type verifPacketConn struct {
	net.PacketConn
	data    []byte
	written [][]byte
}

func (c *verifPacketConn) ReadFrom(b []byte) (int, net.Addr, error) {
	return copy(b, c.data), &net.UDPAddr{IP: net.IP{192, 0, 2, 7}, Port: 5353}, nil
}
func (c *verifPacketConn) SetReadDeadline(t time.Time) error  { return nil }
func (c *verifPacketConn) SetWriteDeadline(t time.Time) error { return nil }
func (c *verifPacketConn) WriteTo(b []byte, a net.Addr) (int, error) {
	c.written = append(c.written, append([]byte(nil), b...))
	return len(b), nil
}
func (c *verifPacketConn) LocalAddr() net.Addr {
	return &net.UDPAddr{IP: net.IP{192, 0, 2, 1}, Port: 53}
}

type verifTCPConn struct {
	net.Conn
	data    []byte
	pos     int
	split   int
	written [][]byte
}

func (c *verifTCPConn) Read(p []byte) (n int, err error) {
	if c.pos >= len(c.data) {
		return 0, io.EOF
	}
	end := len(c.data)
	if c.pos < c.split {
		end = c.split
	}
	n = copy(p, c.data[c.pos:end])
	c.pos += n
	return n, nil
}
func (c *verifTCPConn) SetReadDeadline(t time.Time) error  { return nil }
func (c *verifTCPConn) SetWriteDeadline(t time.Time) error { return nil }
func (c *verifTCPConn) Write(b []byte) (int, error) {
	c.written = append(c.written, append([]byte(nil), b...))
	return len(b), nil
}
func (c *verifTCPConn) Close() error                      { return nil }
func (c *verifTCPConn) LocalAddr() net.Addr {
	return &net.TCPAddr{IP: net.IP{192, 0, 2, 1}, Port: 53}
}
func (c *verifTCPConn) RemoteAddr() net.Addr {
	return &net.TCPAddr{IP: net.IP{192, 0, 2, 7}, Port: 5353}
}

func verifNewDNS(h Handler, bufSize int) *ServerDNS {
	return &ServerDNS{
		ServerBase: newServerBase(ProtoDNS, ConfigBase{Handler: h, Disposer: &verifScrambler{}}),
		workerPool: newPoolNonblocking(),
		udpPool:    syncutil.NewSlicePool[byte](bufSize),
		tcpPool:    syncutil.NewSlicePool[byte](bufSize),
		respPool:   syncutil.NewSlicePool[byte](dns.MinMsgSize),
		tcpConns:   map[net.Conn]struct{}{},
		tcpConnsMu: &sync.Mutex{},
		conf:       ConfigDNS{ReadTimeout: time.Second, WriteTimeout: time.Second, TCPIdleTimeout: time.Second},
	}
}

