package dnsserver

//verif:pkg internal/dnsserver

import (
	"context"
	"sync"
	"time"

	"github.com/AdguardTeam/golibs/syncutil"
	"github.com/miekg/dns"
)

// verifAnswering is a handler that answers every accepted query.
type verifAnswering struct {
	mu    sync.Mutex
	calls int
	req   *dns.Msg
}

func (h *verifAnswering) ServeDNS(ctx context.Context, rw ResponseWriter, req *dns.Msg) error {
	h.mu.Lock()
	h.calls++
	h.req = req.Copy()
	h.mu.Unlock()
	return rw.WriteMsg(ctx, req, (&dns.Msg{}).SetReply(req))
}

// VerifC01Wire: arbitrary bytes arriving over UDP never crash the server and never
// elicit more than one response or a response with another ID; undecodable input is
// dropped silently; a decoded single-question query is answered with its own ID.
//
//verif:harness name=H01b-wire tier=quick bounds="datagram of 12..17 bytes: header fully symbolic with QDCOUNT<=2 and other counts 0, body bytes in {0..3} or a-z; handler answers every accepted query" reach=answered,dropped,error-response maxpaths=200000 fanout=70
//verif:assume worker pool runs the task inline; pooled buffers of 64 bytes
func VerifC01Wire() { verifC01Wire(12, 17) }

// VerifC01WireLong is the thorough variant.
//
//verif:harness name=H01b-wire-long tier=thorough bounds="as H01b-wire with 12..19 bytes" reach=answered,dropped,error-response maxpaths=5000000 fanout=70
func VerifC01WireLong() { verifC01Wire(12, 19) }

func verifC01Wire(lo, hi int) {
	n := lo + verifChoice(hi-lo+1)
	msg := verifWireMsg(n)
	h := &verifAnswering{}
	m := &verifMetrics1{}
	s := verifNewDNS(h, 64)
	s.metrics = m
	conn := &verifPacketConn{data: msg}
	err := s.acceptUDPMsg(context.Background(), conn)
	s.wg.Wait()

	verifAssert("listener-survives", err == nil)
	verifAssert("no-panic", m.panics == 0)
	verifAssert("at-most-one-response", len(conn.written) <= 1)
	probe := &dns.Msg{}
	decodable := probe.Unpack(msg) == nil
	if !decodable {
		verifAssert("undecodable-input-is-dropped-silently", len(conn.written) == 0 && h.calls == 0)
		verifReach("dropped")
		return
	}
	if len(conn.written) == 1 {
		out := conn.written[0]
		verifAssert("response-has-a-header", len(out) >= 12)
		verifAssert("response-carries-the-request-id", out[0] == msg[0] && out[1] == msg[1])
		verifAssert("response-has-qr-bit", out[2]&0x80 != 0)
		if h.calls == 1 {
			verifAssert("handler-saw-the-decoded-question", len(h.req.Question) == 1 && h.req.Question[0] == probe.Question[0] && h.req.Id == probe.Id)
			verifReach("answered")
		} else {
			verifReach("error-response")
		}
	} else {
		// only a message with the QR bit set is ignored without a response
		verifAssert("only-responses-are-ignored", probe.Response && h.calls == 0)
		verifReach("dropped")
	}
}

// VerifC01TCP: a framed query over TCP/DoT is answered exactly once with its own ID,
// whatever length the previous message on the recycled read buffer had and however
// small the pooled buffer is.
//
//verif:harness name=H01f-tcp tier=quick bounds="framed query of 12 or 15 bytes (as H01b-wire) in 1 or 2 chunks; pooled read buffer of 64 or 14 bytes left at length 8/14/48 by an earlier message; handler answers every accepted query" reach=answered,dropped maxpaths=200000 fanout=70
//verif:assume sync.Pool hands the most recently released buffer back; worker pool inline
func VerifC01TCP() { verifC01TCP([]int{12, 15}) }

// VerifC01TCPLong is VerifC01TCP over every length 12..18.
//
//verif:harness name=H01f-tcp-long tier=thorough bounds="as H01f-tcp with every length 12..18" reach=answered,dropped maxpaths=5000000 fanout=70
//verif:assume sync.Pool hands the most recently released buffer back; worker pool inline
func VerifC01TCPLong() { verifC01TCP([]int{12, 13, 14, 15, 16, 17, 18}) }

func verifC01TCP(lens []int) {
	verifPoolMode(1)
	n := lens[verifChoice(len(lens))]
	msg := verifWireMsg(n)
	data := append([]byte{byte(n >> 8), byte(n)}, msg...)
	split := 0
	if verifChoice(2) == 1 {
		split = 1 + verifChoice(2)
	}
	bufSize := []int{64, 14}[verifChoice(2)]
	h := &verifAnswering{}
	m := &verifMetrics1{}
	s := verifNewDNS(h, bufSize)
	s.metrics = m
	bp := s.tcpPool.Get()
	prevLen := []int{8, 14, 48}[verifChoice(3)]
	if prevLen > bufSize {
		prevLen = bufSize
	}
	*bp = (*bp)[:prevLen]
	s.tcpPool.Put(bp)

	conn := &verifTCPConn{data: data, split: split}
	wg := &sync.WaitGroup{}
	panicked := verifCatch(func() {
		_ = s.acceptTCPMsg(conn, wg, &sync.Mutex{}, time.Second, syncutil.EmptySemaphore{})
		wg.Wait()
	})
	verifAssert("no-panic", !panicked && m.panics == 0)
	verifAssert("at-most-one-response", len(conn.written) <= 1)
	probe := &dns.Msg{}
	if probe.Unpack(msg) != nil {
		verifAssert("undecodable-input-is-dropped-silently", len(conn.written) == 0 && h.calls == 0)
		verifReach("dropped")
		return
	}
	if len(conn.written) == 1 {
		out := conn.written[0]
		verifAssert("response-is-framed-with-its-exact-length", len(out) >= 14 && int(out[0])<<8|int(out[1]) == len(out)-2)
		verifAssert("response-carries-the-request-id", out[2] == msg[0] && out[3] == msg[1])
		verifReach("answered")
	} else {
		verifAssert("only-responses-are-ignored", probe.Response && h.calls == 0)
		verifReach("dropped")
	}
}
