package dnsserver

//verif:pkg internal/dnsserver

import (
	"context"
	"io"
	"net"
	"sync"
	"sync/atomic"
	"time"

	"github.com/AdguardTeam/golibs/syncutil"
	"github.com/miekg/dns"
)

// verifPipeConn delivers a burst of framed queries and then EOF (the client has
// half-closed and waits for its answers); writes after Close are lost.
type verifPipeConn struct {
	net.Conn
	data    []byte
	pos     int
	mu      sync.Mutex
	written [][]byte
	closes  atomic.Int64
}

func (c *verifPipeConn) Read(p []byte) (int, error) {
	if c.pos >= len(c.data) {
		return 0, io.EOF
	}
	n := copy(p, c.data[c.pos:])
	c.pos += n
	return n, nil
}
func (c *verifPipeConn) Write(b []byte) (int, error) {
	if c.closes.Load() > 0 {
		return 0, net.ErrClosed
	}
	c.mu.Lock()
	c.written = append(c.written, append([]byte(nil), b...))
	c.mu.Unlock()
	return len(b), nil
}
func (c *verifPipeConn) Close() error                     { c.closes.Add(1); return nil }
func (c *verifPipeConn) SetReadDeadline(time.Time) error  { return nil }
func (c *verifPipeConn) SetWriteDeadline(time.Time) error { return nil }
func (c *verifPipeConn) LocalAddr() net.Addr              { return &net.TCPAddr{IP: net.IP{192, 0, 2, 1}, Port: 53} }
func (c *verifPipeConn) RemoteAddr() net.Addr             { return &net.TCPAddr{IP: net.IP{192, 0, 2, 7}, Port: 5353} }

// verifGated answers every query but only when the driver lets it.
type verifGated struct {
	started, finished chan int
	gates             [4]chan struct{}
	next              atomic.Int64
}

func (h *verifGated) ServeDNS(ctx context.Context, rw ResponseWriter, req *dns.Msg) error {
	k := int(h.next.Add(1) - 1)
	h.started <- k
	<-h.gates[k]
	err := rw.WriteMsg(ctx, req, (&dns.Msg{}).SetReply(req))
	h.finished <- k
	return err
}

func (h *verifGated) drive(total int) {
	var inflight []int
	for done := 0; done < total; {
		verifRunAll()
		for more := true; more; {
			select {
			case k := <-h.started:
				inflight = append(inflight, k)
			default:
				more = false
			}
		}
		if len(inflight) == 0 {
			inflight = append(inflight, <-h.started)
			continue
		}
		i := verifChoice(len(inflight))
		k := inflight[i]
		inflight = append(inflight[:i:i], inflight[i+1:]...)
		h.gates[k] <- struct{}{}
		<-h.finished
		done++
	}
}

// VerifC01Pipelined: every query of a pipelined burst on one TCP / DoT connection gets
// exactly one answer with its own ID, in whatever order the queries complete, also
// when the client has already half-closed the connection and the read loop has ended
// while queries are still being processed.
//
//verif:harness name=H01h-tcp-pipelined tier=quick,thorough bounds="one TCP connection delivering a burst of 1..3 queries (symbolic IDs) then EOF; every worker a thread; the in-flight queries complete one at a time in every order" reach=done,out-of-order maxpaths=100000 switches=0
//verif:assume worker pool = one thread per task; threads switch at blocking operations and when finished; the completion order is chosen by a driver goroutine of the harness
func VerifC01Pipelined() {
	verifAsyncWorkers = true
	defer func() { verifAsyncWorkers = false }()
	burst := 1 + verifChoice(3)
	h := &verifGated{started: make(chan int, 4), finished: make(chan int, 4)}
	for i := range h.gates {
		h.gates[i] = make(chan struct{}, 1)
	}
	s := &ServerDNS{
		ServerBase: newServerBase(ProtoDNS, ConfigBase{Handler: h}),
		workerPool: newPoolNonblocking(),
		udpPool:    syncutil.NewSlicePool[byte](64),
		tcpPool:    syncutil.NewSlicePool[byte](64),
		respPool:   syncutil.NewSlicePool[byte](dns.MinMsgSize),
		tcpConns:   map[net.Conn]struct{}{},
		tcpConnsMu: &sync.Mutex{},
		conf:       ConfigDNS{ReadTimeout: time.Second, WriteTimeout: time.Second, TCPIdleTimeout: time.Second},
	}
	s.started = true
	conn := &verifPipeConn{}
	var ids [3]uint16
	for i := 0; i < burst; i++ {
		q := &dns.Msg{}
		q.SetQuestion("example.org.", dns.TypeA)
		ids[i] = nondetU16()
		q.Id = ids[i]
		b, err := q.Pack()
		verifAssume(err == nil)
		conn.data = append(conn.data, byte(len(b)>>8), byte(len(b)))
		conn.data = append(conn.data, b...)
	}
	go h.drive(burst)
	s.wg.Add(1)
	s.serveTCPConn(context.Background(), conn)
	verifRunAll()

	verifAssert("one-answer-per-query", len(conn.written) == burst)
	// every query ID is answered as often as it was asked
	for i := 0; i < burst; i++ {
		asked, answered := 0, 0
		for j := 0; j < burst; j++ {
			if verifSameU16(ids[j], ids[i]) {
				asked++
			}
		}
		for _, w := range conn.written {
			if len(w) >= 4 && verifSameU16(uint16(w[2])<<8|uint16(w[3]), ids[i]) {
				answered++
			}
		}
		verifAssert("each-query-answered-with-its-own-id", asked == answered)
	}
	verifAssert("connection-closed-once-after-the-answers", conn.closes.Load() == 1)
	if burst > 1 {
		verifReach("out-of-order")
	}
	verifReach("done")
}

func verifSameU16(a, b uint16) bool { return a == b }

// verifEchoName answers with a TXT record naming the question it was given.
type verifEchoName struct{}

func (verifEchoName) ServeDNS(ctx context.Context, rw ResponseWriter, req *dns.Msg) error {
	resp := (&dns.Msg{}).SetReply(req)
	resp.Answer = append(resp.Answer, &dns.TXT{
		Hdr: dns.RR_Header{Name: req.Question[0].Name, Rrtype: dns.TypeTXT, Class: dns.ClassINET, Ttl: 10},
		Txt: []string{"for " + req.Question[0].Name},
	})
	return rw.WriteMsg(ctx, req, resp)
}

// VerifC01UDPBackToBack: plain-UDP queries of 2..3 clients arriving back to back,
// before the workers serving the earlier ones have run, each get exactly one response
// with their own ID and question, whatever the order in which the workers then run.
//
//verif:harness name=H01i-udp-back-to-back tier=quick,thorough bounds="2..3 datagrams (symbolic IDs, names of different lengths, different question types) accepted before any worker runs; workers run in every order; the buffer pool hands released buffers back" reach=done,three maxpaths=20000 switches=0
//verif:assume worker pool = one thread per task; threads switch only when blocked or finished
func VerifC01UDPBackToBack() {
	verifPoolMode(1)
	verifAsyncWorkers = true
	defer func() { verifAsyncWorkers = false }()
	s := verifNewDNS(verifEchoName{}, 64)
	ctx := context.Background()
	names := []string{"client-a.example.", "b.example.", "third-client.example.org."}
	qts := []uint16{dns.TypeA, dns.TypeAAAA, dns.TypeTXT}
	n := 2 + verifChoice(2)
	var ids [3]uint16
	var conns [3]*verifPacketConn
	for i := 0; i < n; i++ {
		q := &dns.Msg{}
		q.SetQuestion(names[i], qts[i])
		ids[i] = nondetU16()
		q.Id = ids[i]
		b, err := q.Pack()
		verifAssume(err == nil)
		conns[i] = &verifPacketConn{data: b}
	}
	for i := 0; i < n; i++ {
		_ = s.acceptUDPMsg(ctx, conns[i])
	}
	verifRunAll()
	for i := 0; i < n; i++ {
		c := conns[i]
		verifAssert("exactly-one-response-per-query", len(c.written) == 1)
		if len(c.written) != 1 {
			continue
		}
		r := &dns.Msg{}
		verifAssert("response-decodable", r.Unpack(c.written[0]) == nil)
		verifAssert("response-carries-the-request's-id-and-question", r.Id == ids[i] && len(r.Question) == 1 && r.Question[0].Name == names[i] && r.Question[0].Qtype == qts[i])
		own := len(r.Answer) == 1
		if own {
			t, ok := r.Answer[0].(*dns.TXT)
			own = ok && len(t.Txt) == 1 && t.Txt[0] == "for "+names[i]
		}
		verifAssert("response-answers-the-request's-own-question", own)
	}
	if n == 3 {
		verifReach("three")
	}
	verifReach("done")
}
