package dnsserver

//verif:pkg internal/dnsserver

import (
	"context"
	"net"

	"github.com/miekg/dns"
	"github.com/quic-go/quic-go"
)

type verifDCRW struct {
	writes int
	resp   *dns.Msg
}

func (w *verifDCRW) LocalAddr() net.Addr  { return &net.UDPAddr{IP: net.IP{192, 0, 2, 1}, Port: 443} }
func (w *verifDCRW) RemoteAddr() net.Addr { return &net.UDPAddr{IP: net.IP{198, 51, 100, 7}, Port: 4321} }
func (w *verifDCRW) WriteMsg(m *dns.Msg) error {
	w.writes++
	w.resp = m
	return nil
}

type verifQConn struct {
	quic.Connection
	closed int
}

func (c *verifQConn) LocalAddr() net.Addr  { return &net.UDPAddr{IP: net.IP{192, 0, 2, 1}, Port: 853} }
func (c *verifQConn) RemoteAddr() net.Addr { return &net.UDPAddr{IP: net.IP{198, 51, 100, 7}, Port: 4321} }
func (c *verifQConn) CloseWithError(quic.ApplicationErrorCode, string) error {
	c.closed++
	return nil
}

type verifQStream struct {
	verifStream
	written [][]byte
	closes  int
}

func (s *verifQStream) Write(b []byte) (int, error) {
	s.written = append(s.written, append([]byte(nil), b...))
	return len(b), nil
}
func (s *verifQStream) Close() error { s.closes++; return nil }

func verifQuery(id uint16) *dns.Msg {
	m := &dns.Msg{}
	m.SetQuestion("example.org.", dns.TypeA)
	m.Id = id
	return m
}

// VerifC01Framing: on DNSCrypt and DoQ a query whose handler wrote nothing is still
// answered exactly once (SERVFAIL) with the query's ID, an answered one gets the
// handler's answer, and the DoQ frame carries the exact length prefix.
//
//verif:harness name=H01c-framing tier=quick,thorough bounds="DNSCrypt and DoQ; handler answers with symbolic rcode / stays silent / fails with a network or other error; query ID symbolic" reach=dnscrypt,doq maxpaths=20000
func VerifC01Framing() {
	id := nondetU16()
	rc := nondetU8()
	verifAssume(rc <= 15)
	h := &verifHandler1{kind: verifChoice(4), rcode: int(rc)}
	req := verifQuery(id)
	if verifChoice(2) == 0 {
		srv := &ServerDNSCrypt{ServerBase: newServerBase(ProtoDNSCrypt, ConfigBase{Handler: h, Disposer: &verifScrambler{}})}
		rw := &verifDCRW{}
		err := (&dnsCryptHandler{srv: srv}).ServeDNS(rw, req)
		verifAssert("no-error", err == nil)
		verifAssert("exactly-one-response", rw.writes == 1)
		verifAssert("response-id-and-question", rw.resp.Id == id && len(rw.resp.Question) == 1 && rw.resp.Question[0] == req.Question[0])
		if h.kind == 0 {
			verifAssert("handler-rcode", rw.resp.Rcode == int(rc))
		} else {
			verifAssert("servfail-when-nothing-was-written", rw.resp.Rcode == dns.RcodeServerFailure)
		}
		verifReach("dnscrypt")
		return
	}
	// DoQ: the query arrives framed; the response must be framed with its exact length
	verifPoolMode(1)
	s := verifNewQUIC()
	s.ServerBase = newServerBase(ProtoDoQ, ConfigBase{Handler: h, Disposer: &verifScrambler{}})
	wire, perr := req.Pack()
	verifAssume(perr == nil)
	framed := append([]byte{byte(len(wire) >> 8), byte(len(wire))}, wire...)
	stream := &verifQStream{verifStream: verifStream{data: framed}}
	conn := &verifQConn{}
	err := s.serveQUICStream(context.Background(), stream, conn)
	verifAssert("no-error", err == nil)
	verifAssert("exactly-one-frame-written", len(stream.written) == 1 && conn.closed == 0)
	out := stream.written[0]
	verifAssert("length-prefix-is-exact", len(out) >= 14 && int(out[0])<<8|int(out[1]) == len(out)-2)
	verifAssert("response-id", out[2] == byte(id>>8) && out[3] == byte(id))
	gotRcode := int(out[5] & 0x0f)
	if h.kind == 0 {
		verifAssert("handler-rcode", gotRcode == int(rc))
	} else {
		verifAssert("servfail-when-nothing-was-written", gotRcode == dns.RcodeServerFailure)
	}
	verifReach("doq")
}
