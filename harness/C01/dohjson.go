package dnsserver

//verif:pkg internal/dnsserver

import (
	"net/http"
	"net/url"

	"github.com/miekg/dns"
)

func verifDigits(n int) (string, uint32) {
	b := make([]byte, n)
	var v uint32
	for i := range b {
		d := nondetU8()
		verifAssume(d >= '0')
		verifAssume(d <= '9')
		b[i] = d
		v = v*10 + uint32(d-'0')
	}
	return string(b), v
}

// VerifC01DoHJSON: the JSON API builds exactly one question with the requested name,
// type, class and flags, and rejects every invalid parameter value.
//
//verif:harness name=H01e-doh-json tier=quick,thorough bounds="name in lower case, mixed case or with a symbolic letter of either case; type as 1..2 symbolic decimal digits, a mnemonic (A, aaaa, TxT, bogus) or absent; class absent / IN / 3; cd, do from the accepted spellings, absent, or an invalid word" reach=built,rejected maxpaths=200000
func VerifC01DoHJSON() {
	q := url.Values{}
	// the name as the client spelled it: lower case, mixed case, or with a symbolic letter
	name := "example.org"
	switch verifChoice(3) {
	case 1:
		name = "WwW.ExAmPlE.oRg."
	case 2:
		c := nondetU8()
		verifAssume(verifOr(verifAnd(c >= 'A', c <= 'Z'), verifAnd(c >= 'a', c <= 'z')))
		name = string([]byte{'n', c}) + ".Example.org"
	}
	q.Set("name", name)
	wantType, wantClass := uint16(dns.TypeA), uint16(dns.ClassINET)
	valid := true
	switch verifChoice(4) {
	case 0:
	case 1:
		s, v := verifDigits(1 + verifChoice(2))
		q.Set("type", s)
		wantType = uint16(v)
	case 2:
		k := verifChoice(4)
		q.Set("type", []string{"A", "aaaa", "TxT", "bogus"}[k])
		wantType = []uint16{dns.TypeA, dns.TypeAAAA, dns.TypeTXT, 0}[k]
		valid = k != 3
	case 3:
		k := verifChoice(2)
		q.Set("qc", []string{"IN", "3"}[k])
		wantClass = []uint16{dns.ClassINET, 3}[k]
	}
	flag := func(name string) (val, ok bool) {
		switch verifChoice(4) {
		case 0:
			return false, true
		case 1:
			q.Set(name, []string{"1", "true", "True"}[verifChoice(3)])
			return true, true
		case 2:
			q.Set(name, []string{"0", "false", "False"}[verifChoice(3)])
			return false, true
		default:
			q.Set(name, "yes")
			return false, false
		}
	}
	cd, cdOK := flag("cd")
	do, doOK := flag("do")
	valid = valid && cdOK && doOK
	r := &http.Request{Method: http.MethodGet, URL: &url.URL{Path: "/resolve", RawQuery: q.Encode()}}
	b, err := httpRequestToMsgJSON(r)
	verifAssert("rejected-iff-a-parameter-is-invalid", (err == nil) == valid)
	if err != nil {
		verifReach("rejected")
		return
	}
	m := &dns.Msg{}
	verifAssert("built-message-decodes", m.Unpack(b) == nil)
	verifAssert("exactly-one-question", len(m.Question) == 1)
	verifAssert("question-as-requested", m.Question[0].Name == dns.Fqdn(name) && m.Question[0].Qtype == wantType && m.Question[0].Qclass == wantClass)
	verifAssert("flags-as-requested", m.CheckingDisabled == cd && m.RecursionDesired && !m.Response)
	o := m.IsEdns0()
	verifAssert("do-bit-as-requested", (o != nil && o.Do()) == do)
	verifReach("built")
}
