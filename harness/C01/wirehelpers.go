package dnsserver

//verif:pkg internal/dnsserver

// verifBodyByte constrains a message body byte to the harness alphabet: 0..3 (label
// lengths, terminator, small type/class values) or a lower-case letter.
func verifBodyByte() byte {
	b := nondetU8()
	verifAssume(verifOr(b <= 3, verifAnd(b >= 'a', b <= 'z')))
	return b
}

// verifWireMsg returns a symbolic wire message of n bytes: a fully symbolic header
// whose section counts are at most 2 / 0 / 0 / 0 and a body over the harness alphabet.
func verifWireMsg(n int) []byte {
	m := make([]byte, n)
	for i := 0; i < n && i < 12; i++ {
		m[i] = nondetU8()
	}
	if n >= 12 {
		verifAssume(m[4] == 0)
		verifAssume(m[5] <= 2)
		for i := 6; i < 12; i++ {
			verifAssume(m[i] == 0)
		}
	}
	for i := 12; i < n; i++ {
		m[i] = verifBodyByte()
	}
	return m
}

