package forward

//verif:pkg internal/dnsserver/forward

import (
	"context"
	"errors"
	"io"
	"net"
	"net/netip"
	"time"

	"github.com/AdguardTeam/AdGuardDNS/internal/dnsserver/pool"
	"github.com/miekg/dns"
)

// verifScriptConn is a connection to the upstream whose write and read outcomes are
// explored choices: 0 works, 1 network error, 2 EOF (peer closed).
type verifScriptConn struct {
	net.Conn
	writeOut, readOut int
	wrote             []byte
	pos               int
	closed            int
}

func (c *verifScriptConn) SetDeadline(time.Time) error { return nil }
func (c *verifScriptConn) Close() error                { c.closed++; return nil }
func (c *verifScriptConn) Write(b []byte) (int, error) {
	switch c.writeOut {
	case 1:
		return 0, verifNetErr{}
	case 2:
		return 0, io.EOF
	}
	c.wrote = append([]byte(nil), b...)
	return len(b), nil
}
func (c *verifScriptConn) Read(p []byte) (int, error) {
	switch c.readOut {
	case 1:
		return 0, verifNetErr{}
	case 2:
		return 0, io.EOF
	}
	// echo the framed request back as a response (QR bit set)
	if c.pos >= len(c.wrote) {
		return 0, io.EOF
	}
	out := append([]byte(nil), c.wrote...)
	if len(out) >= 5 {
		out[4] |= 0x80
	}
	n := copy(p, out[c.pos:])
	c.pos += n
	return n, nil
}

// VerifC17PlainErrors: whenever an exchange with a plain TCP upstream fails only
// because of network errors (refused dial, reset or closed connection, also on the
// retry with a fresh connection after a dead pooled one), the error handed to the
// forwarding handler still is a network error, so that the fallback is tried.
//
//verif:harness name=H17d-plain-errors tier=quick bounds="one TCP upstream with a connection pool; 1..2 consecutive exchanges; every dial either succeeds or is refused (net.Error), every write / read works, fails with a net.Error or hits EOF" reach=answered,network-failure,retried maxpaths=200000
//verif:assume sockets are replaced by scripted connections; timeouts are not modelled (deadlines are accepted and ignored)
func VerifC17PlainErrors() { verifC17PlainErrors(2) }

// VerifC17PlainErrors3 is the thorough variant.
//
//verif:harness name=H17d-plain-errors3 tier=thorough bounds="as H17d-plain-errors with 1..3 consecutive exchanges" reach=answered,network-failure,retried maxpaths=5000000
func VerifC17PlainErrors3() { verifC17PlainErrors(3) }

func verifC17PlainErrors(maxEx int) {
	u := NewUpstreamPlain(&UpstreamPlainConfig{Network: NetworkTCP, Address: netip.MustParseAddrPort("192.0.2.53:53")})
	dials := 0
	u.connsPoolTCP = pool.NewPool(2, func(ctx context.Context) (net.Conn, error) {
		dials++
		if verifChoice(2) == 1 {
			return nil, verifNetErr{}
		}
		return &verifScriptConn{writeOut: verifChoice(3), readOut: verifChoice(3)}, nil
	})
	n := 1 + verifChoice(maxEx)
	for k := 0; k < n; k++ {
		req := &dns.Msg{}
		req.SetQuestion("example.org.", dns.TypeA)
		req.Id = uint16(0x1000 + k)
		before := dials
		resp, _, err := u.Exchange(context.Background(), req)
		if err == nil {
			verifAssert("answer-belongs-to-the-request", resp != nil && resp.Id == req.Id && resp.Response && len(resp.Question) == 1 && resp.Question[0].Name == "example.org.")
			verifReach("answered")
			continue
		}
		// every injected failure is a network error or a closed connection
		var ne net.Error
		verifAssert("network-failure-stays-recognisable", errors.As(err, &ne) || errors.Is(err, io.EOF))
		if !errors.Is(err, io.EOF) {
			verifAssert("refused-or-reset-connection-is-a-network-error-for-the-handler", errors.As(err, &ne))
		}
		if dials-before >= 2 {
			verifReach("retried")
		}
		verifReach("network-failure")
	}
}

// verifUDPReplyConn is a UDP "connection" to the upstream answering with a reply of
// the chosen kind: 0 a valid answer, 1 an answer with a foreign ID, 2 an answer for
// another name, 3 a valid but truncated answer, 4 a network error.
type verifUDPReplyConn struct {
	net.Conn
	kind  int
	wrote []byte
}

func (c *verifUDPReplyConn) SetDeadline(time.Time) error { return nil }
func (c *verifUDPReplyConn) Close() error                { return nil }
func (c *verifUDPReplyConn) Write(b []byte) (int, error) {
	c.wrote = append([]byte(nil), b...)
	return len(b), nil
}
func (c *verifUDPReplyConn) Read(p []byte) (int, error) {
	if c.kind == 4 {
		return 0, verifNetErr{}
	}
	req := &dns.Msg{}
	if err := req.Unpack(c.wrote); err != nil {
		return 0, err
	}
	resp := (&dns.Msg{}).SetReply(req)
	resp.Answer = []dns.RR{&dns.A{Hdr: dns.RR_Header{Name: req.Question[0].Name, Rrtype: dns.TypeA, Class: dns.ClassINET, Ttl: 60}, A: net.IP{192, 0, 2, 9}}}
	switch c.kind {
	case 1:
		resp.Id = req.Id + 1
	case 2:
		resp.Question[0].Name = "other.example."
	case 3:
		resp.Truncated = true
	}
	b, err := resp.Pack()
	if err != nil {
		return 0, err
	}
	return copy(p, b), nil
}

// VerifC17AnyNetwork: an upstream used over UDP with TCP as the retry path hands the
// forwarding handler either a reply that belongs to the request (ID, name, type) or
// an error: a foreign or mismatched UDP reply is never returned as the answer, whatever
// happens to the TCP retry, and a failure of both attempts that is due to the network
// stays a network error (so that the fallback upstream is tried).
//
//verif:harness name=H17e-any-network tier=quick,thorough bounds="one upstream with network 'any'; UDP reply from {valid, foreign ID, other name, truncated, network error}; TCP retry: dial refused, or connection whose write / read work, fail with a net.Error or hit EOF" reach=answered,failed,tcp-retry maxpaths=200000
//verif:assume sockets are replaced by scripted connections; timeouts are not modelled
func VerifC17AnyNetwork() {
	u := NewUpstreamPlain(&UpstreamPlainConfig{Network: NetworkAny, Address: netip.MustParseAddrPort("192.0.2.53:53")})
	udpKind := verifChoice(5)
	u.connsPoolUDP = pool.NewPool(2, func(ctx context.Context) (net.Conn, error) {
		return &verifUDPReplyConn{kind: udpKind}, nil
	})
	tcpDials := 0
	u.connsPoolTCP = pool.NewPool(2, func(ctx context.Context) (net.Conn, error) {
		tcpDials++
		if verifChoice(2) == 1 {
			return nil, verifNetErr{}
		}
		return &verifScriptConn{writeOut: verifChoice(3), readOut: verifChoice(3)}, nil
	})
	req := &dns.Msg{}
	req.SetQuestion("example.org.", dns.TypeA)
	req.Id = 0x1234
	resp, _, err := u.Exchange(context.Background(), req)
	if tcpDials > 0 {
		verifReach("tcp-retry")
	}
	if err == nil {
		verifAssert("answer-belongs-to-the-request", resp != nil && resp.Id == req.Id && resp.Response && len(resp.Question) == 1 && resp.Question[0].Name == "example.org." && resp.Question[0].Qtype == dns.TypeA)
		verifReach("answered")
		return
	}
	verifReach("failed")
	if udpKind == 4 {
		var ne net.Error
		verifAssert("network-failure-stays-recognisable", errors.As(err, &ne))
	}
}
