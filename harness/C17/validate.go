package forward

//verif:pkg internal/dnsserver/forward

import (
	"strings"

	"github.com/miekg/dns"
)

func verifName(n int) string {
	b := make([]byte, n+1)
	for i := 0; i < n; i++ {
		c := nondetU8()
		verifAssume(verifOr(verifAnd(c >= 'a', c <= 'z'), verifAnd(c >= 'A', c <= 'Z'), c == '-', verifAnd(c >= '0', c <= '9')))
		b[i] = c
	}
	b[n] = '.'
	return string(b)
}

func verifLower(c byte) byte {
	if c >= 'A' && c <= 'Z' {
		return c + 32
	}
	return c
}

// VerifC17Validate: an upstream reply is accepted exactly when its ID, its single
// question's type and its name (ASCII case ignored) match the query.
//
//verif:harness name=H17b-validate tier=quick,thorough bounds="IDs, qtypes, qclasses full 16-bit; names of 1..4 symbolic letters/digits/hyphen (both cases); 0..2 questions in the reply" reach=accepted,rejected
func VerifC17Validate() {
	n := 1 + verifChoice(4)
	req := &dns.Msg{}
	req.Id = nondetU16()
	req.Question = []dns.Question{{Name: verifName(n), Qtype: nondetU16(), Qclass: nondetU16()}}
	resp := &dns.Msg{}
	resp.Id = nondetU16()
	nq := verifChoice(3)
	m := n
	if verifChoice(2) == 1 {
		m = 1 + verifChoice(4)
	}
	for i := 0; i < nq; i++ {
		resp.Question = append(resp.Question, dns.Question{Name: verifName(m), Qtype: nondetU16(), Qclass: nondetU16()})
	}
	err := validatePlainResponse(req, resp)

	want := req.Id == resp.Id && nq == 1
	if want {
		q, r := req.Question[0], resp.Question[0]
		want = q.Qtype == r.Qtype && len(q.Name) == len(r.Name)
		if want {
			same := true
			for i := 0; i < len(q.Name); i++ {
				same = verifAnd(same, verifLower(q.Name[i]) == verifLower(r.Name[i]))
			}
			want = same
		}
	}
	verifAssert("accepted-iff-id-type-and-name-match", (err == nil) == want)
	if err == nil {
		verifReach("accepted")
	} else {
		verifReach("rejected")
	}
}

// VerifC17ValidateNames: the name of the reply's question must be the queried name
// itself (ASCII case ignored): a subdomain, a parent, or a name that merely ends or
// begins like it is rejected.
//
//verif:harness name=H17f-validate-names tier=quick,thorough bounds="query example.org. or www.example.org.; reply named as one of 8 related names (equal, other case, subdomain, parent, look-alike with a longer first or last label, root)" reach=accepted,rejected
func VerifC17ValidateNames() {
	qn := []string{"example.org.", "www.example.org."}[verifChoice(2)]
	names := []string{"example.org.", "EXAMPLE.Org.", "www.example.org.", "a.www.example.org.", "org.", "xexample.org.", "example.orgx.", "."}
	rn := names[verifChoice(len(names))]
	id := nondetU16()
	req := &dns.Msg{}
	req.Id = id
	req.Question = []dns.Question{{Name: qn, Qtype: dns.TypeA, Qclass: dns.ClassINET}}
	resp := &dns.Msg{}
	resp.Id = id
	resp.Question = []dns.Question{{Name: rn, Qtype: dns.TypeA, Qclass: dns.ClassINET}}
	err := validatePlainResponse(req, resp)
	want := strings.EqualFold(qn, rn)
	verifAssert("accepted-iff-the-reply-is-for-the-queried-name", (err == nil) == want)
	if err == nil {
		verifReach("accepted")
	} else {
		verifReach("rejected")
	}
}
