package forward

//verif:pkg internal/dnsserver/forward

import (
	"context"
	"errors"
	"io"
	"net"
	"sync"
	"time"

	"github.com/AdguardTeam/AdGuardDNS/internal/dnsserver"
	"github.com/AdguardTeam/golibs/logutil/slogutil"
	"github.com/miekg/dns"
	"golang.org/x/exp/rand"
)

type verifNetErr struct{}

func (verifNetErr) Error() string   { return "net down" }
func (verifNetErr) Timeout() bool   { return true }
func (verifNetErr) Temporary() bool { return true }

var _ net.Error = verifNetErr{}

const (
	verifOutOK = iota
	verifOutServfail
	verifOutNetErr
	verifOutEOF
	verifOutOther
	verifOutNil
	verifOutRespAndErr // a parsed reply together with a validation error
	verifOutN
)

// verifOuts is the set of exchange outcomes explored by the running harness.
var verifOuts = []int{verifOutOK, verifOutServfail, verifOutNetErr, verifOutEOF, verifOutOther, verifOutNil, verifOutRespAndErr}

// verifUps is an upstream whose every exchange outcome is an explored choice.
type verifUps struct {
	name     string
	calls    int
	lastOut  int
	lastResp *dns.Msg
}

func (u *verifUps) Exchange(_ context.Context, req *dns.Msg) (*dns.Msg, Network, error) {
	u.calls++
	u.lastOut = verifOuts[verifChoice(len(verifOuts))]
	u.lastResp = nil
	switch u.lastOut {
	case verifOutOK:
		u.lastResp = (&dns.Msg{}).SetReply(req)
	case verifOutServfail:
		u.lastResp = (&dns.Msg{}).SetRcode(req, dns.RcodeServerFailure)
	case verifOutNetErr:
		return nil, NetworkUDP, verifNetErr{}
	case verifOutEOF:
		return nil, NetworkUDP, io.EOF
	case verifOutOther:
		return nil, NetworkUDP, errors.New("other")
	case verifOutRespAndErr:
		// what UpstreamPlain returns for a reply that does not match the query
		u.lastResp = (&dns.Msg{}).SetReply(req)
		return u.lastResp, NetworkUDP, errors.New("validating response: mismatched id")
	}
	return u.lastResp, NetworkUDP, nil
}
func (u *verifUps) Close() error   { return nil }
func (u *verifUps) String() string { return u.name }

type verifFwdRW struct {
	dnsserver.ResponseWriter
	writes int
	resp   *dns.Msg
}

func (w *verifFwdRW) WriteMsg(_ context.Context, _, resp *dns.Msg) error {
	w.writes++
	w.resp = resp
	return nil
}

// VerifC17Failover: health-check rounds and queries follow the reference state
// machine: failed probes take a main upstream out until the backoff has elapsed and a
// probe succeeds; queries go to one active main upstream, to a fallback exactly once
// on a network error or when no main upstream is active, and fail otherwise.
//
//verif:harness name=H17a-failover tier=quick bounds="2 main upstreams, 0..1 fallback, 3 steps from {health-check round, query}; every exchange outcome from {NOERROR, SERVFAIL, net.Error, other error}; backoff duration and clock readings symbolic" reach=done,backoff-skip,failover,servfail-path,recovered,no-fallbacks maxpaths=400000
//verif:assume clock readings non-decreasing in [2^41, 2^62), backoff in (0, 2^40]; the pick among active upstreams / fallbacks is an explored choice
func VerifC17Failover() {
	verifOuts = []int{verifOutOK, verifOutServfail, verifOutNetErr, verifOutOther}
	verifC17Failover(3, false)
}

// VerifC17Failover2 explores every outcome kind over two steps.
//
//verif:harness name=H17a-failover2 tier=quick bounds="as H17a-failover with 2 steps and every exchange outcome from {NOERROR, SERVFAIL, net.Error, io.EOF, other error, nil response, mismatched reply returned together with an error}" reach=done,failover,servfail-path,no-fallbacks maxpaths=400000
//verif:assume clock readings non-decreasing in [2^41, 2^62), backoff in (0, 2^40]; the pick among active upstreams / fallbacks is an explored choice
func VerifC17Failover2() { verifC17Failover(2, false) }

// VerifC17Init: the start-up probe of NewHandler followed by two steps.
//
//verif:harness name=H17c-init tier=quick bounds="as H17a-failover2 but starting with the start-up probe (refresh(ctx, true) as called by NewHandler when an initial health-check duration is configured), then 2 steps" reach=done,init-probe,no-fallbacks,failover maxpaths=400000
//verif:assume clock readings non-decreasing in [2^41, 2^62), backoff in (0, 2^40]; the pick among active upstreams / fallbacks is an explored choice; NewHandler's own construction code (sockets) is replaced by a literal handler with stub upstreams
func VerifC17Init() {
	verifOuts = []int{verifOutOK, verifOutServfail, verifOutNetErr, verifOutOther}
	verifC17Failover(2, true)
}

// VerifC17Init3 is the thorough variant of VerifC17Init.
//
//verif:harness name=H17c-init3 tier=thorough bounds="as H17c-init with 3 steps after the start-up probe" reach=done,init-probe,no-fallbacks,failover maxpaths=8000000
//verif:assume as H17c-init
func VerifC17Init3() {
	verifOuts = []int{verifOutOK, verifOutServfail, verifOutNetErr, verifOutOther}
	verifC17Failover(3, true)
}

// VerifC17Failover5 is the thorough variant.
//
//verif:harness name=H17a-failover5 tier=thorough bounds="as H17a-failover with 4 steps"  reach=done,backoff-skip,failover,servfail-path,recovered,no-fallbacks maxpaths=8000000
//verif:assume clock readings non-decreasing in [2^41, 2^62), backoff in (0, 2^40]; the pick among active upstreams / fallbacks is an explored choice
func VerifC17Failover5() {
	verifOuts = []int{verifOutOK, verifOutServfail, verifOutNetErr, verifOutOther}
	verifC17Failover(4, false)
}

func verifC17Failover(steps int, initProbe bool) {
	mains := []*verifUps{{name: "m0"}, {name: "m1"}}
	var fbs []*verifUps
	if verifChoice(2) == 1 {
		fbs = []*verifUps{{name: "f0"}}
	}
	backoff := nondetI64()
	verifAssume(backoff > 0)
	verifAssume(backoff <= 1<<40)
	h := &Handler{
		logger:            slogutil.NewDiscardLogger(),
		metrics:           &EmptyMetricsListener{},
		rand:              rand.New(&rand.LockedSource{}),
		activeUpstreamsMu: &sync.RWMutex{},
		hcDomainTmpl:      "probe.example",
		hcBackoff:         time.Duration(backoff),
	}
	for _, m := range mains {
		h.upstreams = append(h.upstreams, &upstreamStatus{upstream: m})
		h.activeUpstreams = append(h.activeUpstreams, m)
	}
	for _, f := range fbs {
		h.fallbacks = append(h.fallbacks, f)
	}

	// reference state
	lastFailed := [2]int64{}
	active := [2]bool{true, true}
	now := int64(1) << 41
	ctx := context.Background()

	if initProbe {
		// the start-up probe: NewHandler calls refresh(ctx, true) when an initial
		// health-check duration is configured
		verifSetClock(now)
		before := [2]int{mains[0].calls, mains[1].calls}
		_ = h.refresh(ctx, true)
		if len(fbs) == 0 {
			verifAssert("without-fallbacks-no-probes", mains[0].calls == before[0] && mains[1].calls == before[1])
			verifAssert("without-fallbacks-never-out-of-rotation", len(h.activeUpstreams) == 2)
		} else {
			for i, m := range mains {
				verifAssert("due-upstream-probed-once", m.calls-before[i] == 1)
				if m.lastOut != verifOutOK {
					lastFailed[i] = now
					active[i] = false
				}
			}
		}
		verifReach("init-probe")
	}

	for s := 0; s < steps; s++ {
		t := nondetI64()
		verifAssume(t >= now)
		verifAssume(t < 1<<62)
		now = t
		verifSetClock(now)
		before := [2]int{mains[0].calls, mains[1].calls}
		fbBefore := 0
		if len(fbs) > 0 {
			fbBefore = fbs[0].calls
		}
		if verifChoice(2) == 0 {
			// health-check round
			_ = h.Refresh(ctx)
			if len(fbs) == 0 {
				verifAssert("without-fallbacks-no-probes", mains[0].calls == before[0] && mains[1].calls == before[1])
				verifAssert("without-fallbacks-never-out-of-rotation", len(h.activeUpstreams) == 2)
				verifReach("no-fallbacks")
				continue
			}
			for i, m := range mains {
				probed := m.calls - before[i]
				if lastFailed[i] != 0 && now-lastFailed[i] < backoff {
					verifAssert("backed-off-upstream-not-probed", probed == 0)
					active[i] = false
					verifReach("backoff-skip")
					continue
				}
				verifAssert("due-upstream-probed-once", probed == 1)
				if m.lastOut == verifOutOK {
					if lastFailed[i] != 0 {
						verifReach("recovered")
					}
					lastFailed[i] = 0
					active[i] = true
				} else {
					lastFailed[i] = now
					active[i] = false
				}
			}
			// compare with the handler's state
			n := 0
			for i, m := range mains {
				if active[i] {
					verifAssert("active-set-equals-reference", n < len(h.activeUpstreams) && h.activeUpstreams[n] == Upstream(m))
					n++
				}
				st := h.upstreams[i].lastFailedHealthcheck
				verifAssert("last-failed-probe-time-equals-reference", (lastFailed[i] == 0 && st.IsZero()) || (lastFailed[i] != 0 && st.UnixNano() == lastFailed[i]))
			}
			verifAssert("active-set-size-equals-reference", n == len(h.activeUpstreams))
			verifAssert("fallbacks-not-probed", len(fbs) == 0 || fbs[0].calls == fbBefore)
			continue
		}

		// query
		req := &dns.Msg{}
		req.SetQuestion("example.org.", dns.TypeA)
		rw := &verifFwdRW{}
		err := h.ServeDNS(ctx, rw, req)
		c0, c1 := mains[0].calls-before[0], mains[1].calls-before[1]
		nActive := 0
		for i := range mains {
			if active[i] {
				nActive++
			}
		}
		var answering *verifUps
		useFallback := false
		if nActive == 0 {
			verifAssert("inactive-main-upstreams-not-queried", c0 == 0 && c1 == 0)
			useFallback = true
		} else {
			verifAssert("exactly-one-main-upstream-queried", c0+c1 == 1)
			idx := 0
			if c1 == 1 {
				idx = 1
			}
			verifAssert("queried-main-upstream-is-active", active[idx])
			answering = mains[idx]
			useFallback = answering.lastOut == verifOutNetErr
		}
		if useFallback && len(fbs) > 0 {
			verifAssert("fallback-tried-exactly-once", fbs[0].calls-fbBefore == 1)
			answering = fbs[0]
			verifReach("failover")
		} else if len(fbs) > 0 {
			verifAssert("fallback-not-used-when-main-answers-or-fails-otherwise", fbs[0].calls == fbBefore)
		}
		ok := answering != nil && (answering.lastOut == verifOutOK || answering.lastOut == verifOutServfail)
		if ok {
			verifAssert("answer-of-the-answering-upstream-is-written", err == nil && rw.writes == 1 && rw.resp == answering.lastResp)
		} else {
			verifAssert("failure-is-reported-as-error-without-a-response", err != nil && rw.writes == 0)
			verifReach("servfail-path")
		}
	}
	verifReach("done")
}
