package querylog

//verif:pkg internal/querylog
//verif:stub os.OpenFile verifOpenFile
//verif:stub (*os.File).Write verifFileWrite
//verif:stub (*os.File).Close verifFileClose
//verif:stub encoding/json.NewEncoder verifNewEncoder
//verif:stub (*encoding/json.Encoder).Encode verifEncode
//verif:stub encoding/json.Marshal verifMarshalEntry
//verif:stub (*os.File).WriteString verifFileWriteString

import (
	"encoding/json"
	"io"
	"os"
	"strconv"
	"strings"
)

// ghost file system of the symbolic build
var (
	verifFile    []byte
	verifWrites  int
	verifOpen    int
	verifEncTo   io.Writer
	verifRecords int
)

func verifLogPath() string { return "/ghost/querylog.jsonl" }

// verifSlowOpen makes opening the log file take time (other goroutines run meanwhile).
var verifSlowOpen bool

func verifOpenFile(name string, flag int, perm os.FileMode) (*os.File, error) {
	if verifSlowOpen {
		verifYield()
	}
	verifOpen++
	return nil, nil
}

func verifFileWrite(f *os.File, b []byte) (int, error) {
	verifWrites++
	verifFile = append(verifFile, b...)
	if verifSlowOpen {
		// every write call is a system call: other goroutines may run before the next one
		verifYield()
	}
	return len(b), nil
}

func verifFileWriteString(f *os.File, s string) (int, error) { return verifFileWrite(f, []byte(s)) }

// verifEntryLine is the ghost encoding of an entry, without the line feed.
func verifEntryLine(v any) string {
	je, ok := v.(*jsonlEntry)
	if !ok {
		return "{\"record\":1}"
	}
	ip := "-"
	if je.RemoteIP != nil {
		ip = je.RemoteIP.String()
	}
	return string(je.ProfileID) + "|" + string(je.DeviceID) + "|" + je.DomainFQDN + "|" + strconv.Itoa(int(je.RequestType)) + "|" + ip
}

func verifMarshalEntry(v any) ([]byte, error) {
	verifRecords++
	return []byte(verifEntryLine(v)), nil
}

func verifFileClose(f *os.File) error {
	verifOpen--
	return nil
}

func verifNewEncoder(w io.Writer) *json.Encoder {
	verifEncTo = w
	return nil
}

func verifEncode(enc *json.Encoder, v any) error {
	verifRecords++
	_, err := verifEncTo.Write([]byte(verifEntryLine(v) + "\n"))
	return err
}

// verifLoggedRecords parses what reached the (ghost) file, record by record.
func verifLoggedRecords(path string) (recs []verifRec) {
	for _, ln := range strings.Split(strings.TrimSuffix(string(verifFile), "\n"), "\n") {
		f := strings.Split(ln, "|")
		if len(f) != 5 {
			recs = append(recs, verifRec{fqdn: "<malformed line>"})
			continue
		}
		qt, _ := strconv.Atoi(f[3])
		r := verifRec{profile: f[0], device: f[1], fqdn: f[2], qtype: uint16(qt)}
		if f[4] != "-" {
			r.hasIP, r.ip = true, f[4]
		}
		recs = append(recs, r)
	}
	return recs
}

// verifLogLines returns the number of lines and whether the file consists only of
// complete records written by exactly one Write call each.
func verifLogLines(path string) (lines int, clean bool) {
	for _, c := range verifFile {
		if c == '\n' {
			lines++
		}
	}
	clean = verifOpen == 0 && (len(verifFile) == 0 || verifFile[len(verifFile)-1] == '\n')
	return lines, clean
}

// verifSlowLogPath: opening the log file takes time (a scheduling point).
func verifSlowLogPath() string {
	verifSlowOpen = true
	return verifLogPath()
}

// verifReleaseLog lets the pending opens finish (nothing to do for the ghost file).
func verifReleaseLog(path string, writers int) {}

// verifStressLog has nothing to do in the symbolic build: the interleavings of the
// write calls are explored by the scheduler.
func verifStressLog() (broken bool) { return false }
