package querylog

//verif:pkg internal/querylog
//verif:stub os.OpenFile verifOpenFile
//verif:stub (*os.File).Write verifFileWrite
//verif:stub (*os.File).Close verifFileClose
//verif:stub encoding/json.NewEncoder verifNewEncoder
//verif:stub (*encoding/json.Encoder).Encode verifEncode

import (
	"encoding/json"
	"io"
	"os"
)

// ghost file system of the symbolic build
var (
	verifFile    []byte
	verifWrites  int
	verifOpen    int
	verifEncTo   io.Writer
	verifRecords int
)

func verifLogPath() string { return "/ghost/querylog.jsonl" }

func verifOpenFile(name string, flag int, perm os.FileMode) (*os.File, error) {
	verifOpen++
	return nil, nil
}

func verifFileWrite(f *os.File, b []byte) (int, error) {
	verifWrites++
	verifFile = append(verifFile, b...)
	return len(b), nil
}

func verifFileClose(f *os.File) error {
	verifOpen--
	return nil
}

func verifNewEncoder(w io.Writer) *json.Encoder {
	verifEncTo = w
	return nil
}

func verifEncode(enc *json.Encoder, v any) error {
	verifRecords++
	if je, ok := v.(*jsonlEntry); ok {
		r := verifRec{profile: string(je.ProfileID), device: string(je.DeviceID), fqdn: je.DomainFQDN, qtype: uint16(je.RequestType)}
		if je.RemoteIP != nil {
			r.hasIP, r.ip = true, je.RemoteIP.String()
		}
		verifEncoded = append(verifEncoded, r)
	}
	_, err := verifEncTo.Write([]byte("{\"record\":1}\n"))
	return err
}

var verifEncoded []verifRec

// verifLoggedRecords returns what was logged, record by record.
func verifLoggedRecords(path string) []verifRec { return verifEncoded }

// verifLogLines returns the number of lines and whether the file consists only of
// complete records written by exactly one Write call each.
func verifLogLines(path string) (lines int, clean bool) {
	for _, c := range verifFile {
		if c == '\n' {
			lines++
		}
	}
	clean = verifWrites == lines && verifOpen == 0 && len(verifFile) == lines*len("{\"record\":1}\n")
	return lines, clean
}
