package ratelimitmw

//verif:pkg internal/dnssvc/internal/ratelimitmw

import (
	"context"
	"net"
	"net/netip"
	"time"

	"github.com/AdguardTeam/AdGuardDNS/internal/access"
	"github.com/AdguardTeam/AdGuardDNS/internal/agd"
	"github.com/AdguardTeam/AdGuardDNS/internal/agdtest"
	"github.com/AdguardTeam/AdGuardDNS/internal/dnsmsg"
	"github.com/AdguardTeam/AdGuardDNS/internal/dnsserver"
	"github.com/AdguardTeam/AdGuardDNS/internal/dnssvc/internal/mainmw"
	"github.com/AdguardTeam/AdGuardDNS/internal/filter"
	"github.com/AdguardTeam/AdGuardDNS/internal/geoip"
	"github.com/AdguardTeam/golibs/logutil/slogutil"
	"github.com/AdguardTeam/golibs/netutil"
	"github.com/miekg/dns"
)

type verifAllowAll15 struct{}

func (verifAllowAll15) IsBlockedHost(string, uint16) bool { return false }
func (verifAllowAll15) IsBlockedIP(netip.Addr) bool       { return false }

type verifFinder15 struct{ res agd.DeviceResult }

func (f verifFinder15) Find(context.Context, *dns.Msg, netip.AddrPort, netip.AddrPort) agd.DeviceResult {
	return f.res
}

// verifGeo15 places the client in a chosen autonomous system.
type verifGeo15 struct{ asn geoip.ASN }

func (verifGeo15) SubnetByLocation(*geoip.Location, netutil.AddrFamily) (netip.Prefix, error) {
	return netip.Prefix{}, nil
}
func (g verifGeo15) Data(_ string, ip netip.Addr) (*geoip.Location, error) {
	return &geoip.Location{Country: "NL", ASN: g.asn}, nil
}

type verifRW15 struct {
	writes int
	addr   [4]byte
}

func (w *verifRW15) LocalAddr() net.Addr { return &net.UDPAddr{IP: net.IP{192, 0, 2, 1}, Port: 53} }
func (w *verifRW15) RemoteAddr() net.Addr {
	return &net.UDPAddr{IP: net.IP{w.addr[0], w.addr[1], w.addr[2], w.addr[3]}, Port: 4321}
}
func (w *verifRW15) WriteMsg(context.Context, *dns.Msg, *dns.Msg) error { w.writes++; return nil }

// VerifC15AccessBlocked: through the real access-control middleware, the profile's
// real access rules and the real main middleware, a query that the profile's access
// settings block - by the client's subnet, by its autonomous system or by the queried
// name - is never resolved, logged or billed, and one that they do not block is
// logged and billed exactly once.
//
//verif:harness name=H15f-access-blocked tier=quick,thorough bounds="profile with query logging on and one access rule from {blocked subnet, blocked ASN, blocked ASN overridden by an allowed subnet, blocked name}; client inside or outside the rule (address, ASN, queried name)" reach=blocked,served,blocked-by-asn maxpaths=20000
//verif:assume device finder, GeoIP, filter storage, upstream, billing and query log are stubs; global access manager allows everything
func VerifC15AccessBlocked() {
	rule := verifChoice(4)
	inside := verifChoice(2) == 1
	conf := &access.ProfileConfig{}
	client := [4]byte{198, 51, 100, 7}
	asn := geoip.ASN(64501)
	qname := "example.org."
	blocked := inside
	switch rule {
	case 0:
		conf.BlockedNets = []netip.Prefix{netip.MustParsePrefix("203.0.113.0/24")}
		if inside {
			client = [4]byte{203, 0, 113, 9}
		}
	case 1:
		conf.BlockedASN = []geoip.ASN{64500}
		if inside {
			asn = 64500
		}
	case 2:
		conf.BlockedASN = []geoip.ASN{64500}
		conf.AllowedNets = []netip.Prefix{netip.MustParsePrefix("198.51.100.0/24")}
		asn = 64500
		if inside {
			// blocked system, but not in the allowed subnet
			client = [4]byte{203, 0, 113, 9}
		}
	default:
		conf.BlocklistDomainRules = []string{"||blocked.example^"}
		if inside {
			qname = "sub.blocked.example."
		}
	}
	prof := &agd.Profile{
		ID:                  "prof1234",
		Access:              access.NewDefaultProfile(conf),
		FilterConfig:        &filter.ConfigClient{},
		BlockingMode:        &dnsmsg.BlockingModeNullIP{},
		FilteredResponseTTL: 10 * time.Second,
		QueryLogEnabled:     true,
		IPLogEnabled:        true,
	}
	dev := &agd.Device{ID: "dev12345"}
	msgs, err := dnsmsg.NewConstructor(&dnsmsg.ConstructorConfig{
		Cloner:              agdtest.NewCloner(),
		BlockingMode:        &dnsmsg.BlockingModeNullIP{},
		StructuredErrors:    agdtest.NewSDEConfig(false),
		FilteredResponseTTL: 10 * time.Second,
	})
	verifAssume(err == nil)
	mw := New(&Config{
		Logger:           slogutil.NewDiscardLogger(),
		Messages:         msgs,
		FilteringGroup:   &agd.FilteringGroup{},
		ServerGroup:      &agd.ServerGroup{},
		Server:           &agd.Server{Name: "s", Protocol: agd.ProtoDNS},
		StructuredErrors: agdtest.NewSDEConfig(false),
		AccessManager:    verifAllowAll15{},
		DeviceFinder:     verifFinder15{res: &agd.DeviceResultOK{Profile: prof, Device: dev}},
		ErrColl:          agdtest.NewErrorCollector(),
		GeoIP:            verifGeo15{asn: asn},
		Metrics:          EmptyMetrics{},
		Protocols:        []agd.Protocol{},
	})
	chain := mainmw.VerifNewChainEnv()
	rw := &verifRW15{addr: client}
	req := &dns.Msg{}
	req.SetQuestion(qname, dns.TypeA)
	ctx := dnsserver.ContextWithRequestInfo(context.Background(), &dnsserver.RequestInfo{StartTime: time.Unix(1_700_000_000, 0)})
	serveErr := mw.Wrap(chain.Handler()).ServeDNS(ctx, rw, req)
	verifAssert("no-error", serveErr == nil)
	logged, billed, resolved := chain.Counts()
	if blocked {
		verifAssert("access-blocked-query-is-not-answered-or-resolved", rw.writes == 0 && resolved == 0)
		verifAssert("access-blocked-query-is-not-logged", logged == 0)
		verifAssert("access-blocked-query-is-not-billed", billed == 0)
		verifReach("blocked")
		if rule == 1 {
			verifReach("blocked-by-asn")
		}
	} else {
		verifAssert("unblocked-query-is-answered-logged-and-billed-once", rw.writes == 1 && resolved == 1 && logged == 1 && billed == 1)
		verifReach("served")
	}
}

// verifSeqFinder15 answers the i-th request with the i-th result.
type verifSeqFinder15 struct {
	res []agd.DeviceResult
	n   *int
}

func (f verifSeqFinder15) Find(context.Context, *dns.Msg, netip.AddrPort, netip.AddrPort) agd.DeviceResult {
	r := f.res[*f.n]
	*f.n++
	return r
}

// VerifC15Sequence: over 2..3 consecutive requests of different requesters through
// the real access / rate-limit middleware (recycled request information) and the real
// main middleware, exactly the queries attributed to a profile are billed, exactly
// those of profiles with query logging are logged, and a query of a client without a
// profile leaves no record, whatever came before it.
//
//verif:harness name=H15g-sequence tier=quick,thorough bounds="2..3 consecutive queries; each requester from {no profile, profile with query logging, profile without query logging}; the request-information pool hands released objects back" reach=done,anonymous-after-profile maxpaths=20000
//verif:assume device finder, GeoIP, filter storage, upstream, billing and query log are stubs; global access manager allows everything
func VerifC15Sequence() {
	verifPoolMode(1)
	profs := []*agd.Profile{
		nil,
		{ID: "prof0001", Access: access.EmptyProfile{}, FilterConfig: &filter.ConfigClient{}, BlockingMode: &dnsmsg.BlockingModeNullIP{}, FilteredResponseTTL: 10 * time.Second, QueryLogEnabled: true, IPLogEnabled: true},
		{ID: "prof0002", Access: access.EmptyProfile{}, FilterConfig: &filter.ConfigClient{}, BlockingMode: &dnsmsg.BlockingModeNullIP{}, FilteredResponseTTL: 10 * time.Second},
	}
	n := 2 + verifChoice(2)
	var kinds []int
	var results []agd.DeviceResult
	for i := 0; i < n; i++ {
		k := verifChoice(3)
		kinds = append(kinds, k)
		if k == 0 {
			results = append(results, nil)
		} else {
			results = append(results, &agd.DeviceResultOK{Profile: profs[k], Device: &agd.Device{ID: "dev12345"}})
		}
	}
	msgs, err := dnsmsg.NewConstructor(&dnsmsg.ConstructorConfig{
		Cloner:              agdtest.NewCloner(),
		BlockingMode:        &dnsmsg.BlockingModeNullIP{},
		StructuredErrors:    agdtest.NewSDEConfig(false),
		FilteredResponseTTL: 10 * time.Second,
	})
	verifAssume(err == nil)
	calls := 0
	mw := New(&Config{
		Logger:           slogutil.NewDiscardLogger(),
		Messages:         msgs,
		FilteringGroup:   &agd.FilteringGroup{ID: "fg", FilterConfig: &filter.ConfigGroup{}},
		ServerGroup:      &agd.ServerGroup{},
		Server:           &agd.Server{Name: "s", Protocol: agd.ProtoDNS},
		StructuredErrors: agdtest.NewSDEConfig(false),
		AccessManager:    verifAllowAll15{},
		DeviceFinder:     verifSeqFinder15{res: results, n: &calls},
		ErrColl:          agdtest.NewErrorCollector(),
		GeoIP:            verifGeo15{asn: 64501},
		Metrics:          EmptyMetrics{},
		Protocols:        []agd.Protocol{},
	})
	chain := mainmw.VerifNewChainEnv()
	h := mw.Wrap(chain.Handler())
	wantLogged, wantBilled := 0, 0
	for i := 0; i < n; i++ {
		rw := &verifRW15{addr: [4]byte{198, 51, 100, byte(7 + i)}}
		req := &dns.Msg{}
		req.SetQuestion("example.org.", dns.TypeA)
		ctx := dnsserver.ContextWithRequestInfo(context.Background(), &dnsserver.RequestInfo{StartTime: time.Unix(1_700_000_000, 0)})
		serveErr := h.ServeDNS(ctx, rw, req)
		verifAssert("no-error", serveErr == nil)
		verifAssert("query-answered", rw.writes == 1)
		if kinds[i] != 0 {
			wantBilled++
		}
		if kinds[i] == 1 {
			wantLogged++
		}
		logged, billed, _ := chain.Counts()
		verifAssert("billed-iff-attributed-to-a-profile", billed == wantBilled)
		verifAssert("logged-iff-attributed-to-a-profile-with-query-logging", logged == wantLogged)
		if i > 0 && kinds[i] == 0 && kinds[i-1] != 0 {
			verifReach("anonymous-after-profile")
		}
	}
	verifReach("done")
}
