package querylog

//verif:pkg internal/querylog

import (
	"bytes"
	"encoding/json"
	"io"
	"os"
	"path/filepath"
	"runtime"
	"syscall"
	"time"
)

var verifTmpDir string

func verifLogPath() string {
	d, err := os.MkdirTemp("", "verif-qlog-")
	if err != nil {
		panic(err)
	}
	verifTmpDir = d
	return filepath.Join(d, "querylog.jsonl")
}

// verifLoggedRecords parses the file written so far.
func verifLoggedRecords(path string) (recs []verifRec) {
	b, err := os.ReadFile(verifRealPath(path))
	if err != nil {
		return nil
	}
	for _, ln := range bytes.Split(bytes.TrimSuffix(b, []byte("\n")), []byte("\n")) {
		var v struct {
			IP      *string `json:"ip"`
			Profile string  `json:"b"`
			Device  string  `json:"i"`
			FQDN    string  `json:"n"`
			QType   uint16  `json:"q"`
		}
		if json.Unmarshal(ln, &v) != nil {
			continue
		}
		r := verifRec{profile: v.Profile, device: v.Device, fqdn: v.FQDN, qtype: v.QType}
		if v.IP != nil {
			r.hasIP, r.ip = true, *v.IP
		}
		recs = append(recs, r)
	}
	return recs
}

func verifLogLines(path string) (lines int, clean bool) {
	defer os.RemoveAll(verifTmpDir)
	b, err := os.ReadFile(verifRealPath(path))
	if err != nil {
		return 0, false
	}
	clean = len(b) == 0 || b[len(b)-1] == '\n'
	for _, ln := range bytes.Split(bytes.TrimSuffix(b, []byte("\n")), []byte("\n")) {
		lines++
		var v map[string]any
		if json.Unmarshal(ln, &v) != nil {
			clean = false
		}
	}
	return lines, clean
}

var verifFIFOData []byte

// verifSlowLogPath: the log file is a FIFO, so every open blocks until the harness
// opens the reading side; one P, as the goroutines of the symbolic build.
func verifSlowLogPath() string {
	runtime.GOMAXPROCS(1)
	d, err := os.MkdirTemp("", "verif-qlog-")
	if err != nil {
		panic(err)
	}
	verifTmpDir = d
	p := filepath.Join(d, "querylog.fifo")
	if err = syscall.Mkfifo(p, 0o600); err != nil {
		panic(err)
	}
	return p
}

// verifReleaseLog opens the reading side and collects everything the writers write.
func verifReleaseLog(path string, writers int) {
	f, err := os.OpenFile(path, os.O_RDONLY, 0)
	if err != nil {
		panic(err)
	}
	defer f.Close()
	// the writers write one line each and close; EOF arrives once all have closed
	done := make(chan struct{})
	go func() {
		defer close(done)
		verifFIFOData, _ = io.ReadAll(f)
	}()
	select {
	case <-done:
	case <-time.After(5 * time.Second):
	}
	real := filepath.Join(verifTmpDir, "querylog.jsonl")
	_ = os.WriteFile(real, verifFIFOData, 0o600)
}

func verifRealPath(path string) string {
	if filepath.Base(path) == "querylog.fifo" {
		return filepath.Join(filepath.Dir(path), "querylog.jsonl")
	}
	return path
}
