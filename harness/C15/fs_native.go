package querylog

//verif:pkg internal/querylog

import (
	"bytes"
	"context"
	"encoding/json"
	"io"
	"os"
	"path/filepath"
	"runtime"
	"strconv"
	"sync"
	"syscall"
	"time"

	"github.com/AdguardTeam/AdGuardDNS/internal/agd"
	"github.com/AdguardTeam/golibs/logutil/slogutil"
)

var verifTmpDir string

func verifLogPath() string {
	d, err := os.MkdirTemp("", "verif-qlog-")
	if err != nil {
		panic(err)
	}
	verifTmpDir = d
	return filepath.Join(d, "querylog.jsonl")
}

// verifLoggedRecords parses the file written so far.
func verifLoggedRecords(path string) (recs []verifRec) {
	b, err := os.ReadFile(verifRealPath(path))
	if err != nil {
		return nil
	}
	for _, ln := range bytes.Split(bytes.TrimSuffix(b, []byte("\n")), []byte("\n")) {
		var v struct {
			IP      *string `json:"ip"`
			Profile string  `json:"b"`
			Device  string  `json:"i"`
			FQDN    string  `json:"n"`
			QType   uint16  `json:"q"`
		}
		if json.Unmarshal(ln, &v) != nil {
			continue
		}
		r := verifRec{profile: v.Profile, device: v.Device, fqdn: v.FQDN, qtype: v.QType}
		if v.IP != nil {
			r.hasIP, r.ip = true, *v.IP
		}
		recs = append(recs, r)
	}
	return recs
}

func verifLogLines(path string) (lines int, clean bool) {
	defer os.RemoveAll(verifTmpDir)
	b, err := os.ReadFile(verifRealPath(path))
	if err != nil {
		return 0, false
	}
	clean = len(b) == 0 || b[len(b)-1] == '\n'
	for _, ln := range bytes.Split(bytes.TrimSuffix(b, []byte("\n")), []byte("\n")) {
		lines++
		var v map[string]any
		if json.Unmarshal(ln, &v) != nil {
			clean = false
		}
	}
	return lines, clean
}

var verifFIFOData []byte

// verifSlowLogPath: the log file is a FIFO, so every open blocks until the harness
// opens the reading side; one P, as the goroutines of the symbolic build.
func verifSlowLogPath() string {
	runtime.GOMAXPROCS(1)
	d, err := os.MkdirTemp("", "verif-qlog-")
	if err != nil {
		panic(err)
	}
	verifTmpDir = d
	p := filepath.Join(d, "querylog.fifo")
	if err = syscall.Mkfifo(p, 0o600); err != nil {
		panic(err)
	}
	return p
}

// verifReleaseLog opens the reading side and collects everything the writers write.
func verifReleaseLog(path string, writers int) {
	f, err := os.OpenFile(path, os.O_RDONLY, 0)
	if err != nil {
		panic(err)
	}
	defer f.Close()
	// the writers write one line each and close; EOF arrives once all have closed
	done := make(chan struct{})
	go func() {
		defer close(done)
		verifFIFOData, _ = io.ReadAll(f)
	}()
	select {
	case <-done:
	case <-time.After(5 * time.Second):
	}
	real := filepath.Join(verifTmpDir, "querylog.jsonl")
	_ = os.WriteFile(real, verifFIFOData, 0o600)
}

func verifRealPath(path string) string {
	if filepath.Base(path) == "querylog.fifo" {
		return filepath.Join(filepath.Dir(path), "querylog.jsonl")
	}
	return path
}


// verifStressLog looks natively for an interleaving of the write calls of concurrent
// writers, which cannot be forced: 8 goroutines append 150 entries each to one regular
// file; a line that is not exactly one entry's record, or a missing / duplicated
// record, is reported.  With one write call per record (O_APPEND) none exists.
func verifStressLog() (broken bool) {
	old := runtime.GOMAXPROCS(8)
	defer runtime.GOMAXPROCS(old)
	d, err := os.MkdirTemp("", "verif-qlog-stress-")
	if err != nil {
		panic(err)
	}
	defer os.RemoveAll(d)
	p := filepath.Join(d, "querylog.jsonl")
	l := NewFileSystem(&FileSystemConfig{Logger: slogutil.NewDiscardLogger(), Path: p})
	const writers, each = 8, 150
	wg := &sync.WaitGroup{}
	for w := 0; w < writers; w++ {
		wg.Add(1)
		go func() {
			defer wg.Done()
			for k := 0; k < each; k++ {
				e := verifEntry()
				e.ProfileID = agd.ProfileID("prof" + strconv.Itoa(1000+w))
				e.DomainFQDN = "n" + strconv.Itoa(k) + ".w" + strconv.Itoa(w) + ".example."
				_ = l.Write(context.Background(), e)
			}
		}()
	}
	wg.Wait()
	b, err := os.ReadFile(p)
	if err != nil {
		return true
	}
	seen := map[string]int{}
	lines := bytes.Split(bytes.TrimSuffix(b, []byte("\n")), []byte("\n"))
	for _, ln := range lines {
		var v struct {
			Profile string `json:"b"`
			FQDN    string `json:"n"`
		}
		if json.Unmarshal(ln, &v) != nil {
			return true
		}
		seen[v.Profile+"/"+v.FQDN]++
	}
	if len(lines) != writers*each || len(seen) != writers*each {
		return true
	}
	return false
}
