package querylog

//verif:pkg internal/querylog

import (
	"bytes"
	"encoding/json"
	"os"
	"path/filepath"
)

var verifTmpDir string

func verifLogPath() string {
	d, err := os.MkdirTemp("", "verif-qlog-")
	if err != nil {
		panic(err)
	}
	verifTmpDir = d
	return filepath.Join(d, "querylog.jsonl")
}

func verifLogLines(path string) (lines int, clean bool) {
	defer os.RemoveAll(verifTmpDir)
	b, err := os.ReadFile(path)
	if err != nil {
		return 0, false
	}
	clean = len(b) == 0 || b[len(b)-1] == '\n'
	for _, ln := range bytes.Split(bytes.TrimSuffix(b, []byte("\n")), []byte("\n")) {
		lines++
		var v map[string]any
		if json.Unmarshal(ln, &v) != nil {
			clean = false
		}
	}
	return lines, clean
}
