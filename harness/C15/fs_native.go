package querylog

//verif:pkg internal/querylog

import (
	"bytes"
	"encoding/json"
	"os"
	"path/filepath"
)

var verifTmpDir string

func verifLogPath() string {
	d, err := os.MkdirTemp("", "verif-qlog-")
	if err != nil {
		panic(err)
	}
	verifTmpDir = d
	return filepath.Join(d, "querylog.jsonl")
}

// verifLoggedRecords parses the file written so far.
func verifLoggedRecords(path string) (recs []verifRec) {
	b, err := os.ReadFile(path)
	if err != nil {
		return nil
	}
	for _, ln := range bytes.Split(bytes.TrimSuffix(b, []byte("\n")), []byte("\n")) {
		var v struct {
			IP      *string `json:"ip"`
			Profile string  `json:"b"`
			Device  string  `json:"i"`
			FQDN    string  `json:"n"`
			QType   uint16  `json:"q"`
		}
		if json.Unmarshal(ln, &v) != nil {
			continue
		}
		r := verifRec{profile: v.Profile, device: v.Device, fqdn: v.FQDN, qtype: v.QType}
		if v.IP != nil {
			r.hasIP, r.ip = true, *v.IP
		}
		recs = append(recs, r)
	}
	return recs
}

func verifLogLines(path string) (lines int, clean bool) {
	defer os.RemoveAll(verifTmpDir)
	b, err := os.ReadFile(path)
	if err != nil {
		return 0, false
	}
	clean = len(b) == 0 || b[len(b)-1] == '\n'
	for _, ln := range bytes.Split(bytes.TrimSuffix(b, []byte("\n")), []byte("\n")) {
		lines++
		var v map[string]any
		if json.Unmarshal(ln, &v) != nil {
			clean = false
		}
	}
	return lines, clean
}
