package mainmw

//verif:pkg internal/dnssvc/internal/mainmw

import (
	"fmt"
	"context"
	"net"
	"net/netip"
	"time"

	"github.com/AdguardTeam/AdGuardDNS/internal/agd"
	"github.com/AdguardTeam/AdGuardDNS/internal/agdtest"
	"github.com/AdguardTeam/AdGuardDNS/internal/dnsmsg"
	"github.com/AdguardTeam/AdGuardDNS/internal/dnsserver"
	"github.com/AdguardTeam/AdGuardDNS/internal/filter"
	"github.com/AdguardTeam/AdGuardDNS/internal/geoip"
	"github.com/AdguardTeam/AdGuardDNS/internal/querylog"
	"github.com/AdguardTeam/golibs/logutil/slogutil"
	"github.com/AdguardTeam/golibs/netutil"
	"github.com/miekg/dns"
)

// --- recorder stubs shared by the mainmw harnesses

type verifFlt struct {
	reqRes, respRes filter.Result
	reqCalls        int
	respCalls       int
}

func (f *verifFlt) FilterRequest(context.Context, *filter.Request) (filter.Result, error) {
	f.reqCalls++
	return f.reqRes, nil
}
func (f *verifFlt) FilterResponse(context.Context, *filter.Response) (filter.Result, error) {
	f.respCalls++
	return f.respRes, nil
}

type verifStorage struct {
	flt      *verifFlt
	lastConf filter.Config
	calls    int
}

func (s *verifStorage) ForConfig(_ context.Context, c filter.Config) filter.Interface {
	s.calls++
	s.lastConf = c
	if c == nil {
		return filter.Empty{}
	}
	return s.flt
}
func (s *verifStorage) HasListID(filter.ID) bool { return true }

type verifBill struct {
	calls int
	id    agd.DeviceID
	ctry  geoip.Country
	asn   geoip.ASN
	start time.Time
	proto agd.Protocol
}

func (b *verifBill) Record(_ context.Context, id agd.DeviceID, c geoip.Country, a geoip.ASN, s time.Time, p agd.Protocol) {
	b.calls++
	b.id, b.ctry, b.asn, b.start, b.proto = id, c, a, s, p
}

type verifQLog struct {
	calls int
	e     *querylog.Entry
}

func (q *verifQLog) Write(_ context.Context, e *querylog.Entry) error {
	q.calls++
	q.e = e
	return nil
}

type verifRuleStat struct {
	calls int
	id    filter.ID
}

func (r *verifRuleStat) Collect(_ context.Context, id filter.ID, _ filter.RuleText) {
	r.calls++
	r.id = id
}

type verifMetrics struct{}

func (verifMetrics) OnRequest(context.Context, *RequestMetrics) {}

// verifGeoIP records which addresses the middleware asks about.
type verifGeoIP struct {
	asked []netip.Addr
	hosts []string
}

func (*verifGeoIP) SubnetByLocation(*geoip.Location, netutil.AddrFamily) (netip.Prefix, error) {
	return netip.Prefix{}, nil
}
func (g *verifGeoIP) Data(host string, ip netip.Addr) (*geoip.Location, error) {
	g.asked = append(g.asked, ip)
	g.hosts = append(g.hosts, host)
	return &geoip.Location{Country: "NL"}, nil
}

type verifUpstream struct {
	calls int
	resp  *dns.Msg
	ip    [4]byte
	ttl   uint32
	req   *dns.Msg
	rcode int
}

func (u *verifUpstream) ServeDNS(ctx context.Context, rw dnsserver.ResponseWriter, req *dns.Msg) error {
	u.calls++
	u.req = req
	resp := (&dns.Msg{}).SetReply(req)
	resp.Answer = []dns.RR{&dns.A{
		Hdr: dns.RR_Header{Name: req.Question[0].Name, Rrtype: dns.TypeA, Class: dns.ClassINET, Ttl: u.ttl},
		A:   net.IP{u.ip[0], u.ip[1], u.ip[2], u.ip[3]},
	}}
	if u.rcode != dns.RcodeSuccess {
		resp.Rcode = u.rcode
		resp.Answer = nil
	}
	u.resp = resp
	return rw.WriteMsg(ctx, req, resp)
}

type verifMainRW struct {
	writes int
	resp   *dns.Msg
}

func (w *verifMainRW) LocalAddr() net.Addr  { return &net.UDPAddr{IP: net.IP{192, 0, 2, 1}, Port: 53} }
func (w *verifMainRW) RemoteAddr() net.Addr { return &net.UDPAddr{IP: net.IP{198, 51, 100, 7}, Port: 4321} }
func (w *verifMainRW) WriteMsg(_ context.Context, _, resp *dns.Msg) error {
	w.writes++
	w.resp = resp
	return nil
}

type verifEnv struct {
	mw    *Middleware
	strg  *verifStorage
	flt   *verifFlt
	bill  *verifBill
	qlog  *verifQLog
	rstat *verifRuleStat
	ups   *verifUpstream
	rw    *verifMainRW
	geo   *verifGeoIP
}

func verifNewEnv() *verifEnv { return verifNewEnvMode(&dnsmsg.BlockingModeNullIP{}) }

func verifNewEnvMode(bm dnsmsg.BlockingMode) *verifEnv {
	e := &verifEnv{flt: &verifFlt{}, bill: &verifBill{}, qlog: &verifQLog{}, rstat: &verifRuleStat{}, ups: &verifUpstream{ttl: 300, ip: [4]byte{93, 184, 216, 34}}, rw: &verifMainRW{}, geo: &verifGeoIP{}}
	e.strg = &verifStorage{flt: e.flt}
	cloner := agdtest.NewCloner()
	msgs, err := dnsmsg.NewConstructor(&dnsmsg.ConstructorConfig{
		Cloner:              cloner,
		BlockingMode:        bm,
		StructuredErrors:    agdtest.NewSDEConfig(false),
		FilteredResponseTTL: 77 * time.Second,
	})
	verifAssume(err == nil)
	e.mw = New(&Config{
		Cloner:        cloner,
		Logger:        slogutil.NewDiscardLogger(),
		Messages:      msgs,
		BillStat:      e.bill,
		ErrColl:       agdtest.NewErrorCollector(),
		FilterStorage: e.strg,
		GeoIP:         e.geo,
		Metrics:       verifMetrics{},
		QueryLog:      e.qlog,
		RuleStat:      e.rstat,
	})
	return e
}

func verifResult(kind int, req *dns.Msg, msgs *dnsmsg.Constructor) filter.Result {
	switch kind {
	case 1:
		return &filter.ResultAllowed{List: "allow_list", Rule: "@@||example.org^"}
	case 2:
		return &filter.ResultBlocked{List: "block_list", Rule: "||example.org^"}
	case 3:
		resp := (&dns.Msg{}).SetReply(req)
		resp.Answer = []dns.RR{&dns.A{
			Hdr: dns.RR_Header{Name: req.Question[0].Name, Rrtype: dns.TypeA, Class: dns.ClassINET, Ttl: 10},
			A:   net.IP{203, 0, 113, 9},
		}}
		return &filter.ResultModifiedResponse{Msg: resp, List: "rewrite_list", Rule: "||example.org^$dnsrewrite=203.0.113.9"}
	case 4:
		mod := req.Copy()
		mod.Question[0].Name = "cname.example."
		return &filter.ResultModifiedRequest{Msg: mod, List: "cname_list", Rule: "||example.org^$dnsrewrite=cname.example"}
	}
	return nil
}

// VerifC15Record: billing and query-log records are produced only for requests
// attributed to a profile, the log entry only with query logging enabled, the client
// address only with IP logging enabled, and the entry describes this request.
//
//verif:harness name=H15a-record tier=quick,thorough bounds="device result kind (anonymous, OK, auth failure), QueryLogEnabled / IPLogEnabled / FilteringEnabled flags symbolic, request verdict from {none, allowed, blocked, modified response, modified request}, response verdict from {none, allowed, blocked}; blocking mode from {null IP, NXDOMAIN, REFUSED}; upstream rcode from {NOERROR, NXDOMAIN, SERVFAIL}; client address, ASN, start time, qtype, message ID symbolic" reach=logged,billed-not-logged,anonymous,response-country-looked-up maxpaths=100000
//verif:assume filter storage, upstream, billing, query log and rule statistics are recorder stubs
func VerifC15Record() {
	var bm dnsmsg.BlockingMode = &dnsmsg.BlockingModeNullIP{}
	switch verifChoice(3) {
	case 1:
		bm = &dnsmsg.BlockingModeNXDOMAIN{}
	case 2:
		bm = &dnsmsg.BlockingModeREFUSED{}
	}
	e := verifNewEnvMode(bm)
	e.ups.rcode = []int{dns.RcodeSuccess, dns.RcodeNameError, dns.RcodeServerFailure}[verifChoice(3)]
	qlogEnabled, ipLog := nondetBool(), nondetBool()
	prof := &agd.Profile{
		ID:               "prof1234",
		FilterConfig:     &filter.ConfigClient{},
		QueryLogEnabled:  qlogEnabled,
		IPLogEnabled:     ipLog,
		FilteringEnabled: true,
	}
	dev := &agd.Device{ID: "dev12345", FilteringEnabled: true}
	var ipb [4]byte
	for i := range ipb {
		ipb[i] = nondetU8()
	}
	clientIP := netip.AddrFrom4(ipb)
	asn := geoip.ASN(nondetU32())
	start := nondetI64()
	verifAssume(start > 0)
	verifAssume(start < 1<<62)
	qt := nondetU16()
	verifAssume(qt != dns.TypeTXT)
	req := &dns.Msg{}
	req.SetQuestion("example.org.", qt)
	req.Id = nondetU16()

	ri := &agd.RequestInfo{
		Location:       &geoip.Location{Country: "DE", ASN: asn},
		FilteringGroup: &agd.FilteringGroup{FilterConfig: &filter.ConfigGroup{}},
		Messages:       e.mw.messages,
		RemoteIP:       clientIP,
		Host:           "example.org",
		QType:          qt,
		QClass:         dns.ClassINET,
		Proto:          agd.ProtoDoT,
	}
	kind := verifChoice(3)
	switch kind {
	case 1:
		ri.DeviceResult = &agd.DeviceResultOK{Profile: prof, Device: dev}
	case 2:
		ri.DeviceResult = &agd.DeviceResultAuthenticationFailure{Err: context.Canceled}
	}
	reqKind, respKind := verifChoice(5), verifChoice(3)
	e.flt.reqRes = verifResult(reqKind, req, ri.Messages)
	e.flt.respRes = verifResult(respKind, req, ri.Messages)

	verifSetClock(start)
	ctx := agd.ContextWithRequestInfo(context.Background(), ri)
	ctx = dnsserver.ContextWithRequestInfo(ctx, &dnsserver.RequestInfo{StartTime: time.Unix(0, start)})
	err := e.mw.Wrap(e.ups).ServeDNS(ctx, e.rw, req)
	verifAssert("served-without-error", err == nil)
	verifAssert("exactly-one-response", e.rw.writes == 1)

	if kind != 1 {
		verifAssert("anonymous-query-is-not-billed", e.bill.calls == 0)
		verifAssert("anonymous-query-is-not-logged", e.qlog.calls == 0)
		verifReach("anonymous")
		return
	}
	verifAssert("attributed-query-is-billed-once", e.bill.calls == 1)
	verifAssert("billing-record-of-this-device", e.bill.id == dev.ID && e.bill.proto == agd.ProtoDoT && e.bill.asn == asn && e.bill.ctry == "DE" && e.bill.start.UnixNano() == start)
	verifAssert("logged-iff-query-logging-enabled", (e.qlog.calls == 1) == qlogEnabled)
	if e.qlog.calls == 0 {
		verifReach("billed-not-logged")
		return
	}
	en := e.qlog.e
	if ipLog {
		verifAssert("client-address-logged-when-ip-logging-enabled", en.RemoteIP == clientIP)
	} else {
		verifAssert("client-address-not-logged-without-ip-logging", en.RemoteIP == netip.Addr{})
	}
	verifAssert("entry-names-this-request", en.DomainFQDN == "example.org." && en.RequestType == qt && en.Protocol == agd.ProtoDoT)
	verifAssert("entry-profile-and-device", en.ProfileID == prof.ID && en.DeviceID == dev.ID && en.ClientASN == asn)
	verifAssert("entry-verdicts-of-this-request", en.RequestResult == e.flt.reqRes && (reqKind == 4 || reqKind != 0 || en.ResponseResult == e.flt.respRes))
	verifAssert("entry-rcode-of-the-written-response", int(en.ResponseCode) == e.rw.resp.Rcode)
	// the response country is looked up for an address of this request's answer
	upIP := netip.AddrFrom4(e.ups.ip)
	for k, a := range e.geo.asked {
		verifAssert("response-country-looked-up-for-this-request's-answer", (a == upIP && e.ups.calls == 1) || a == netip.AddrFrom4([4]byte{203, 0, 113, 9}))
		verifAssert("response-country-looked-up-for-this-request's-name", e.geo.hosts[k] == "example.org" || e.geo.hosts[k] == "cname.example")
	}
	verifAssert("client-country-of-this-request", en.ClientCountry == "DE")
	if len(e.geo.asked) > 0 {
		verifReach("response-country-looked-up")
	}
	verifReach("logged")
}

// verifServe15 sends one request of a profile through e with the given verdict kinds
// and returns what was logged and written.
func verifServe15(e *verifEnv, prof *agd.Profile, dev *agd.Device, host string, qt, id uint16, reqKind, respKind int, start int64) (*querylog.Entry, *dns.Msg) {
	req := &dns.Msg{}
	req.SetQuestion(dns.Fqdn(host), qt)
	req.Id = id
	ri := &agd.RequestInfo{
		Location:       &geoip.Location{Country: "DE", ASN: 64500},
		FilteringGroup: &agd.FilteringGroup{FilterConfig: &filter.ConfigGroup{}},
		Messages:       e.mw.messages,
		RemoteIP:       netip.MustParseAddr("198.51.100.7"),
		Host:           host,
		QType:          qt,
		QClass:         dns.ClassINET,
		Proto:          agd.ProtoDoT,
		DeviceResult:   &agd.DeviceResultOK{Profile: prof, Device: dev},
	}
	e.flt.reqRes = verifResult(reqKind, req, ri.Messages)
	e.flt.respRes = verifResult(respKind, req, ri.Messages)
	e.qlog.e, e.rw.resp = nil, nil
	verifSetClock(start)
	ctx := agd.ContextWithRequestInfo(context.Background(), ri)
	ctx = dnsserver.ContextWithRequestInfo(ctx, &dnsserver.RequestInfo{StartTime: time.Unix(0, start)})
	err := e.mw.Wrap(e.ups).ServeDNS(ctx, e.rw, req)
	verifAssert("served-without-error", err == nil)
	return e.qlog.e, e.rw.resp
}

// VerifC15Recycled: the log entry and the answer of a request do not depend on what
// the middleware processed before it: after a first request with any verdicts, a
// second request through the same middleware (recycled filtering contexts, requests
// and responses) is logged and answered exactly as by a fresh middleware.
//
//verif:harness name=H15d-recycled tier=quick,thorough bounds="two consecutive requests of two profiles through one mainmw (pools hand released objects back): first with request verdict from 5 kinds and response verdict from 3 kinds, second likewise; the second is compared with a fresh middleware" reach=done,after-blocked,after-rewrite maxpaths=100000
//verif:assume filter storage, upstream, billing, query log and rule statistics are recorder stubs; sync.Pool order
func VerifC15Recycled() {
	verifPoolMode(1)
	mk := func() *verifEnv { return verifNewEnvMode(&dnsmsg.BlockingModeNullIP{}) }
	used, fresh := mk(), mk()
	p1 := &agd.Profile{ID: "prof0001", FilterConfig: &filter.ConfigClient{}, QueryLogEnabled: true, IPLogEnabled: true, FilteringEnabled: true}
	p2 := &agd.Profile{ID: "prof0002", FilterConfig: &filter.ConfigClient{}, QueryLogEnabled: true, IPLogEnabled: false, FilteringEnabled: true}
	d1, d2 := &agd.Device{ID: "dev00001", FilteringEnabled: true}, &agd.Device{ID: "dev00002", FilteringEnabled: true}

	k1, r1 := verifChoice(5), verifChoice(3)
	_, _ = verifServe15(used, p1, d1, "first.example", dns.TypeA, 0x1111, k1, r1, 1<<40)
	if k1 == 2 || r1 == 2 {
		verifReach("after-blocked")
	}
	if k1 == 3 || k1 == 4 {
		verifReach("after-rewrite")
	}
	k2, r2 := verifChoice(5), verifChoice(3)
	eu, wu := verifServe15(used, p2, d2, "example.org", dns.TypeAAAA, 0x2222, k2, r2, 1<<41)
	ef, wf := verifServe15(fresh, p2, d2, "example.org", dns.TypeAAAA, 0x2222, k2, r2, 1<<41)

	verifAssert("second-request-logged-by-both", eu != nil && ef != nil)
	if eu != nil && ef != nil {
		verifAssert("same-entry-identity", eu.ProfileID == ef.ProfileID && eu.DeviceID == ef.DeviceID && eu.DomainFQDN == ef.DomainFQDN && eu.RequestType == ef.RequestType && eu.RemoteIP == ef.RemoteIP)
		verifAssert("same-entry-verdicts", verifSameRes(eu.RequestResult, ef.RequestResult) && verifSameRes(eu.ResponseResult, ef.ResponseResult) && eu.ResponseCode == ef.ResponseCode && eu.ResponseCountry == ef.ResponseCountry && eu.DNSSEC == ef.DNSSEC)
	}
	verifAssert("second-request-answered-by-both", wu != nil && wf != nil)
	if wu != nil && wf != nil {
		verifAssert("same-answer-header", wu.Id == wf.Id && wu.Rcode == wf.Rcode && len(wu.Question) == 1 && len(wf.Question) == 1 && wu.Question[0] == wf.Question[0])
		verifAssert("same-answer-record-counts", len(wu.Answer) == len(wf.Answer) && len(wu.Ns) == len(wf.Ns))
		for i := 0; i < len(wu.Answer) && i < len(wf.Answer); i++ {
			verifAssert("same-answer-records", wu.Answer[i].String() == wf.Answer[i].String())
		}
	}
	verifReach("done")
}

// verifSameRes compares two filtering results by kind, list and rule.
func verifSameRes(a, b filter.Result) bool {
	if a == nil || b == nil {
		return a == nil && b == nil
	}
	la, ra := a.MatchedRule()
	lb, rb := b.MatchedRule()
	return fmt.Sprintf("%T", a) == fmt.Sprintf("%T", b) && la == lb && ra == rb
}

// VerifChainEnv is the main middleware over recorder stubs, for the harnesses of the
// packages in front of it.
type VerifChainEnv struct{ e *verifEnv }

// VerifNewChainEnv returns the main middleware with recorder stubs behind it.
func VerifNewChainEnv() *VerifChainEnv { return &VerifChainEnv{e: verifNewEnv()} }

// Handler returns the main middleware wrapped around the stub upstream.
func (c *VerifChainEnv) Handler() dnsserver.Handler { return c.e.mw.Wrap(c.e.ups) }

// Counts returns how many log entries, billing records and upstream queries were made.
func (c *VerifChainEnv) Counts() (logged, billed, resolved int) {
	return c.e.qlog.calls, c.e.bill.calls, c.e.ups.calls
}
