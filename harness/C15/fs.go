package querylog

//verif:pkg internal/querylog

import (
	"context"
	"net/netip"
	"time"

	"github.com/AdguardTeam/AdGuardDNS/internal/agd"
	"github.com/AdguardTeam/AdGuardDNS/internal/filter"
	"github.com/AdguardTeam/golibs/logutil/slogutil"
)

func verifEntry() *Entry {
	return &Entry{
		Time:         time.Unix(1700000000, 0),
		ProfileID:    "prof1234",
		DeviceID:     "dev12345",
		DomainFQDN:   "example.org.",
		RequestType:  1,
		ResponseCode: 0,
		RemoteIP:     netip.MustParseAddr("198.51.100.7"),
	}
}

// verifRec is one logged record as the file (or the encoder stub) shows it.
type verifRec struct {
	profile, device, fqdn string
	qtype                 uint16
	hasIP                 bool
	ip                    string
}

func verifRes(kind int) filter.Result {
	switch kind {
	case 1:
		return &filter.ResultAllowed{List: "l1", Rule: "r1"}
	case 2:
		return &filter.ResultBlocked{List: "l2", Rule: "r2"}
	case 3:
		return &filter.ResultModifiedResponse{List: "l3", Rule: "r3"}
	case 4:
		return &filter.ResultModifiedRequest{List: "l4", Rule: "r4"}
	}
	return nil
}

// VerifC15ResultCode: the result code, list and rule of an entry follow the table of
// doc/querylog.md for all pairs of request and response verdicts.
//
//verif:harness name=H15b-result-code tier=quick,thorough bounds="all 5x5 pairs of request/response verdict kinds" reach=done
func VerifC15ResultCode() {
	rk, sk := verifChoice(5), verifChoice(5)
	req, resp := verifRes(rk), verifRes(sk)
	c, id, _ := resultData(req, resp)
	// doc/querylog.md: 1 no filtering, 2 request blocked, 3 response blocked, 4 request allowed, 5 response allowed, 6 modified
	want := resultCode(1)
	wantID := filter.ID("")
	switch {
	case rk == 0 && sk == 0:
	case rk != 0:
		want = []resultCode{0, 4, 2, 6, 6}[rk]
		wantID = filter.ID([]string{"", "l1", "l2", "l3", "l4"}[rk])
	default:
		want = []resultCode{0, 5, 3, 6, 6}[sk]
		wantID = filter.ID([]string{"", "l1", "l2", "l3", "l4"}[sk])
	}
	verifAssert("result-code-follows-the-documented-table", c == want)
	verifAssert("request-verdict-takes-precedence", id == wantID)
	verifReach("done")
}

// VerifC15FileWrite: every logged entry reaches the file as exactly one complete
// newline-terminated record, also when the pooled buffer held an older record, and
// an over-long elapsed time saturates.
//
//verif:harness name=H15c-file-write tier=quick,thorough bounds="1..3 consecutive writes through one FileSystem with a recycled (dirty) buffer, each for another profile with or without a client address and with question type 1, 257 and 65280; elapsed time symbolic" reach=done
//verif:assume in the symbolic build os.OpenFile, File.Write/Close and json.Encoder.Encode are stubs (Encode appends one opaque newline-terminated record to the buffer); atomicity of concurrent O_APPEND writes is the kernel's
func VerifC15FileWrite() {
	verifPoolMode(1)
	path := verifLogPath()
	l := NewFileSystem(&FileSystemConfig{Logger: slogutil.NewDiscardLogger(), Path: path})
	n := 1 + verifChoice(3)
	profiles := []string{"prof0001", "prof0002", "prof0003"}
	ips := []string{"198.51.100.7", "203.0.113.9", "2001:db8::1"}
	var withIP [3]bool
	// question types below and above 255
	qtypes := []uint16{1, 257, 65280}
	for i := 0; i < n; i++ {
		e := verifEntry()
		// each entry is another profile's, with or without IP logging
		e.ProfileID = agd.ProfileID(profiles[i])
		e.RequestType = qtypes[i]
		withIP[i] = verifChoice(2) == 1
		if withIP[i] {
			e.RemoteIP = netip.MustParseAddr(ips[i])
		} else {
			e.RemoteIP = netip.Addr{}
		}
		e.Elapsed = time.Duration(nondetI64())
		err := l.Write(context.Background(), e)
		verifAssert("write-succeeds", err == nil)
		ms := l.convertElapsed(context.Background(), e.Elapsed)
		if e.Elapsed < 0 {
			verifAssert("negative-elapsed-becomes-zero", ms == 0)
		} else if e.Elapsed.Milliseconds() > 4294967295 {
			verifAssert("elapsed-saturates", ms == 4294967295)
		}
	}
	recs := verifLoggedRecords(path)
	verifAssert("one-record-per-entry", len(recs) == n)
	for i := 0; i < n && i < len(recs); i++ {
		verifAssert("record-describes-its-own-entry", recs[i].profile == profiles[i] && recs[i].qtype == qtypes[i] && recs[i].fqdn == "example.org.")
		verifAssert("client-address-present-iff-the-entry-had-one", recs[i].hasIP == withIP[i])
		if withIP[i] && recs[i].hasIP {
			verifAssert("client-address-is-the-entry's-own", recs[i].ip == ips[i])
		}
	}
	lines, clean := verifLogLines(path)
	verifAssert("one-complete-line-per-entry", lines == n && clean)
	verifReach("done")
}

// VerifC15ConcurrentWrites: two goroutines log entries of different profiles through
// one FileSystem while opening the file takes time; each entry reaches the file as its
// own record (no writer's line is replaced by another's through a shared buffer).
//
//verif:harness name=H15e-concurrent-writes tier=quick,thorough bounds="2 goroutines writing one entry each (different profiles, names of different lengths) through one FileSystem; opening the log file and every write call are scheduling points; recycled pool buffers" reach=done maxpaths=20000 switches=0
//verif:assume threads switch at the (slow) open of the log file and when finished; natively the log file is a FIFO so that both opens are pending together, and interleavings of the write calls are searched for by a bounded stress run (8 writers x 150 entries)
func VerifC15ConcurrentWrites() {
	verifPoolMode(1)
	path := verifSlowLogPath()
	l := NewFileSystem(&FileSystemConfig{Logger: slogutil.NewDiscardLogger(), Path: path})
	profiles := []string{"prof000a", "prof000b"}
	fqdns := []string{"a.example.", "longer-name.example.org."}
	var errs [2]error
	for i := 0; i < 2; i++ {
		e := verifEntry()
		e.ProfileID = agd.ProfileID(profiles[i])
		e.DomainFQDN = fqdns[i]
		e.RequestType = uint16(1 + i)
		go func() { errs[i] = l.Write(context.Background(), e) }()
	}
	verifRunAll()
	verifReleaseLog(path, 2)
	verifRunAll()
	verifAssert("write-succeeds", errs[0] == nil && errs[1] == nil)
	recs := verifLoggedRecords(path)
	verifAssert("one-record-per-entry", len(recs) == 2)
	var seen [2]int
	for _, r := range recs {
		for i := 0; i < 2; i++ {
			if r.profile == profiles[i] && r.fqdn == fqdns[i] && r.qtype == uint16(1+i) {
				seen[i]++
			}
		}
	}
	verifAssert("each-entry-logged-exactly-once-as-itself", seen[0] == 1 && seen[1] == 1)
	// natively the write calls of concurrent writers cannot be interleaved at will: a
	// bounded stress run looks for a torn line (the symbolic build explores the
	// interleavings instead)
	verifAssert("each-entry-logged-exactly-once-as-itself", !verifStressLog())
	lines, clean := verifLogLines(path)
	verifAssert("one-complete-line-per-entry", lines == 2 && clean)
	verifReach("done")
}
