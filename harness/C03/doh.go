package devicefinder

//verif:pkg internal/dnssvc/internal/devicefinder

import (
	"context"
	"encoding/base64"
	"net/http"
	"net/netip"
	"net/url"

	"github.com/AdguardTeam/AdGuardDNS/internal/agd"
	"github.com/AdguardTeam/AdGuardDNS/internal/dnsserver"
	"github.com/AdguardTeam/golibs/logutil/slogutil"
	"github.com/miekg/dns"
)

// verifPasswd accepts exactly one password.
type verifPasswd struct{ right string }

func (a verifPasswd) Authenticate(_ context.Context, p []byte) bool { return string(p) == a.right }

// verifFoundDB always finds the one device.
type verifFoundDB struct {
	prof *agd.Profile
	dev  *agd.Device
}

func (db verifFoundDB) CreateAutoDevice(context.Context, agd.ProfileID, agd.HumanID, agd.DeviceType) (*agd.Profile, *agd.Device, error) {
	return db.prof, db.dev, nil
}
func (db verifFoundDB) ProfileByDedicatedIP(context.Context, netip.Addr) (*agd.Profile, *agd.Device, error) {
	return db.prof, db.dev, nil
}
func (db verifFoundDB) ProfileByDeviceID(context.Context, agd.DeviceID) (*agd.Profile, *agd.Device, error) {
	return db.prof, db.dev, nil
}
func (db verifFoundDB) ProfileByHumanID(context.Context, agd.ProfileID, agd.HumanIDLower) (*agd.Profile, *agd.Device, error) {
	return db.prof, db.dev, nil
}
func (db verifFoundDB) ProfileByLinkedIP(context.Context, netip.Addr) (*agd.Profile, *agd.Device, error) {
	return db.prof, db.dev, nil
}

// VerifC03DoHCredentials: through the request information the real DoH server builds
// from the HTTP request, a device with authentication enabled is recognised only with
// its right password: a wrong or an empty password in the Authorization header is an
// authentication failure, also when the device ID is in the URL path as well.
//
//verif:harness name=H03g-doh-credentials tier=quick,thorough bounds="DoH request with an Authorization header carrying the device ID and the right, a wrong or an empty password, or without the header; device ID also in the URL path or not; device with authentication enabled, DoH-only or not" reach=recognised,auth-failure,anonymous maxpaths=20000
//verif:assume profile database and password hash are stubs (the hash accepts exactly one password); net/http's BasicAuth parsing is interpreted
func VerifC03DoHCredentials() {
	dohOnly := nondetBool()
	dev := &agd.Device{ID: "thedev01", Auth: &agd.AuthSettings{Enabled: true, DoHAuthOnly: dohOnly, PasswordHash: verifPasswd{right: "secret"}}}
	prof := &agd.Profile{ID: "prof1234"}
	db := verifFoundDB{prof: prof, dev: dev}
	srv := &agd.Server{Protocol: agd.ProtoDoH}
	f := NewDefault(&Config{Logger: slogutil.NewDiscardLogger(), ProfileDB: db, HumanIDParser: agd.NewHumanIDParser(), Server: srv, DeviceDomains: []string{"d.example"}})

	passKind := verifChoice(4) // 0 no header, 1 right, 2 wrong, 3 empty
	inPath := verifChoice(2) == 1
	path := "/dns-query"
	if inPath {
		path = "/dns-query/thedev01"
	}
	r := &http.Request{Method: http.MethodGet, URL: &url.URL{Path: path}, Header: http.Header{}}
	if passKind != 0 {
		pw := []string{"", "secret", "wrong", ""}[passKind]
		r.Header.Set("Authorization", "Basic "+base64.StdEncoding.EncodeToString([]byte("thedev01:"+pw)))
	}
	ri := dnsserver.VerifRequestInfoFor(r)
	req := &dns.Msg{}
	req.SetQuestion("example.org.", dns.TypeA)
	res := f.Find(dnsserver.ContextWithRequestInfo(context.Background(), ri), req, netip.MustParseAddrPort("198.51.100.7:4321"), netip.MustParseAddrPort("192.0.2.1:443"))

	_, isOK := res.(*agd.DeviceResultOK)
	switch {
	case passKind == 1:
		verifAssert("right-password-is-recognised", isOK)
		verifReach("recognised")
	case passKind == 2 || passKind == 3:
		verifAssert("wrong-or-empty-password-never-yields-recognition", !isOK)
		_, isFail := res.(*agd.DeviceResultAuthenticationFailure)
		if isFail {
			verifReach("auth-failure")
		}
	case !inPath:
		verifAssert("no-identifier-is-anonymous", res == nil)
		verifReach("anonymous")
	default:
		// identified by the path alone: recognised only when authentication is not
		// required for DoH
		verifAssert("path-only-identification-respects-doh-auth-only", isOK == !dohOnly)
	}
}
