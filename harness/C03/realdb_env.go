package profiledb

//verif:pkg internal/profiledb

import (
	"context"

	"github.com/AdguardTeam/AdGuardDNS/internal/agd"
	"github.com/AdguardTeam/golibs/logutil/slogutil"
)

type verifErrColl03 struct{}

func (verifErrColl03) Collect(context.Context, error) {}

type verifStorage03 struct{}

func (verifStorage03) CreateAutoDevice(context.Context, *StorageCreateAutoDeviceRequest) (*StorageCreateAutoDeviceResponse, error) {
	return nil, ErrDeviceNotFound
}
func (verifStorage03) Profiles(context.Context, *StorageProfilesRequest) (*StorageProfilesResponse, error) {
	return &StorageProfilesResponse{}, nil
}

// VerifDB is the real profile database for the harnesses of the packages in front of
// it; synchronisations are applied directly.
type VerifDB struct{ *Default }

// VerifNewDB returns an empty real profile database.
func VerifNewDB() *VerifDB {
	db, err := New(&Config{
		Logger:        slogutil.NewDiscardLogger(),
		Storage:       verifStorage03{},
		ErrColl:       verifErrColl03{},
		Metrics:       EmptyMetrics{},
		CacheFilePath: "none",
	})
	verifAssume(err == nil)
	return &VerifDB{Default: db}
}

// Sync applies the result of a full or incremental synchronisation.
func (db *VerifDB) Sync(ps []*agd.Profile, ds []*agd.Device, full bool) {
	db.setProfiles(context.Background(), ps, ds, full)
}
