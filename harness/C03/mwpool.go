package ratelimitmw

//verif:pkg internal/dnssvc/internal/ratelimitmw

import (
	"context"
	"net"
	"net/netip"
	"time"

	"github.com/AdguardTeam/AdGuardDNS/internal/access"
	"github.com/AdguardTeam/AdGuardDNS/internal/agd"
	"github.com/AdguardTeam/AdGuardDNS/internal/agdtest"
	"github.com/AdguardTeam/AdGuardDNS/internal/dnsmsg"
	"github.com/AdguardTeam/AdGuardDNS/internal/dnsserver"
	"github.com/AdguardTeam/AdGuardDNS/internal/geoip"
	"github.com/AdguardTeam/golibs/logutil/slogutil"
	"github.com/AdguardTeam/golibs/netutil"
	"github.com/miekg/dns"
)

type verifAccess3 struct{}

func (verifAccess3) IsBlockedHost(string, uint16) bool { return false }
func (verifAccess3) IsBlockedIP(netip.Addr) bool       { return false }

// verifFinder3 answers per request: the result kind is chosen by the harness.
type verifFinder3 struct{ next agd.DeviceResult }

func (f *verifFinder3) Find(context.Context, *dns.Msg, netip.AddrPort, netip.AddrPort) agd.DeviceResult {
	return f.next
}

type verifGeo3 struct{}

func (verifGeo3) SubnetByLocation(*geoip.Location, netutil.AddrFamily) (netip.Prefix, error) {
	return netip.Prefix{}, nil
}
func (verifGeo3) Data(string, netip.Addr) (*geoip.Location, error) { return nil, nil }

type verifLimiter3 struct{}

func (verifLimiter3) IsRateLimited(context.Context, *dns.Msg, netip.Addr) (bool, bool, error) {
	return false, false, nil
}
func (verifLimiter3) CountResponses(context.Context, *dns.Msg, netip.Addr) {}

// verifDownstream3 records what the rest of the pipeline is shown.
type verifDownstream3 struct {
	calls  int
	result agd.DeviceResult
	prof   *agd.Profile
	dev    *agd.Device
}

func (n *verifDownstream3) ServeDNS(ctx context.Context, rw dnsserver.ResponseWriter, req *dns.Msg) error {
	n.calls++
	ri := agd.MustRequestInfoFromContext(ctx)
	n.result = ri.DeviceResult
	n.prof, n.dev = ri.DeviceData()
	return rw.WriteMsg(ctx, req, (&dns.Msg{}).SetReply(req))
}

type verifRW3 struct{ writes int }

func (w *verifRW3) LocalAddr() net.Addr  { return &net.UDPAddr{IP: net.IP{192, 0, 2, 1}, Port: 53} }
func (w *verifRW3) RemoteAddr() net.Addr { return &net.UDPAddr{IP: net.IP{198, 51, 100, 7}, Port: 4321} }
func (w *verifRW3) WriteMsg(context.Context, *dns.Msg, *dns.Msg) error { w.writes++; return nil }

// VerifC03Pooled: what the pipeline behind the device finder is shown is the result
// of this request's own lookup, also when the request-information object is a
// recycled one that served a recognised (or failed) request before: only a
// DeviceResultOK of this request exposes a profile and device downstream.
//
//verif:harness name=H03d-pooled tier=quick bounds="2..3 consecutive requests through the real ratelimitmw.Wrap with its request-info pool handing released objects back; device finder result per request from {none, OK of profile A, OK of profile B, authentication failure}" reach=done,anonymous-after-recognised,recognised maxpaths=20000
//verif:assume sync.Pool hands the most recently released object back; access manager, GeoIP and limiter are pass-through stubs
func VerifC03Pooled() { verifC03Pooled(2) }

// VerifC03Pooled5 is the thorough variant.
//
//verif:harness name=H03d-pooled5 tier=thorough bounds="as H03d-pooled with 2..5 consecutive requests" reach=done,anonymous-after-recognised,recognised maxpaths=5000000
func VerifC03Pooled5() { verifC03Pooled(4) }

func verifC03Pooled(extra int) {
	verifPoolMode(1)
	msgs, err := dnsmsg.NewConstructor(&dnsmsg.ConstructorConfig{
		Cloner:              agdtest.NewCloner(),
		BlockingMode:        &dnsmsg.BlockingModeNullIP{},
		StructuredErrors:    agdtest.NewSDEConfig(false),
		FilteredResponseTTL: 10 * time.Second,
	})
	verifAssume(err == nil)
	finder := &verifFinder3{}
	mw := New(&Config{
		Logger:           slogutil.NewDiscardLogger(),
		Messages:         msgs,
		FilteringGroup:   &agd.FilteringGroup{},
		ServerGroup:      &agd.ServerGroup{},
		Server:           &agd.Server{Name: "s", Protocol: agd.ProtoDNS},
		StructuredErrors: agdtest.NewSDEConfig(false),
		AccessManager:    verifAccess3{},
		DeviceFinder:     finder,
		ErrColl:          agdtest.NewErrorCollector(),
		GeoIP:            verifGeo3{},
		Metrics:          EmptyMetrics{},
		Limiter:          verifLimiter3{},
	})
	profs := [2]*agd.Profile{
		{ID: "profaaaa", BlockingMode: &dnsmsg.BlockingModeNullIP{}, FilteredResponseTTL: 10 * time.Second, Access: access.EmptyProfile{}, Ratelimiter: agd.GlobalRatelimiter{}},
		{ID: "profbbbb", BlockingMode: &dnsmsg.BlockingModeNXDOMAIN{}, FilteredResponseTTL: 20 * time.Second, Access: access.EmptyProfile{}, Ratelimiter: agd.GlobalRatelimiter{}},
	}
	devs := [2]*agd.Device{{ID: "devaaaaa"}, {ID: "devbbbbb"}}
	n := 2 + verifChoice(extra)
	prevRecognised := false
	for i := 0; i < n; i++ {
		kind := verifChoice(4)
		switch kind {
		case 0:
			finder.next = nil
		case 1, 2:
			finder.next = &agd.DeviceResultOK{Profile: profs[kind-1], Device: devs[kind-1]}
		case 3:
			finder.next = &agd.DeviceResultAuthenticationFailure{Err: context.Canceled}
		}
		down := &verifDownstream3{}
		rw := &verifRW3{}
		req := &dns.Msg{}
		req.SetQuestion("example.org.", dns.TypeA)
		serr := mw.Wrap(down).ServeDNS(context.Background(), rw, req)
		verifAssert("served-once", serr == nil && down.calls == 1 && rw.writes == 1)
		verifAssert("downstream-sees-this-request's-own-lookup-result", down.result == finder.next)
		if kind == 1 || kind == 2 {
			verifAssert("recognised-request-exposes-its-own-profile-and-device", down.prof == profs[kind-1] && down.dev == devs[kind-1])
			verifReach("recognised")
		} else {
			verifAssert("unrecognised-request-exposes-no-profile", down.prof == nil && down.dev == nil)
			if prevRecognised {
				verifReach("anonymous-after-recognised")
			}
		}
		prevRecognised = kind == 1 || kind == 2
	}
	verifReach("done")
}
