package devicefinder

//verif:pkg internal/dnssvc/internal/devicefinder

import (
	"context"
	"net/netip"
	"net/url"

	"github.com/AdguardTeam/AdGuardDNS/internal/agd"
	"github.com/AdguardTeam/AdGuardDNS/internal/agdnet"
	"github.com/AdguardTeam/AdGuardDNS/internal/dnsserver"
	"github.com/AdguardTeam/golibs/logutil/slogutil"
	"github.com/miekg/dns"
)

// VerifC03Dedicated: on an interface-bound plain-DNS server a request to a dedicated
// address is attributed only through that address, only for a non-deleted profile and
// only with the authentication policy met; an unknown dedicated address is reported as
// such, and the server's own addresses fall back to the linked-IP channel.
//
//verif:harness name=H03b-dedicated tier=quick,thorough bounds="plain-DNS server bound to 192.0.2.0/24:53; local address inside the prefix (dedicated), equal to a single-IP bind address, or symbolic last byte; linked IP on/off; EDNS CPE-ID present or not; database answer from {found, device-not-found, wrapped profile-not-found, other error}; Auth flags and profile Deleted symbolic" reach=ok,anonymous,unknown-dedicated,error maxpaths=100000
func VerifC03Dedicated() {
	srv := &agd.Server{Protocol: agd.ProtoDNS, LinkedIPEnabled: nondetBool()}
	bind := []*agd.ServerBindData{{PrefixAddr: &agdnet.PrefixNetAddr{Prefix: netip.MustParsePrefix("192.0.2.0/24"), Net: "udp", Port: 53}}}
	if verifChoice(2) == 1 {
		bind = append(bind, &agd.ServerBindData{PrefixAddr: &agdnet.PrefixNetAddr{Prefix: netip.MustParsePrefix("192.0.2.9/32"), Net: "udp", Port: 53}})
	}
	srv.SetBindData(bind)

	authEnabled, dohOnly, deleted := nondetBool(), nondetBool(), nondetBool()
	dev := &agd.Device{ID: "thedev01", Auth: &agd.AuthSettings{Enabled: authEnabled, DoHAuthOnly: dohOnly, PasswordHash: verifAuth{ok: true}}}
	prof := &agd.Profile{ID: "prof1234", Deleted: deleted}
	db := &verifDB{prof: prof, dev: dev, noNil: true}
	f := NewDefault(&Config{Logger: slogutil.NewDiscardLogger(), ProfileDB: db, HumanIDParser: agd.NewHumanIDParser(), Server: srv, DeviceDomains: []string{"d.example"}})

	last := nondetU8()
	laddr := netip.AddrPortFrom(netip.AddrFrom4([4]byte{192, 0, 2, last}), 53)
	raddr := netip.MustParseAddrPort("198.51.100.7:4321")
	req := &dns.Msg{}
	req.SetQuestion("example.org.", dns.TypeA)
	hasCPE := verifChoice(2) == 1
	if hasCPE {
		req.SetEdns0(4096, false)
		o := req.IsEdns0()
		o.Option = append(o.Option, &dns.EDNS0_LOCAL{Code: DnsmasqCPEIDOption, Data: []byte("ednsidaa")})
	}
	ri := &dnsserver.RequestInfo{URL: &url.URL{Path: "/"}}
	r := f.Find(dnsserver.ContextWithRequestInfo(context.Background(), ri), req, raddr, laddr)

	ownAddr := len(bind) == 2 && last == 9
	switch {
	case hasCPE:
		verifAssert("cpe-id-takes-the-id-channel", db.byDevID == "ednsidaa" && !db.byDedic && !db.byLinked)
	case !ownAddr:
		verifAssert("dedicated-address-looked-up-by-local-address", db.byDedic && db.dedicIP == laddr.Addr() && !db.byLinked && db.byDevID == "")
	default:
		verifAssert("own-address-uses-linked-ip-only-when-enabled", !db.byDedic && db.byLinked == srv.LinkedIPEnabled)
	}
	switch r := r.(type) {
	case nil:
		verifReach("anonymous")
	case *agd.DeviceResultOK:
		verifAssert("recognised-device-comes-from-the-database", r.Device == dev && r.Profile == prof)
		verifAssert("deleted-profile-never-recognised", !deleted)
		verifAssert("recognised-only-when-authentication-policy-met", !authEnabled || !dohOnly)
		verifReach("ok")
	case *agd.DeviceResultUnknownDedicated:
		verifAssert("unknown-dedicated-only-via-the-dedicated-channel", db.byDedic)
		verifReach("unknown-dedicated")
	case *agd.DeviceResultAuthenticationFailure:
		verifAssert("auth-failure-only-when-policy-not-met", authEnabled && dohOnly)
	case *agd.DeviceResultError:
		verifReach("error")
	}
}

// VerifC03EncryptedBound: on an encrypted server that is bound to an interface prefix,
// a request without any device identifier stays anonymous: the server's local address
// (a dedicated address of some device or not) and the client's address are no
// identification channels there.
//
//verif:harness name=H03h-encrypted-bound tier=quick,thorough bounds="DoT, DoQ or DoH server bound to 192.0.2.0/24; local address symbolic inside the prefix; linked IP on/off; request without identifier (no userinfo, plain path, foreign or absent TLS server name); the database would find a device for every lookup" reach=done maxpaths=20000
func VerifC03EncryptedBound() {
	proto := []agd.Protocol{agd.ProtoDoT, agd.ProtoDoQ, agd.ProtoDoH}[verifChoice(3)]
	srv := &agd.Server{Protocol: proto, LinkedIPEnabled: nondetBool()}
	srv.SetBindData([]*agd.ServerBindData{{PrefixAddr: &agdnet.PrefixNetAddr{Prefix: netip.MustParsePrefix("192.0.2.0/24"), Net: "tcp", Port: 853}}})
	dev := &agd.Device{ID: "thedev01", Auth: &agd.AuthSettings{}}
	prof := &agd.Profile{ID: "prof1234"}
	db := &verifDB{prof: prof, dev: dev, noNil: true}
	f := NewDefault(&Config{Logger: slogutil.NewDiscardLogger(), ProfileDB: db, HumanIDParser: agd.NewHumanIDParser(), Server: srv, DeviceDomains: []string{"d.example"}})
	laddr := netip.AddrPortFrom(netip.AddrFrom4([4]byte{192, 0, 2, nondetU8()}), 853)
	raddr := netip.MustParseAddrPort("198.51.100.7:4321")
	req := &dns.Msg{}
	req.SetQuestion("example.org.", dns.TypeA)
	ri := &dnsserver.RequestInfo{URL: &url.URL{Path: "/dns-query"}}
	if verifChoice(2) == 1 {
		ri.TLSServerName = "dns.other.example"
	}
	r := f.Find(dnsserver.ContextWithRequestInfo(context.Background(), ri), req, raddr, laddr)
	verifAssert("no-identifier-no-lookup-on-encrypted-servers", db.calls == 0 && !db.byDedic && !db.byLinked && db.byDevID == "")
	verifAssert("request-without-identifier-is-anonymous", r == nil)
	verifReach("done")
}
