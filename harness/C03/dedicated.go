package devicefinder

//verif:pkg internal/dnssvc/internal/devicefinder

import (
	"context"
	"net/netip"
	"net/url"

	"github.com/AdguardTeam/AdGuardDNS/internal/agd"
	"github.com/AdguardTeam/AdGuardDNS/internal/agdnet"
	"github.com/AdguardTeam/AdGuardDNS/internal/dnsserver"
	"github.com/AdguardTeam/golibs/logutil/slogutil"
	"github.com/miekg/dns"
)

// VerifC03Dedicated: on an interface-bound plain-DNS server a request to a dedicated
// address is attributed only through that address, only for a non-deleted profile and
// only with the authentication policy met; an unknown dedicated address is reported as
// such, and the server's own addresses fall back to the linked-IP channel.
//
//verif:harness name=H03b-dedicated tier=quick,thorough bounds="plain-DNS server bound to 192.0.2.0/24:53; local address inside the prefix (dedicated), equal to a single-IP bind address, or symbolic last byte; linked IP on/off; EDNS CPE-ID present or not; database answer from {found, device-not-found, wrapped profile-not-found, other error}; Auth flags and profile Deleted symbolic" reach=ok,anonymous,unknown-dedicated,error maxpaths=100000
func VerifC03Dedicated() {
	srv := &agd.Server{Protocol: agd.ProtoDNS, LinkedIPEnabled: nondetBool()}
	bind := []*agd.ServerBindData{{PrefixAddr: &agdnet.PrefixNetAddr{Prefix: netip.MustParsePrefix("192.0.2.0/24"), Net: "udp", Port: 53}}}
	if verifChoice(2) == 1 {
		bind = append(bind, &agd.ServerBindData{PrefixAddr: &agdnet.PrefixNetAddr{Prefix: netip.MustParsePrefix("192.0.2.9/32"), Net: "udp", Port: 53}})
	}
	srv.SetBindData(bind)

	authEnabled, dohOnly, deleted := nondetBool(), nondetBool(), nondetBool()
	dev := &agd.Device{ID: "thedev01", Auth: &agd.AuthSettings{Enabled: authEnabled, DoHAuthOnly: dohOnly, PasswordHash: verifAuth{ok: true}}}
	prof := &agd.Profile{ID: "prof1234", Deleted: deleted}
	db := &verifDB{prof: prof, dev: dev, noNil: true}
	f := NewDefault(&Config{Logger: slogutil.NewDiscardLogger(), ProfileDB: db, HumanIDParser: agd.NewHumanIDParser(), Server: srv, DeviceDomains: []string{"d.example"}})

	last := nondetU8()
	laddr := netip.AddrPortFrom(netip.AddrFrom4([4]byte{192, 0, 2, last}), 53)
	raddr := netip.MustParseAddrPort("198.51.100.7:4321")
	req := &dns.Msg{}
	req.SetQuestion("example.org.", dns.TypeA)
	hasCPE := verifChoice(2) == 1
	if hasCPE {
		req.SetEdns0(4096, false)
		o := req.IsEdns0()
		o.Option = append(o.Option, &dns.EDNS0_LOCAL{Code: DnsmasqCPEIDOption, Data: []byte("ednsidaa")})
	}
	ri := &dnsserver.RequestInfo{URL: &url.URL{Path: "/"}}
	r := f.Find(dnsserver.ContextWithRequestInfo(context.Background(), ri), req, raddr, laddr)

	ownAddr := len(bind) == 2 && last == 9
	switch {
	case hasCPE:
		verifAssert("cpe-id-takes-the-id-channel", db.byDevID == "ednsidaa" && !db.byDedic && !db.byLinked)
	case !ownAddr:
		verifAssert("dedicated-address-looked-up-by-local-address", db.byDedic && db.dedicIP == laddr.Addr() && !db.byLinked && db.byDevID == "")
	default:
		verifAssert("own-address-uses-linked-ip-only-when-enabled", !db.byDedic && db.byLinked == srv.LinkedIPEnabled)
	}
	switch r := r.(type) {
	case nil:
		verifReach("anonymous")
	case *agd.DeviceResultOK:
		verifAssert("recognised-device-comes-from-the-database", r.Device == dev && r.Profile == prof)
		verifAssert("deleted-profile-never-recognised", !deleted)
		verifAssert("recognised-only-when-authentication-policy-met", !authEnabled || !dohOnly)
		verifReach("ok")
	case *agd.DeviceResultUnknownDedicated:
		verifAssert("unknown-dedicated-only-via-the-dedicated-channel", db.byDedic)
		verifReach("unknown-dedicated")
	case *agd.DeviceResultAuthenticationFailure:
		verifAssert("auth-failure-only-when-policy-not-met", authEnabled && dohOnly)
	case *agd.DeviceResultError:
		verifReach("error")
	}
}
