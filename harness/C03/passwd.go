package agdpasswd

//verif:pkg internal/agdpasswd

import "context"

// VerifC03UnusableHash: a device whose stored password hash cannot be used - empty,
// truncated, of an unknown version, with a bad prefix or an out-of-range cost - is
// authenticated by no password at all, empty or not.
//
//verif:harness name=H03f-unusable-hash tier=quick,thorough bounds="9 unusable bcrypt hashes (nil, empty, 4 bytes, unknown version, non-numeric cost, bad prefix, cost below 4 and above 31, truncated salt); password of 0..2 symbolic bytes" reach=done maxpaths=20000
//verif:assume golang.org/x/crypto/bcrypt is interpreted from source (hash parsing only: none of these hashes reaches the key schedule)
func VerifC03UnusableHash() {
	hashes := [][]byte{
		nil,
		{},
		[]byte("test"),
		[]byte("$9$10$abcdefghijklmnopqrstuuabcdefghijklmnopqrstuvwxyz0123456"),
		[]byte("$2a$1x$abcdefghijklmnopqrstuuabcdefghijklmnopqrstuvwxyz012345"),
		[]byte("x2a$10$abcdefghijklmnopqrstuuabcdefghijklmnopqrstuvwxyz012345"),
		[]byte("$2a$03$abcdefghijklmnopqrstuuabcdefghijklmnopqrstuvwxyz012345"),
		[]byte("$2a$32$abcdefghijklmnopqrstuuabcdefghijklmnopqrstuvwxyz012345"),
		[]byte("$2a$10$abcdefghij"),
	}
	h := NewPasswordHashBcrypt(hashes[verifChoice(len(hashes))])
	n := verifChoice(3)
	pw := make([]byte, n)
	for i := range pw {
		pw[i] = nondetU8()
	}
	verifAssert("unusable-hash-authenticates-nobody", !h.Authenticate(context.Background(), pw))
	verifReach("done")
}
