package devicefinder

//verif:pkg internal/dnssvc/internal/devicefinder

import (
	"context"
	"errors"
	"fmt"
	"net/netip"
	"net/url"

	"github.com/AdguardTeam/AdGuardDNS/internal/agd"
	"github.com/AdguardTeam/AdGuardDNS/internal/dnsserver"
	"github.com/AdguardTeam/AdGuardDNS/internal/profiledb"
	"github.com/AdguardTeam/golibs/logutil/slogutil"
	"github.com/miekg/dns"
)

// verifDB is a profile database whose answers are symbolic choices and which
// records how it was asked (ghost state).
type verifDB struct {
	prof *agd.Profile
	dev  *agd.Device

	calls     int
	byDevID   agd.DeviceID
	byHumanID agd.HumanIDLower
	byProfile agd.ProfileID
	byLinked  bool
	byDedic   bool
	linkedIP  netip.Addr
	dedicIP   netip.Addr
	autoDev   bool
	noNil     bool // the database contract of the by-address lookups: never (nil, nil, nil)
}

var verifErrOther = errors.New("db failure")

func (db *verifDB) answer() (*agd.Profile, *agd.Device, error) {
	db.calls++
	n := 5
	if db.noNil {
		n = 4
	}
	switch verifChoice(n) {
	case 0:
		return db.prof, db.dev, nil
	case 1:
		return nil, nil, profiledb.ErrDeviceNotFound
	case 2:
		return nil, nil, fmt.Errorf("wrapped: %w", profiledb.ErrProfileNotFound)
	case 3:
		return nil, nil, verifErrOther
	default:
		return nil, nil, nil
	}
}

func (db *verifDB) CreateAutoDevice(_ context.Context, _ agd.ProfileID, _ agd.HumanID, _ agd.DeviceType) (*agd.Profile, *agd.Device, error) {
	db.autoDev = true
	return db.answer()
}
func (db *verifDB) ProfileByDedicatedIP(_ context.Context, ip netip.Addr) (*agd.Profile, *agd.Device, error) {
	db.byDedic, db.dedicIP = true, ip
	return db.answer()
}
func (db *verifDB) ProfileByDeviceID(_ context.Context, id agd.DeviceID) (*agd.Profile, *agd.Device, error) {
	db.byDevID = id
	return db.answer()
}
func (db *verifDB) ProfileByHumanID(_ context.Context, p agd.ProfileID, h agd.HumanIDLower) (*agd.Profile, *agd.Device, error) {
	db.byHumanID, db.byProfile = h, p
	return db.answer()
}
func (db *verifDB) ProfileByLinkedIP(_ context.Context, ip netip.Addr) (*agd.Profile, *agd.Device, error) {
	db.byLinked, db.linkedIP = true, ip
	return db.answer()
}

type verifAuth struct{ ok bool }

func (a verifAuth) Authenticate(_ context.Context, _ []byte) bool { return a.ok }

// VerifC03Find: a request is attributed to a device only through the channel valid
// for its transport, only for a non-deleted profile and only when the device's
// authentication policy is met.
//
//verif:harness name=H03a-find tier=quick,thorough bounds="all protocols incl. DNSCrypt and an invalid one; userinfo absent / user / user+password; DoH path without id / with id / foreign; TLS server name absent / id under device domain (mixed case) / foreign; EDNS options none / CPE-ID / other code; linked IP on/off; database answer from {found, device-not-found, wrapped profile-not-found, other error, nil}; Auth.Enabled, DoHAuthOnly, password verdict, profile Deleted symbolic" reach=ok,anonymous,auth-failure,error,dnscrypt maxpaths=400000
//verif:assume identifiers are concrete representative strings (one per channel); extended human IDs and interface-bound servers are covered by H03b
func VerifC03Find() {
	protos := []agd.Protocol{agd.ProtoDNS, agd.ProtoDoH, agd.ProtoDoQ, agd.ProtoDoT, agd.ProtoDNSCrypt, agd.ProtoInvalid}
	proto := protos[verifChoice(len(protos))]
	srv := &agd.Server{Protocol: proto, LinkedIPEnabled: nondetBool()}

	authEnabled, dohOnly, passOK, deleted := nondetBool(), nondetBool(), nondetBool(), nondetBool()
	dev := &agd.Device{ID: "thedev01", Auth: &agd.AuthSettings{Enabled: authEnabled, DoHAuthOnly: dohOnly, PasswordHash: verifAuth{ok: passOK}}}
	prof := &agd.Profile{ID: "prof1234", Deleted: deleted}
	db := &verifDB{prof: prof, dev: dev}

	f := NewDefault(&Config{
		Logger:        slogutil.NewDiscardLogger(),
		ProfileDB:     db,
		HumanIDParser: agd.NewHumanIDParser(),
		Server:        srv,
		DeviceDomains: []string{"d.example"},
	})

	ri := &dnsserver.RequestInfo{}
	uiKind := verifChoice(3)
	switch uiKind {
	case 1:
		ri.Userinfo = url.User("useridaa")
	case 2:
		ri.Userinfo = url.UserPassword("useridaa", "secret")
	}
	pathKind := verifChoice(3)
	ri.URL = &url.URL{Path: []string{"/dns-query", "/dns-query/pathidaa", "/other/pathidaa"}[pathKind]}
	tlsKind := verifChoice(3)
	ri.TLSServerName = []string{"", "TlsIdAaa.D.Example", "tlsidaaa.other.example"}[tlsKind]

	req := &dns.Msg{}
	req.SetQuestion("example.org.", dns.TypeA)
	ednsKind := verifChoice(3)
	switch ednsKind {
	case 1:
		req.SetEdns0(4096, false)
		o := req.IsEdns0()
		o.Option = append(o.Option, &dns.EDNS0_LOCAL{Code: DnsmasqCPEIDOption, Data: []byte("ednsidaa")})
	case 2:
		req.SetEdns0(4096, false)
		o := req.IsEdns0()
		o.Option = append(o.Option, &dns.EDNS0_LOCAL{Code: 65001, Data: []byte("ednsidaa")})
	}

	ctx := dnsserver.ContextWithRequestInfo(context.Background(), ri)
	raddr := netip.MustParseAddrPort("198.51.100.7:4321")
	laddr := netip.MustParseAddrPort("192.0.2.1:53")
	r := f.Find(ctx, req, raddr, laddr)

	if proto == agd.ProtoDNSCrypt || proto == agd.ProtoInvalid {
		verifAssert("dnscrypt-is-anonymous", r == nil)
		verifAssert("dnscrypt-never-asks-the-database", db.calls == 0)
		verifReach("dnscrypt")
		return
	}

	// the database may only be asked through the channel valid for the transport
	if db.byDevID != "" {
		switch proto {
		case agd.ProtoDNS:
			verifAssert("plain-dns-id-only-from-edns", db.byDevID == "ednsidaa" && ednsKind == 1)
		case agd.ProtoDoH:
			verifAssert("doh-id-from-userinfo-path-or-sni",
				(uiKind != 0 && db.byDevID == "useridaa") ||
					(uiKind == 0 && pathKind == 1 && db.byDevID == "pathidaa") ||
					(uiKind == 0 && pathKind == 0 && tlsKind == 1 && db.byDevID == "tlsidaaa"))
		default: // DoT, DoQ
			verifAssert("dot-doq-id-only-from-sni", db.byDevID == "tlsidaaa" && tlsKind == 1)
		}
	}
	if db.byLinked {
		verifAssert("linked-ip-only-on-plain-dns-when-enabled", proto == agd.ProtoDNS && srv.LinkedIPEnabled && db.linkedIP == raddr.Addr())
	}
	verifAssert("no-dedicated-ip-lookup-without-interface-binding", !db.byDedic)
	verifAssert("at-most-one-lookup", db.calls <= 1)

	switch r := r.(type) {
	case nil:
		verifReach("anonymous")
	case *agd.DeviceResultOK:
		verifAssert("recognised-device-comes-from-the-database", r.Device == dev && r.Profile == prof && db.calls == 1)
		verifAssert("deleted-profile-never-recognised", !deleted)
		// authentication decision table
		allowed := !authEnabled ||
			(proto != agd.ProtoDoH && !dohOnly) ||
			(proto == agd.ProtoDoH && uiKind == 0 && !dohOnly) ||
			(proto == agd.ProtoDoH && uiKind == 2 && passOK)
		verifAssert("recognised-only-when-authentication-policy-met", allowed)
		verifReach("ok")
	case *agd.DeviceResultAuthenticationFailure:
		verifAssert("auth-failure-only-with-auth-enabled", authEnabled)
		allowed := (proto != agd.ProtoDoH && !dohOnly) ||
			(proto == agd.ProtoDoH && uiKind == 0 && !dohOnly) ||
			(proto == agd.ProtoDoH && uiKind == 2 && passOK)
		verifAssert("auth-failure-only-when-policy-not-met", !allowed)
		verifReach("auth-failure")
	case *agd.DeviceResultError:
		verifReach("error")
	default:
		verifAssert("no-other-result-kind", false)
	}
}
