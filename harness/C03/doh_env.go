package dnsserver

//verif:pkg internal/dnsserver

import (
	"context"
	"net/http"
)

// VerifRequestInfoFor returns the request information the DoH server attaches to the
// context of the given HTTP request, for the harnesses of the packages behind it.
func VerifRequestInfoFor(r *http.Request) *RequestInfo {
	return MustRequestInfoFromContext(addRequestInfo(context.Background(), r))
}
