package devicefinder

//verif:pkg internal/dnssvc/internal/devicefinder

import (
	"context"
	"net/netip"
	"net/url"

	"github.com/AdguardTeam/AdGuardDNS/internal/agd"
	"github.com/AdguardTeam/AdGuardDNS/internal/dnsserver"
	"github.com/AdguardTeam/golibs/logutil/slogutil"
	"github.com/miekg/dns"
)

// verifNameCase is one identifier-carrying string with what must be extracted from it.
type verifNameCase struct {
	s       string
	devID   agd.DeviceID     // asked by device ID
	humanID agd.HumanIDLower // asked by human ID (extended form)
	bad     bool             // malformed: an error result, no lookup
}

// VerifC03Names: the identifier is taken from the TLS server name only when it is an
// immediate subdomain of a configured device domain (any letter case), and from the
// DoH path only from a second element of a DNS path; extended human-readable IDs go
// through the human-ID lookup of their profile; malformed identifiers are errors and
// never reach the database; everything else is anonymous.
//
//verif:harness name=H03c-names tier=quick,thorough bounds="DoT / DoQ / DoH servers with device domains {d.example, dev.example.net}; 15 TLS server names (case variants, nested labels, look-alike domains, extended IDs, malformed IDs) or 8 DoH paths; database answers found / not found" reach=by-device-id,by-human-id,malformed,anonymous maxpaths=100000
//verif:assume identifiers from a finite list of shapes (concrete strings)
func VerifC03Names() {
	proto := []agd.Protocol{agd.ProtoDoT, agd.ProtoDoQ, agd.ProtoDoH}[verifChoice(3)]
	dev := &agd.Device{ID: "abcd1234", Auth: &agd.AuthSettings{Enabled: false}}
	prof := &agd.Profile{ID: "prof1234"}
	db := &verifDB{prof: prof, dev: dev, noNil: true}
	f := NewDefault(&Config{
		Logger:        slogutil.NewDiscardLogger(),
		ProfileDB:     db,
		HumanIDParser: agd.NewHumanIDParser(),
		Server:        &agd.Server{Protocol: proto},
		DeviceDomains: []string{"d.example", "dev.example.net"},
	})
	snis := []verifNameCase{
		{s: ""},
		{s: "abcd1234.d.example", devID: "abcd1234"},
		{s: "ABCD1234.D.EXAMPLE", devID: "abcd1234"},
		{s: "AbCd1234.dev.Example.NET", devID: "abcd1234"},
		{s: "x.abcd1234.d.example"},
		{s: "d.example"},
		{s: "abcd1234.dd.example"},
		{s: "abcd1234xd.example"},  // the device domain is a suffix, but not at a label boundary
		{s: "abcd1234-d.example"},
		{s: "abcd123.xd.example"},
		{s: "abcd1234.d.example.org"},
		{s: "otr-prof1234-My-Phone.d.example", humanID: "my-phone"},
		{s: "OTR-PROF1234-tv.d.example", humanID: "tv"},
		{s: "bad_id!.d.example", bad: true},
		{s: "toolongdeviceid.d.example", bad: true},
		{s: "xyz-prof1234-phone.d.example", bad: true},
	}
	paths := []verifNameCase{
		{s: "/dns-query"},
		{s: "/dns-query/abcd1234", devID: "abcd1234"},
		{s: "/dns-query/ABCD1234", devID: "abcd1234"},
		{s: "/dns-query/abcd1234/", devID: "abcd1234"},
		{s: "/dns-query/x/../abcd1234", devID: "abcd1234"},
		{s: "/dns-query/otr-prof1234-My-Phone", humanID: "my-phone"},
		{s: "/dns-query/abcd1234/extra", bad: true},
		{s: "/other/abcd1234", bad: true},
		{s: "/dns-query/bad_id!", bad: true},
	}
	ri := &dnsserver.RequestInfo{URL: &url.URL{Path: "/dns-query"}}
	var c verifNameCase
	if proto == agd.ProtoDoH && verifChoice(2) == 1 {
		c = paths[verifChoice(len(paths))]
		ri.URL = &url.URL{Path: c.s}
	} else {
		c = snis[verifChoice(len(snis))]
		ri.TLSServerName = c.s
	}
	req := &dns.Msg{}
	req.SetQuestion("example.org.", dns.TypeA)
	ctx := dnsserver.ContextWithRequestInfo(context.Background(), ri)
	r := f.Find(ctx, req, netip.MustParseAddrPort("198.51.100.7:4321"), netip.MustParseAddrPort("192.0.2.1:853"))

	switch {
	case c.bad:
		_, isErr := r.(*agd.DeviceResultError)
		verifAssert("malformed-identifier-is-an-error-without-lookup", isErr && db.calls == 0)
		verifReach("malformed")
	case c.devID != "":
		verifAssert("device-id-lookup-with-the-lowercased-label", db.byDevID == c.devID && db.byHumanID == "" && !db.byLinked && !db.byDedic)
		verifReach("by-device-id")
	case c.humanID != "":
		verifAssert("human-id-lookup-in-the-named-profile", db.byDevID == "" && db.byHumanID == c.humanID && db.byProfile == "prof1234" && !db.byLinked && !db.byDedic)
		verifReach("by-human-id")
	default:
		verifAssert("no-identifier-no-lookup-anonymous", r == nil && db.calls == 0)
		verifReach("anonymous")
	}
	if ok, isOK := r.(*agd.DeviceResultOK); isOK {
		verifAssert("recognised-device-comes-from-the-database", ok.Device == dev && ok.Profile == prof && (c.devID != "" || c.humanID != ""))
	}
}
