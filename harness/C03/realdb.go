package devicefinder

//verif:pkg internal/dnssvc/internal/devicefinder

import (
	"context"
	"net/netip"
	"net/url"

	"github.com/AdguardTeam/AdGuardDNS/internal/agd"
	"github.com/AdguardTeam/AdGuardDNS/internal/dnsserver"
	"github.com/AdguardTeam/AdGuardDNS/internal/profiledb"
	"github.com/AdguardTeam/golibs/logutil/slogutil"
	"github.com/miekg/dns"
)

// VerifC03RealDB: with the real profile database behind the real device finder, a
// request carrying a device's identifier (TLS server name, or the linked address on
// plain DNS) is attributed to the device exactly while the last synchronisation lists
// the device in a live profile: after an incremental synchronisation detached the
// device, or marked its profile deleted, the same request is anonymous - with
// automatic device creation on or off.
//
//verif:harness name=H03e-real-db tier=quick,thorough bounds="one profile (automatic devices on or off) with one device (linked IP); DoT request with the device ID in the server name, or plain-DNS request from the linked address; after the full sync, one incremental sync from {none, device detached, profile deleted, device re-attached after detaching}; pending clean-up goroutines run or not before the request" reach=done,recognised,anonymous,detached maxpaths=20000 switches=0
//verif:assume profile storage is a stub (synchronisations are applied directly through setProfiles); clean-up goroutines run only when the harness lets them
func VerifC03RealDB() {
	db := profiledb.VerifNewDB()
	auto := verifChoice(2) == 1
	linked := netip.MustParseAddr("198.51.100.7")
	mkProf := func(attached, deleted bool) *agd.Profile {
		p := &agd.Profile{ID: "prof1234", AutoDevicesEnabled: auto, Deleted: deleted}
		if attached {
			p.DeviceIDs = []agd.DeviceID{"thedev01"}
		}
		return p
	}
	dev := &agd.Device{ID: "thedev01", Auth: &agd.AuthSettings{}, LinkedIP: linked}
	db.Sync([]*agd.Profile{mkProf(true, false)}, []*agd.Device{dev}, true)

	attached, deleted := true, false
	switch verifChoice(4) {
	case 1:
		attached = false
		db.Sync([]*agd.Profile{mkProf(false, false)}, nil, false)
		verifReach("detached")
	case 2:
		deleted = true
		db.Sync([]*agd.Profile{mkProf(true, true)}, []*agd.Device{dev}, false)
	case 3:
		db.Sync([]*agd.Profile{mkProf(false, false)}, nil, false)
		db.Sync([]*agd.Profile{mkProf(true, false)}, []*agd.Device{dev}, false)
	}

	plain := verifChoice(2) == 1
	srv := &agd.Server{Protocol: agd.ProtoDoT}
	ri := &dnsserver.RequestInfo{URL: &url.URL{Path: "/"}, TLSServerName: "thedev01.d.example"}
	if plain {
		srv = &agd.Server{Protocol: agd.ProtoDNS, LinkedIPEnabled: true}
		ri = &dnsserver.RequestInfo{URL: &url.URL{Path: "/"}}
	}
	f := NewDefault(&Config{Logger: slogutil.NewDiscardLogger(), ProfileDB: db, HumanIDParser: agd.NewHumanIDParser(), Server: srv, DeviceDomains: []string{"d.example"}})
	req := &dns.Msg{}
	req.SetQuestion("example.org.", dns.TypeA)
	find := func() agd.DeviceResult {
		return f.Find(dnsserver.ContextWithRequestInfo(context.Background(), ri), req, netip.AddrPortFrom(linked, 4321), netip.MustParseAddrPort("192.0.2.1:853"))
	}
	if verifChoice(2) == 1 {
		// an earlier request of the same client, and the clean-up it may have started
		_ = find()
		verifRunAll()
	}
	r := find()
	if attached && !deleted {
		ok, isOK := r.(*agd.DeviceResultOK)
		verifAssert("attached-device-is-recognised", isOK && ok.Device.ID == "thedev01" && ok.Profile.ID == "prof1234")
		verifReach("recognised")
	} else {
		verifAssert("detached-device-or-deleted-profile-is-anonymous", r == nil)
		verifReach("anonymous")
	}
	verifReach("done")
}
