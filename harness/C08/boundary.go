package dnsserver

//verif:pkg internal/dnsserver

import (
	"context"
	"net"
	"net/http"
	"net/url"
	"strings"
	"sync"
	"time"

	"github.com/AdguardTeam/golibs/syncutil"
	"github.com/miekg/dns"
)

type verifStreamConn struct {
	net.Conn
	written [][]byte
}

func (c *verifStreamConn) Write(b []byte) (int, error) {
	c.written = append(c.written, append([]byte(nil), b...))
	return len(b), nil
}
func (c *verifStreamConn) SetWriteDeadline(time.Time) error { return nil }

type verifHTTPW struct {
	hdr    http.Header
	status int
	body   []byte
}

func (w *verifHTTPW) Header() http.Header { return w.hdr }
func (w *verifHTTPW) WriteHeader(s int)   { w.status = s }
func (w *verifHTTPW) Write(b []byte) (int, error) {
	w.body = append(w.body, b...)
	return len(b), nil
}

// verifBigResponse builds a response whose unpadded wire length is exactly target
// (including an OPT record) out of 255-byte TXT records and one shorter one.
func verifBigResponse(req *dns.Msg, target int) *dns.Msg {
	resp := (&dns.Msg{}).SetReply(req)
	resp.Compress = true
	resp.SetEdns0(4096, false)
	txt := func(l int) dns.RR {
		return &dns.TXT{Hdr: dns.RR_Header{Name: "example.org.", Rrtype: dns.TypeTXT, Class: dns.ClassINET, Ttl: 60}, Txt: []string{strings.Repeat("z", l)}}
	}
	// each full record takes 2 (name pointer) + 10 + 1 + 255 bytes
	const full = 268
	base := resp.Len()
	n := (target - base) / full
	for i := 0; i < n; i++ {
		resp.Answer = append(resp.Answer, txt(255))
	}
	rest := target - base - n*full
	if rest >= 14 {
		resp.Answer = append(resp.Answer, txt(rest-13))
	}
	return resp
}

// VerifC08StreamBoundary: whatever a stream transport sends is at most 65535 bytes of
// DNS message, also when the response is close to the limit and the client asked for
// padding (padding is added after truncation).
//
//verif:harness name=H08d-stream-boundary tier=quick,thorough bounds="DoT (tcpResponseWriter) and DoH wire-format (writeResponse) writers; concrete handler responses of 65535-k bytes for k in {0..20, 300, 466, 467, 468, 2000} (0..20 with the keep-alive option alone) made of 255-byte TXT records; client OPT with the padding option, the keep-alive option or both; math/rand.Intn at the extremes of its range" reach=sent,refused maxpaths=20000
//verif:assume Pack output length equals miekg's Len (checked by the assertion on the bytes actually written)
func VerifC08StreamBoundary() {
	ks := []int{0, 1, 300, 466, 467, 468, 2000, 2, 3, 4, 5, 6, 7, 8, 9, 10, 11, 12, 13, 14, 15, 16, 17, 18, 19, 20}
	ki := verifChoice(len(ks))
	k := ks[ki]
	req := &dns.Msg{}
	req.SetQuestion("example.org.", dns.TypeTXT)
	req.SetEdns0(4096, false)
	o := req.IsEdns0()
	// what the client asks for on top of the answer: padding, keep-alive, or both
	// (both are added after truncation)
	extras := verifChoice(3)
	// the random padding length (1..31 bytes) must not decide between sent and
	// refused, or the native replay could not follow: the fine sweep of sizes is done
	// with the keep-alive option alone
	verifAssume(extras == 1 || ki < 7)
	if extras != 1 {
		o.Option = append(o.Option, &dns.EDNS0_PADDING{Padding: make([]byte, 4)})
	}
	if extras != 0 {
		o.Option = append(o.Option, &dns.EDNS0_TCP_KEEPALIVE{Code: dns.EDNS0TCPKEEPALIVE})
	}
	resp := verifBigResponse(req, 65535-k)
	verifAssume(resp.Len() == 65535-k)

	if verifChoice(2) == 0 {
		conn := &verifStreamConn{}
		w := &tcpResponseWriter{conn: conn, respPool: syncutil.NewSlicePool[byte](dns.MinMsgSize), writeMu: &sync.Mutex{}, writeTimeout: time.Second, idleTimeout: time.Second}
		ctx := ContextWithServerInfo(context.Background(), &ServerInfo{Name: "s", Addr: "a", Proto: ProtoDoT})
		err := w.WriteMsg(ctx, req, resp)
		if err != nil {
			verifAssert("nothing-sent-when-the-writer-refuses", len(conn.written) == 0)
			verifReach("refused")
			return
		}
		verifAssert("one-write", len(conn.written) == 1)
		b := conn.written[0]
		verifAssert("stream-message-at-most-65535-bytes", len(b)-2 <= 65535 && int(b[0])<<8|int(b[1]) == len(b)-2)
		verifReach("sent")
		return
	}
	h := &httpHandler{}
	hw := &verifHTTPW{hdr: http.Header{}}
	r := &http.Request{Method: http.MethodGet, URL: &url.URL{Path: "/dns-query"}, Header: http.Header{}}
	err := h.writeResponse(req, resp, r, hw)
	if err != nil {
		verifAssert("nothing-sent-when-the-writer-refuses", len(hw.body) == 0 && hw.status == 0)
		verifReach("refused")
		return
	}
	verifAssert("doh-message-at-most-65535-bytes", len(hw.body) <= 65535)
	verifReach("sent")
}
