package dnsserver

//verif:pkg internal/dnsserver

import (
	"strings"
	"time"

	"github.com/miekg/dns"
)

// VerifC08MaxSize: the UDP size limit is max(512, min(client's EDNS size, configured maximum)).
//
//verif:harness name=H08a-max-size tier=quick,thorough bounds="EDNS size and configured maximum full 16-bit; all networks" reach=udp,stream
func VerifC08MaxSize() {
	edns, cfg := nondetU16(), nondetU16()
	nw := []Network{NetworkUDP, NetworkTCP, NetworkAny}[verifChoice(3)]
	got := maxDNSSize(nw, edns, cfg)
	if nw != NetworkUDP {
		verifAssert("stream-limit-is-65535", got == 65535)
		verifReach("stream")
		return
	}
	m := edns
	if cfg < m {
		m = cfg
	}
	if m < 512 {
		m = 512
	}
	verifAssert("udp-limit-is-max-512-min-edns-configured", got == int(m))
	verifReach("udp")
}

type verifTransport struct {
	name    string
	network Network
	proto   Protocol
	keepTCP bool // goes through tcpResponseWriter (keep-alive handling)
}

var verifTransports = []verifTransport{
	{"udp", NetworkUDP, ProtoDNS, false},
	{"tcp", NetworkTCP, ProtoDNS, true},
	{"dot", NetworkTCP, ProtoDoT, true},
	{"doh", NetworkTCP, ProtoDoH, false},
	{"doq", NetworkTCP, ProtoDoQ, false},
	{"dnscrypt-udp", NetworkUDP, ProtoDNSCrypt, false},
	{"dnscrypt-tcp", NetworkTCP, ProtoDNSCrypt, false},
}

func verifHasOpt[T dns.EDNS0](o *dns.OPT) bool {
	if o == nil {
		return false
	}
	for _, e := range o.Option {
		if _, ok := e.(T); ok {
			return true
		}
	}
	return false
}

// VerifC08Normalize: after the writer-side normalisation of every transport the
// response fits the transport's limit, is truncated safely, echoes OPT correctly and
// carries padding / keep-alive only where allowed.
//
//verif:harness name=H08b-normalize tier=quick bounds="7 transports; request OPT absent or present with symbolic UDP size and symbolic extended-rcode / version / flag bits and any subset of {padding, keep-alive, NSID}; configured UDP maximum symbolic; handler response with 0..3 TXT answers of 10/200/255 bytes, 0..1 authority record, OPT absent or present with symbolic flag bits and EDE/NSID options; math/rand.Intn explored at the extremes of its range" reach=truncated,not-truncated,padded,keepalive maxpaths=400000
//verif:assume the handler's own OPT carries only EDE/NSID options (what the resolver pipeline can produce); Pack output length equals miekg's Len (library contract)
func VerifC08Normalize() { verifC08Normalize(3) }

// VerifC08Normalize5 is the thorough variant.
//
//verif:harness name=H08b-normalize5 tier=thorough bounds="as H08b-normalize with 0..5 answers" reach=truncated,not-truncated,padded,keepalive maxpaths=4000000
func VerifC08Normalize5() { verifC08Normalize(5) }

func verifC08Normalize(maxAns int) {
	tr := verifTransports[verifChoice(len(verifTransports))]
	req := &dns.Msg{}
	req.SetQuestion("example.org.", dns.TypeTXT)
	req.Id = nondetU16()
	hasOpt := verifChoice(2) == 1
	var reqSize uint16
	reqDO := false
	reqPad, reqKA, reqNSID := false, false, false
	if hasOpt {
		reqSize = nondetU16()
		req.SetEdns0(reqSize, false)
		o := req.IsEdns0()
		// extended rcode, version and flag bits of the client's OPT are arbitrary
		o.Hdr.Ttl = nondetU32()
		reqDO = o.Do()
		if verifChoice(2) == 1 {
			reqPad = true
			o.Option = append(o.Option, &dns.EDNS0_PADDING{Padding: make([]byte, 3)})
		}
		if verifChoice(2) == 1 {
			reqKA = true
			o.Option = append(o.Option, &dns.EDNS0_TCP_KEEPALIVE{Code: dns.EDNS0TCPKEEPALIVE})
		}
		if verifChoice(2) == 1 {
			reqNSID = true
			o.Option = append(o.Option, &dns.EDNS0_NSID{Code: dns.EDNS0NSID})
		}
	}
	cfgMax := nondetU16()

	resp := (&dns.Msg{}).SetReply(req)
	nAns := verifChoice(maxAns + 1)
	for i := 0; i < nAns; i++ {
		l := []int{10, 200, 255}[verifChoice(3)]
		resp.Answer = append(resp.Answer, &dns.TXT{
			Hdr: dns.RR_Header{Name: "example.org.", Rrtype: dns.TypeTXT, Class: dns.ClassINET, Ttl: 60},
			Txt: []string{strings.Repeat("x", l)},
		})
	}
	if verifChoice(2) == 1 {
		resp.Ns = []dns.RR{&dns.SOA{Hdr: dns.RR_Header{Name: "org.", Rrtype: dns.TypeSOA, Class: dns.ClassINET, Ttl: 60}, Ns: "ns.org.", Mbox: "m.org."}}
	}
	respHadOpt := verifChoice(2) == 1
	if respHadOpt {
		ro := &dns.OPT{Hdr: dns.RR_Header{Name: ".", Rrtype: dns.TypeOPT, Class: nondetU16(), Ttl: nondetU32()}}
		if verifChoice(2) == 1 {
			ro.Option = append(ro.Option, &dns.EDNS0_EDE{InfoCode: dns.ExtendedErrorCodeFiltered})
		}
		resp.Extra = append(resp.Extra, ro)
	}

	// writer-side sequence of the transport
	maxSize := uint16(dns.MaxMsgSize)
	if tr.name == "udp" {
		maxSize = cfgMax
	}
	normalize(tr.network, tr.proto, req, resp, maxSize)
	if tr.keepTCP {
		w := &tcpResponseWriter{idleTimeout: 30 * time.Second}
		w.addTCPKeepAlive(req, resp)
	}

	// (2) size limit
	limit := 65535
	if tr.network == NetworkUDP {
		limit = maxDNSSize(NetworkUDP, reqSize, maxSize)
	}
	padded := verifHasOpt[*dns.EDNS0_PADDING](resp.IsEdns0())
	if !padded {
		verifAssert("response-fits-the-transport-limit", resp.Len() <= limit)
	}
	// (3) safe truncation
	if resp.Truncated {
		verifAssert("truncated-response-has-no-answers", len(resp.Answer) == 0)
		verifReach("truncated")
	} else {
		verifAssert("untruncated-response-keeps-all-answers", len(resp.Answer) == nAns)
		verifReach("not-truncated")
	}
	// (4) OPT echo
	nOpt := 0
	for _, rr := range resp.Extra {
		if _, ok := rr.(*dns.OPT); ok {
			nOpt++
		}
	}
	if hasOpt {
		verifAssert("query-with-opt-gets-exactly-one-opt", nOpt == 1)
		if o := resp.IsEdns0(); o != nil {
			verifAssert("opt-echoes-client-udp-size", o.UDPSize() == reqSize)
			verifAssert("opt-version-zero", o.Version() == 0)
			verifAssert("opt-extended-rcode-not-copied-from-the-query", respHadOpt || o.Hdr.Ttl>>24 == 0)
			verifAssert("do-only-if-requested", !o.Do() || reqDO || respHadOpt)
		}
	} else {
		verifAssert("query-without-opt-gets-no-added-opt", nOpt == 0 || respHadOpt)
	}
	// (5) padding, (6) keep-alive
	if padded {
		verifAssert("padding-only-on-encrypted-transports-and-when-requested", tr.proto.HasPaddingSupport() && reqPad)
		verifReach("padded")
	} else if tr.proto.HasPaddingSupport() && reqPad {
		verifAssert("requested-padding-is-added", false)
	}
	if verifHasOpt[*dns.EDNS0_TCP_KEEPALIVE](resp.IsEdns0()) {
		verifAssert("keepalive-only-on-tcp-dot-and-when-requested", tr.keepTCP && reqKA)
		verifReach("keepalive")
	}
	_ = reqNSID
}

// VerifC08PresetTC: a handler response that already has the TC bit set, or whose bulk
// is in the authority / additional sections, is still cut down to the limit.
//
//verif:harness name=H08c-sections tier=quick,thorough bounds="7 transports; request OPT absent or present with symbolic UDP size; configured UDP maximum symbolic; handler response with TC preset or not, 0..2 answers, 0..3 authority and 0..2 additional TXT records of 255 bytes" reach=truncated,not-truncated,preset-tc maxpaths=400000
//verif:assume Pack output length equals miekg's Len (library contract)
func VerifC08PresetTC() {
	tr := verifTransports[verifChoice(len(verifTransports))]
	req := &dns.Msg{}
	req.SetQuestion("example.org.", dns.TypeTXT)
	var reqSize uint16
	if verifChoice(2) == 1 {
		reqSize = nondetU16()
		req.SetEdns0(reqSize, false)
	}
	cfgMax := nondetU16()
	resp := (&dns.Msg{}).SetReply(req)
	txt := func(name string) dns.RR {
		return &dns.TXT{Hdr: dns.RR_Header{Name: name, Rrtype: dns.TypeTXT, Class: dns.ClassINET, Ttl: 60}, Txt: []string{strings.Repeat("y", 255)}}
	}
	nAns, nNs, nExtra := verifChoice(3), verifChoice(4), verifChoice(3)
	for i := 0; i < nAns; i++ {
		resp.Answer = append(resp.Answer, txt("example.org."))
	}
	for i := 0; i < nNs; i++ {
		resp.Ns = append(resp.Ns, txt("org."))
	}
	for i := 0; i < nExtra; i++ {
		resp.Extra = append(resp.Extra, txt("ns.org."))
	}
	preset := verifChoice(2) == 1
	resp.Truncated = preset
	if preset {
		verifReach("preset-tc")
	}

	maxSize := uint16(dns.MaxMsgSize)
	if tr.name == "udp" {
		maxSize = cfgMax
	}
	normalize(tr.network, tr.proto, req, resp, maxSize)

	limit := 65535
	if tr.network == NetworkUDP {
		limit = maxDNSSize(NetworkUDP, reqSize, maxSize)
	}
	verifAssert("response-fits-the-transport-limit", resp.Len() <= limit)
	nExtraLeft := 0
	for _, rr := range resp.Extra {
		if _, ok := rr.(*dns.OPT); !ok {
			nExtraLeft++
		}
	}
	dropped := len(resp.Answer) < nAns || len(resp.Ns) < nNs || nExtraLeft < nExtra
	verifAssert("tc-set-when-records-were-dropped", !dropped || resp.Truncated)
	if resp.Truncated {
		verifAssert("truncated-response-has-no-answers", len(resp.Answer) == 0)
		verifReach("truncated")
	} else {
		verifReach("not-truncated")
	}
}
