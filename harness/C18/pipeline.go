package dnsserver

//verif:pkg internal/dnsserver
//verif:noop github.com/AdguardTeam/AdGuardDNS/internal/dnsserver.newPoolNonblocking
//verif:stub (*github.com/panjf2000/ants/v2.Pool).Submit verifAntsSubmitAsync

import (
	"context"
	"io"
	"net"
	"sync"
	"sync/atomic"
	"time"

	"github.com/AdguardTeam/golibs/syncutil"
	"github.com/miekg/dns"
	"github.com/panjf2000/ants/v2"
)

// verifAntsSubmitAsync replaces the worker pool in the symbolic build: every task is
// a thread of its own, like a pool worker.
func verifAntsSubmitAsync(p *ants.Pool, task func()) error {
	go task()
	return nil
}

// verifBurstConn delivers a burst of framed queries and then EOF.
type verifBurstConn struct {
	net.Conn
	data    []byte
	pos     int
	mu      sync.Mutex
	written int
	closes  atomic.Int64
}

func (c *verifBurstConn) Read(p []byte) (int, error) {
	if c.pos >= len(c.data) {
		return 0, io.EOF
	}
	n := copy(p, c.data[c.pos:])
	c.pos += n
	return n, nil
}
func (c *verifBurstConn) Write(b []byte) (int, error) {
	if c.closes.Load() > 0 {
		// the connection is gone: the response is lost
		return 0, net.ErrClosed
	}
	c.mu.Lock()
	c.written++
	c.mu.Unlock()
	return len(b), nil
}
func (c *verifBurstConn) Close() error                      { c.closes.Add(1); return nil }
func (c *verifBurstConn) SetReadDeadline(time.Time) error   { return nil }
func (c *verifBurstConn) SetWriteDeadline(time.Time) error  { return nil }
func (c *verifBurstConn) LocalAddr() net.Addr               { return &net.TCPAddr{IP: net.IP{192, 0, 2, 1}, Port: 53} }
func (c *verifBurstConn) RemoteAddr() net.Addr              { return &net.TCPAddr{IP: net.IP{192, 0, 2, 7}, Port: 5353} }

// verifSlowHandler counts the queries being processed at the same time; every query
// waits inside the handler until the driver lets it finish, so the order in which
// the in-flight queries complete is a choice of the harness (and replays natively).
type verifSlowHandler struct {
	inFlight atomic.Int64
	maxSeen  atomic.Int64
	served   atomic.Int64
	started  chan int
	gates    [8]chan struct{}
	finished chan int
	next     atomic.Int64
}

func verifNewSlowHandler() *verifSlowHandler {
	h := &verifSlowHandler{started: make(chan int, 8), finished: make(chan int, 8)}
	for i := range h.gates {
		h.gates[i] = make(chan struct{}, 1)
	}
	return h
}

func (h *verifSlowHandler) ServeDNS(ctx context.Context, rw ResponseWriter, req *dns.Msg) error {
	n := h.inFlight.Add(1)
	if n > h.maxSeen.Load() {
		h.maxSeen.Store(n)
	}
	k := int(h.next.Add(1) - 1)
	h.started <- k
	<-h.gates[k]
	h.inFlight.Add(-1)
	h.served.Add(1)
	err := rw.WriteMsg(ctx, req, (&dns.Msg{}).SetReply(req))
	h.finished <- k
	return err
}

// drive lets the in-flight queries finish one at a time in an order chosen by the
// harness, waiting for the system to settle after each completion.
func (h *verifSlowHandler) drive(total int) {
	var inflight []int
	for done := 0; done < total; {
		verifRunAll()
		for more := true; more; {
			select {
			case k := <-h.started:
				inflight = append(inflight, k)
			default:
				more = false
			}
		}
		if len(inflight) == 0 {
			// nothing is being processed: wait for the next query to start
			inflight = append(inflight, <-h.started)
			continue
		}
		i := verifChoice(len(inflight))
		k := inflight[i]
		inflight = append(inflight[:i:i], inflight[i+1:]...)
		h.gates[k] <- struct{}{}
		<-h.finished
		done++
	}
}

// VerifC18Pipeline: with pipeline limiting enabled, no more than the configured number
// of queries of one connection are processed at the same time, whatever the burst
// size and the order in which the workers run; every query is answered and the
// connection is closed once at the end.
//
//verif:harness name=H18d-pipeline tier=quick bounds="one TCP connection delivering a burst of 1..4 queries then EOF; max_pipeline_count in 1..2 (or limiting disabled); every worker a thread that waits inside the handler; the in-flight queries complete one at a time in every order" reach=done,limited,unlimited maxpaths=300000 switches=0
//verif:assume worker pool = one thread per task; threads switch at blocking operations and when finished; the completion order is chosen by a driver goroutine of the harness
func VerifC18Pipeline() { verifC18Pipeline(4, 2) }

// VerifC18Pipeline6 is the thorough variant.
//
//verif:harness name=H18d-pipeline6 tier=thorough bounds="as H18d-pipeline with bursts of 1..5 queries and max_pipeline_count in 1..3" reach=done,limited,unlimited maxpaths=5000000 switches=0
func VerifC18Pipeline6() { verifC18Pipeline(5, 3) }

func verifC18Pipeline(maxBurst, maxLimit int) {
	burst := 1 + verifChoice(maxBurst)
	limit := uint(1 + verifChoice(maxLimit))
	enabled := verifChoice(3) != 0
	h := verifNewSlowHandler()
	s := &ServerDNS{
		ServerBase: newServerBase(ProtoDNS, ConfigBase{Handler: h}),
		workerPool: newPoolNonblocking(),
		udpPool:    syncutil.NewSlicePool[byte](64),
		tcpPool:    syncutil.NewSlicePool[byte](64),
		respPool:   syncutil.NewSlicePool[byte](dns.MinMsgSize),
		tcpConns:   map[net.Conn]struct{}{},
		tcpConnsMu: &sync.Mutex{},
		conf:       ConfigDNS{ReadTimeout: time.Second, WriteTimeout: time.Second, TCPIdleTimeout: time.Second, MaxPipelineCount: limit, MaxPipelineEnabled: enabled},
	}
	s.started = true
	conn := &verifBurstConn{}
	for i := 0; i < burst; i++ {
		q := &dns.Msg{}
		q.SetQuestion("example.org.", dns.TypeA)
		q.Id = uint16(100 + i)
		b, err := q.Pack()
		verifAssume(err == nil)
		conn.data = append(conn.data, byte(len(b)>>8), byte(len(b)))
		conn.data = append(conn.data, b...)
	}
	go h.drive(burst)
	s.wg.Add(1)
	s.serveTCPConn(context.Background(), conn)
	verifRunAll()

	verifObserve("state", conn.closes.Load(), h.served.Load(), conn.written, h.maxSeen.Load())
	verifAssert("every-query-of-the-burst-answered", h.served.Load() == int64(burst) && conn.written == burst)
	verifAssert("connection-closed-once-after-the-burst", conn.closes.Load() == 1)
	if enabled {
		verifAssert("at-most-max-pipeline-count-queries-in-flight", h.maxSeen.Load() <= int64(limit))
		verifReach("limited")
	} else {
		verifReach("unlimited")
	}
	verifReach("done")
}
