package connlimiter

//verif:pkg internal/connlimiter

func verifC18Inv(c *counter) bool {
	return verifAnd(
		c.current <= c.stop,
		verifOr(!c.isAccepting, c.current < c.stop),
		verifOr(c.isAccepting, c.current > c.resume, c.current == c.stop),
	)
}

// VerifC18CounterStep: one inductive step of the connection counter from an arbitrary
// state satisfying the representation invariant (covers histories of any length).
//
//verif:harness name=H18a-counter-step tier=quick,thorough bounds="one increment or decrement from an arbitrary invariant state; current/stop/resume full 64-bit" reach=inc-accepted,inc-refused,dec-resumed,dec-still-stopped
//verif:assume configuration accepted by connlimiter.New: stop >= 1, resume <= stop; decrement is only called for an open connection or a pending accept (current > 0)
func VerifC18CounterStep() {
	c := &counter{current: nondetU64(), stop: nondetU64(), resume: nondetU64(), isAccepting: nondetBool()}
	verifAssume(c.stop >= 1)
	verifAssume(c.resume <= c.stop)
	verifAssume(verifC18Inv(c))
	cur, acc := c.current, c.isAccepting
	if verifChoice(2) == 0 {
		ok := c.increment()
		verifAssert("increment-accepts-iff-accepting", ok == acc)
		verifAssert("increment-inv", verifC18Inv(c))
		verifAssert("never-above-stop", c.current <= c.stop)
		if ok {
			verifAssert("increment-counts-one", c.current == cur+1)
			verifAssert("stops-exactly-at-stop", c.isAccepting == (c.current < c.stop))
			verifReach("inc-accepted")
		} else {
			verifAssert("refused-increment-changes-nothing", c.current == cur && !c.isAccepting)
			verifReach("inc-refused")
		}
	} else {
		verifAssume(cur > 0)
		c.decrement()
		verifAssert("decrement-counts-one", c.current == cur-1)
		verifAssert("decrement-inv", verifC18Inv(c))
		verifAssert("resumes-exactly-at-resume", c.isAccepting == verifOr(acc, c.current <= c.resume))
		if c.isAccepting && !acc {
			verifReach("dec-resumed")
		}
		if !c.isAccepting {
			verifReach("dec-still-stopped")
		}
	}
}

// VerifC18CounterInit: the state built by New satisfies the invariant.
//
//verif:harness name=H18a-counter-init tier=quick,thorough bounds="all stop/resume accepted by New (64-bit)" reach=ok,rejected
func VerifC18CounterInit() {
	stop, resume := nondetU64(), nondetU64()
	l, err := New(&Config{Stop: stop, Resume: resume})
	if err != nil {
		verifAssert("rejects-only-bad-config", verifOr(stop == 0, resume > stop))
		verifReach("rejected")
		return
	}
	verifAssert("accepts-only-good-config", verifAnd(stop >= 1, resume <= stop))
	verifAssert("init-inv", verifC18Inv(l.counter))
	verifReach("ok")
}
