package connlimiter

//verif:pkg internal/connlimiter

import (
	"errors"
	"net"
	"sync/atomic"

	"github.com/AdguardTeam/AdGuardDNS/internal/dnsserver"
	"github.com/AdguardTeam/golibs/logutil/slogutil"
)

// ghost state of the scenario harness
var (
	verifPending  atomic.Int64 // accepts past increment whose inner Accept has not returned
	verifOpen     atomic.Int64 // connections handed out and not yet closed
	verifStopAt     uint64
	verifFailNext atomic.Bool
)

type verifInnerLsnr struct{ closed atomic.Bool }

func (l *verifInnerLsnr) Accept() (net.Conn, error) {
	// the limiter has counted this accept already
	verifPending.Add(1)
	verifAssert("open-plus-pending-at-most-stop", uint64(verifPending.Load()+verifOpen.Load()) <= verifStopAt)
	verifPending.Add(-1)
	if verifFailNext.Load() {
		verifFailNext.Store(false)
		return nil, errors.New("inner accept failed")
	}
	verifOpen.Add(1)
	return &verifInnerConn{}, nil
}
func (l *verifInnerLsnr) Close() error   { l.closed.Store(true); return nil }
func (l *verifInnerLsnr) Addr() net.Addr { return nil }

type verifInnerConn struct {
	net.Conn
	closes atomic.Int64
}

func (c *verifInnerConn) Close() error {
	if c.closes.Add(1) == 1 {
		verifOpen.Add(-1)
	}
	return nil
}
func (c *verifInnerConn) RemoteAddr() net.Addr { return nil }

// VerifC18Scenario drives two listeners sharing one limiter: the limit is filled,
// waiters queue up, then connections / a listener are closed one operation at a
// time, the system running to quiescence after each operation.
//
//verif:harness name=H18b-listeners tier=quick bounds="2 listeners sharing a limiter, stop in 1..3, resume in 0..stop, 1..2 waiting accepts on either listener, then 3 operations from {close connection i (any, also an already closed one), close listener 1}; each operation runs to quiescence; threads switch only when blocked or finished (no preemption)" reach=done,waiter-blocked,waiter-released,conn-closed-twice,listener-closed maxpaths=400000 switches=0
//verif:assume operations do not overlap (each runs to quiescence before the next one starts)
func VerifC18Scenario() { verifC18Scenario(3) }

// VerifC18Scenario5 is the thorough variant.
//
//verif:harness name=H18b-listeners5 tier=thorough bounds="as H18b-listeners with 5 operations" reach=done,waiter-blocked,waiter-released,conn-closed-twice,listener-closed maxpaths=3000000 switches=0
//verif:assume operations do not overlap (each runs to quiescence before the next one starts)
func VerifC18Scenario5() { verifC18Scenario(5) }

type verifC18State struct {
	lim      *Limiter
	ls       [2]net.Listener
	started  [2]atomic.Int64
	finished [2]atomic.Int64
	got      [12]net.Conn
	gotN     atomic.Int64
	closed1  bool
	stop     uint64
}

func (st *verifC18State) accept(k int) {
	st.started[k].Add(1)
	go func() {
		c, aerr := st.ls[k].Accept()
		if aerr == nil {
			st.got[st.gotN.Add(1)-1] = c
		} else {
			verifAssert("accept-error-only-after-listener-close", errors.Is(aerr, net.ErrClosed) && k == 1 && st.closed1)
		}
		st.finished[k].Add(1)
	}()
}

func (st *verifC18State) check() {
	verifRunAll()
	cnt := st.lim.counter
	verifAssert("counter-at-most-stop", cnt.current <= st.stop)
	verifAssert("counter-equals-open-connections", cnt.current == uint64(verifOpen.Load()))
	blocked0 := st.started[0].Load() - st.finished[0].Load()
	blocked1 := st.started[1].Load() - st.finished[1].Load()
	if blocked0 > 0 {
		verifReach("waiter-blocked")
		verifAssert("waiting-accept-proceeds-once-accepting", !cnt.isAccepting)
	}
	if st.closed1 {
		verifAssert("closed-listener-releases-waiters", blocked1 == 0)
	} else if blocked1 > 0 {
		verifReach("waiter-blocked")
		verifAssert("waiting-accept-proceeds-once-accepting", !cnt.isAccepting)
	}
}

func verifC18Scenario(ops int) {
	stop := uint64(1 + verifChoice(3))
	resume := uint64(verifChoice(int(stop) + 1))
	verifStopAt = stop
	verifPending.Store(0)
	verifOpen.Store(0)
	verifFailNext.Store(false)
	lim, err := New(&Config{Logger: slogutil.NewDiscardLogger(), Stop: stop, Resume: resume})
	verifAssume(err == nil)
	si := &dnsserver.ServerInfo{Name: "s", Addr: "a", Proto: dnsserver.ProtoDoT}
	st := &verifC18State{lim: lim, stop: stop}
	st.ls = [2]net.Listener{lim.Limit(&verifInnerLsnr{}, si), lim.Limit(&verifInnerLsnr{}, si)}

	// phase 1: fill the limit
	for n := 0; n < int(stop); n++ {
		st.accept(n % 2)
		st.check()
	}
	verifAssert("limit-filled-without-waiting", st.gotN.Load() == int64(stop))
	verifAssert("stopped-at-stop", !lim.counter.isAccepting)

	// phase 2: waiters
	waiters := 1 + verifChoice(2)
	for w := 0; w < waiters; w++ {
		st.accept(verifChoice(2))
		st.check()
	}
	verifAssert("no-accept-beyond-stop", st.gotN.Load() == int64(stop))

	// phase 3: closes
	for step := 0; step < ops; step++ {
		n := int(st.gotN.Load())
		op := verifChoice(n + 1)
		if op == n {
			if st.closed1 {
				continue
			}
			_ = st.ls[1].Close()
			st.closed1 = true
			verifReach("listener-closed")
		} else {
			c := st.got[op]
			wasOpen := c.(*limitConn).Conn.(*verifInnerConn).closes.Load() == 0
			before := lim.counter.current
			_ = c.Close()
			if !wasOpen {
				verifReach("conn-closed-twice")
				verifAssert("double-close-releases-once", lim.counter.current == before)
			}
		}
		fin := st.finished[0].Load() + st.finished[1].Load()
		st.check()
		if st.finished[0].Load()+st.finished[1].Load() > fin && int(st.gotN.Load()) > n {
			verifReach("waiter-released")
		}
	}
	verifReach("done")
}

// VerifC18InnerFail: a failing inner Accept gives its slot back.
//
//verif:harness name=H18b-inner-fail tier=quick,thorough bounds="stop in 1..2, one failing inner accept followed by stop successful accepts" reach=done
func VerifC18InnerFail() {
	stop := uint64(1 + verifChoice(2))
	resume := uint64(verifChoice(int(stop) + 1))
	verifStopAt = stop
	verifPending.Store(0)
	verifOpen.Store(0)
	lim, err := New(&Config{Logger: slogutil.NewDiscardLogger(), Stop: stop, Resume: resume})
	verifAssume(err == nil)
	si := &dnsserver.ServerInfo{Name: "s", Addr: "a", Proto: dnsserver.ProtoDoT}
	l := lim.Limit(&verifInnerLsnr{}, si)
	for n := 0; n < int(stop)-1; n++ {
		_, aerr := l.Accept()
		verifAssert("accept-ok", aerr == nil)
	}
	verifFailNext.Store(true)
	_, aerr := l.Accept()
	verifAssert("inner-error-propagates", aerr != nil)
	verifAssert("failed-accept-gives-slot-back", lim.counter.current == stop-1)
	verifAssert("inv-after-failed-accept", verifC18Inv(lim.counter))
	if lim.counter.isAccepting {
		_, aerr = l.Accept()
		verifAssert("next-accept-ok", aerr == nil)
		verifAssert("full-now", lim.counter.current == stop && !lim.counter.isAccepting)
	}
	verifReach("done")
}

// verifSlowConn is an inner connection whose Close takes time: other goroutines run
// while it is in progress.
type verifSlowConn struct {
	net.Conn
	closes atomic.Int64
}

func (c *verifSlowConn) Close() error {
	c.closes.Add(1)
	verifYield()
	return nil
}
func (c *verifSlowConn) RemoteAddr() net.Addr {
	return &net.TCPAddr{IP: net.IP{192, 0, 2, 9}, Port: 4242}
}

type verifSlowLsnr struct{ net.Listener }

func (l *verifSlowLsnr) Accept() (net.Conn, error) { return &verifSlowConn{}, nil }
func (l *verifSlowLsnr) Close() error              { return nil }

// VerifC18ConcurrentClose: a connection closed by two goroutines at the same time
// (the handler and the server's deferred close) is released exactly once.
//
//verif:harness name=H18c-concurrent-close tier=quick,thorough bounds="stop in 1..2; one accepted connection closed by 2 or 3 goroutines that overlap inside the underlying Close; then as many accepts as the limit allows" reach=done switches=0
//verif:assume goroutines switch at the underlying Close (explicit scheduling point), at blocking operations and when finished; data races outside the claim
func VerifC18ConcurrentClose() {
	stop := uint64(1 + verifChoice(2))
	lim, err := New(&Config{Logger: slogutil.NewDiscardLogger(), Stop: stop, Resume: stop})
	verifAssume(err == nil)
	si := &dnsserver.ServerInfo{Name: "s", Addr: "a", Proto: dnsserver.ProtoDoT}
	l := lim.Limit(&verifSlowLsnr{}, si)
	c, aerr := l.Accept()
	verifAssume(aerr == nil)
	inner := c.(*limitConn).Conn.(*verifSlowConn)
	closers := 2 + verifChoice(2)
	var okCloses atomic.Int64
	for k := 0; k < closers; k++ {
		go func() {
			if c.Close() == nil {
				okCloses.Add(1)
			}
		}()
	}
	verifRunAll()
	verifAssert("underlying-connection-closed-once", inner.closes.Load() == 1)
	verifAssert("exactly-one-close-succeeds", okCloses.Load() == 1)
	verifAssert("counter-released-exactly-once", lim.counter.current == 0)
	verifAssert("limiter-accepting-after-release", lim.counter.isAccepting)
	verifReach("done")
}

// verifGatedLsnr is an inner listener whose Accept takes time: it returns when the
// harness says so, with a connection or with an error.
type verifGatedLsnr struct {
	gate chan bool
}

func (l *verifGatedLsnr) Accept() (net.Conn, error) {
	verifPending.Add(1)
	ok := <-l.gate
	verifPending.Add(-1)
	if !ok {
		return nil, errors.New("inner accept failed")
	}
	verifOpen.Add(1)
	return &verifInnerConn{}, nil
}
func (l *verifGatedLsnr) Close() error   { return nil }
func (l *verifGatedLsnr) Addr() net.Addr { return nil }

// VerifC18PendingFail: an accept that is still inside the underlying listener holds
// a slot of the limit; when it ends - with a connection or with an error - no accept
// of any listener sharing the limiter stays waiting while the limiter accepts again.
//
//verif:harness name=H18e-pending-accept tier=quick,thorough bounds="2 listeners sharing a limiter, stop in 1..2, resume in 0..stop; stop-1 open connections, one accept pending inside the underlying listener, 1..2 accepts waiting on the other listener; the pending accept then fails or succeeds; afterwards 0..1 open connection is closed" reach=done,pending-failed,pending-succeeded,waiter-released,waiter-still-blocked maxpaths=100000 switches=0
//verif:assume threads switch only when blocked or finished; the pending accept ends when the harness lets it
func VerifC18PendingFail() {
	stop := uint64(1 + verifChoice(2))
	resume := uint64(verifChoice(int(stop) + 1))
	verifStopAt = stop
	verifPending.Store(0)
	verifOpen.Store(0)
	verifFailNext.Store(false)
	lim, err := New(&Config{Logger: slogutil.NewDiscardLogger(), Stop: stop, Resume: resume})
	verifAssume(err == nil)
	si := &dnsserver.ServerInfo{Name: "s", Addr: "a", Proto: dnsserver.ProtoDoT}
	gated := &verifGatedLsnr{gate: make(chan bool, 2)}
	la, lb := lim.Limit(gated, si), lim.Limit(&verifInnerLsnr{}, si)

	var open []net.Conn
	for n := 0; n < int(stop)-1; n++ {
		c, aerr := lb.Accept()
		verifAssert("accept-ok", aerr == nil)
		open = append(open, c)
	}
	var doneA atomic.Bool
	var errA error
	go func() {
		var c net.Conn
		c, errA = la.Accept()
		if errA == nil {
			open = append(open, c)
		}
		doneA.Store(true)
	}()
	verifRunAll()
	verifAssert("pending-accept-holds-the-last-slot", !doneA.Load() && lim.counter.current == stop && !lim.counter.isAccepting)

	waiters := 1 + verifChoice(2)
	var doneB atomic.Int64
	for w := 0; w < waiters; w++ {
		go func() {
			c, aerr := lb.Accept()
			verifAssert("waiter-accept-ok", aerr == nil)
			if aerr == nil {
				open = append(open, c)
			}
			doneB.Add(1)
		}()
	}
	verifRunAll()
	verifAssert("accepts-wait-while-the-limit-is-held", doneB.Load() == 0)

	ok := verifChoice(2) == 1
	gated.gate <- ok
	verifRunAll()
	verifAssert("pending-accept-ended", doneA.Load() && (errA == nil) == ok)
	quiescent := func() {
		cnt := lim.counter
		verifAssert("counter-equals-open-connections", cnt.current == uint64(verifOpen.Load()))
		verifAssert("counter-at-most-stop", cnt.current <= stop)
		if doneB.Load() < int64(waiters) {
			verifAssert("waiting-accept-proceeds-once-accepting", !cnt.isAccepting)
			verifReach("waiter-still-blocked")
		}
		if doneB.Load() > 0 {
			verifReach("waiter-released")
		}
	}
	quiescent()
	if ok {
		verifReach("pending-succeeded")
	} else {
		verifReach("pending-failed")
	}
	if verifChoice(2) == 1 && len(open) > 0 {
		_ = open[verifChoice(len(open))].Close()
		verifRunAll()
		quiescent()
	}
	verifReach("done")
}

// verifGatedConn is an inner connection whose Close takes time: it completes when the
// harness says so; until then the connection still counts as open.
type verifGatedConn struct {
	net.Conn
	gate chan struct{}
}

func (c *verifGatedConn) Close() error {
	<-c.gate
	verifOpen.Add(-1)
	return nil
}
func (c *verifGatedConn) RemoteAddr() net.Addr { return nil }

// verifGatedConnLsnr hands out connections whose Close is gated.
type verifGatedConnLsnr struct{ gate chan struct{} }

func (l *verifGatedConnLsnr) Accept() (net.Conn, error) {
	verifPending.Add(1)
	verifAssert("open-plus-pending-at-most-stop", uint64(verifPending.Load()+verifOpen.Load()) <= verifStopAt)
	verifPending.Add(-1)
	verifOpen.Add(1)
	return &verifGatedConn{gate: l.gate}, nil
}
func (l *verifGatedConnLsnr) Close() error   { return nil }
func (l *verifGatedConnLsnr) Addr() net.Addr { return nil }

// VerifC18SlowClose: a connection whose close is still in progress (TLS shutdown,
// lingering socket) is still open: its slot is given back only once the underlying
// close has returned, so no waiting accept gets a connection while the limit is still
// held, and the bound on open connections is never exceeded.
//
//verif:harness name=H18f-slow-close tier=quick,thorough bounds="2 listeners sharing a limiter, stop in 1..2, resume in 0..stop; stop open connections whose Close blocks until released; one waiting accept on the other listener; one connection is closed (the close hangs, then completes)" reach=done,waiter-released maxpaths=20000 switches=0
//verif:assume threads switch only when blocked or finished; the hanging close completes when the harness lets it
func VerifC18SlowClose() {
	stop := uint64(1 + verifChoice(2))
	resume := uint64(verifChoice(int(stop) + 1))
	verifStopAt = stop
	verifPending.Store(0)
	verifOpen.Store(0)
	verifFailNext.Store(false)
	lim, err := New(&Config{Logger: slogutil.NewDiscardLogger(), Stop: stop, Resume: resume})
	verifAssume(err == nil)
	si := &dnsserver.ServerInfo{Name: "s", Addr: "a", Proto: dnsserver.ProtoDoT}
	gate := make(chan struct{}, 2)
	la, lb := lim.Limit(&verifGatedConnLsnr{gate: gate}, si), lim.Limit(&verifGatedConnLsnr{gate: gate}, si)
	var conns []net.Conn
	for n := 0; n < int(stop); n++ {
		c, aerr := la.Accept()
		verifAssert("accept-ok", aerr == nil)
		conns = append(conns, c)
	}
	var doneB atomic.Bool
	go func() {
		_, aerr := lb.Accept()
		verifAssert("waiter-accept-ok", aerr == nil)
		doneB.Store(true)
	}()
	verifRunAll()
	verifAssert("accept-waits-at-the-limit", !doneB.Load())

	var closed atomic.Bool
	go func() {
		_ = conns[verifChoice(len(conns))].Close()
		closed.Store(true)
	}()
	verifRunAll()
	verifAssert("no-connection-accepted-while-the-close-is-in-progress", !doneB.Load() && !closed.Load())
	gate <- struct{}{}
	verifRunAll()
	verifAssert("close-completes", closed.Load())
	verifAssert("counter-equals-open-connections", lim.counter.current == uint64(verifOpen.Load()))
	if doneB.Load() {
		verifReach("waiter-released")
	} else {
		verifAssert("waiting-accept-proceeds-once-accepting", !lim.counter.isAccepting)
	}
	verifReach("done")
}

// verifFailCloseConn is an inner connection whose Close reports an error (the
// connection is gone all the same).
type verifFailCloseConn struct {
	net.Conn
	fail   bool
	closes int
}

func (c *verifFailCloseConn) Close() error {
	c.closes++
	if c.closes == 1 {
		verifOpen.Add(-1)
	}
	if c.fail {
		return errors.New("close failed: connection reset by peer")
	}
	return nil
}
func (c *verifFailCloseConn) RemoteAddr() net.Addr { return nil }

type verifFailCloseLsnr struct{ fail []bool }

func (l *verifFailCloseLsnr) Accept() (net.Conn, error) {
	verifOpen.Add(1)
	f := false
	if len(l.fail) > 0 {
		f, l.fail = l.fail[0], l.fail[1:]
	}
	return &verifFailCloseConn{fail: f}, nil
}
func (l *verifFailCloseLsnr) Close() error   { return nil }
func (l *verifFailCloseLsnr) Addr() net.Addr { return nil }

// VerifC18CloseError: a connection gives its slot back exactly once when it is closed,
// also when the underlying close reports an error (reset by peer, failed TLS
// shutdown) and however often Close is called; afterwards the limiter accepts again.
//
//verif:harness name=H18g-close-error tier=quick,thorough bounds="stop in 1..2, resume in 0..stop; stop connections whose underlying Close succeeds or reports an error (independently); each is closed once or twice; then stop more accepts" reach=done,close-failed maxpaths=20000
func VerifC18CloseError() {
	stop := uint64(1 + verifChoice(2))
	resume := uint64(verifChoice(int(stop) + 1))
	verifStopAt = stop
	verifPending.Store(0)
	verifOpen.Store(0)
	verifFailNext.Store(false)
	lim, err := New(&Config{Logger: slogutil.NewDiscardLogger(), Stop: stop, Resume: resume})
	verifAssume(err == nil)
	si := &dnsserver.ServerInfo{Name: "s", Addr: "a", Proto: dnsserver.ProtoDoT}
	inner := &verifFailCloseLsnr{}
	for n := 0; n < int(stop); n++ {
		inner.fail = append(inner.fail, verifChoice(2) == 1)
	}
	fails := append([]bool{}, inner.fail...)
	l := lim.Limit(inner, si)
	var conns []net.Conn
	for n := 0; n < int(stop); n++ {
		c, aerr := l.Accept()
		verifAssert("accept-ok", aerr == nil)
		conns = append(conns, c)
	}
	verifAssert("stopped-at-stop", !lim.counter.isAccepting && lim.counter.current == stop)
	for n, c := range conns {
		cerr := c.Close()
		verifAssert("close-error-is-reported", (cerr != nil) == fails[n])
		if fails[n] {
			verifReach("close-failed")
		}
		if verifChoice(2) == 1 {
			_ = c.Close()
		}
		verifAssert("slot-given-back-exactly-once", lim.counter.current == stop-uint64(n+1))
	}
	verifAssert("limiter-accepts-again-after-all-connections-are-closed", lim.counter.isAccepting && lim.counter.current == 0)
	for n := 0; n < int(stop); n++ {
		_, aerr := l.Accept()
		verifAssert("accept-after-release-ok", aerr == nil)
	}
	verifReach("done")
}
