package filecachepb

//verif:pkg internal/profiledb/internal/filecachepb

import (
	"os"
	"path/filepath"
)

type verifStoreEnv struct {
	dir     string
	before  os.FileInfo
	hadFile bool
}

func verifNewStoreEnv() *verifStoreEnv {
	d, err := os.MkdirTemp("", "verif-pcache-")
	if err != nil {
		panic(err)
	}
	return &verifStoreEnv{dir: d}
}
func (e *verifStoreEnv) close()       { _ = os.RemoveAll(e.dir) }
func (e *verifStoreEnv) path() string { return filepath.Join(e.dir, "profilecache.pb") }
func (e *verifStoreEnv) seedExisting() {
	if err := os.WriteFile(e.path(), []byte("old cache"), 0o600); err != nil {
		panic(err)
	}
}
func (e *verifStoreEnv) exists() bool {
	_, err := os.Stat(e.path())
	return err == nil
}
func (e *verifStoreEnv) beforeStore() {
	fi, err := os.Stat(e.path())
	e.hadFile = err == nil
	e.before = fi
}

// replacedAtomically: an atomic replace gives the path a new inode; rewriting in place
// keeps the old one.
func (e *verifStoreEnv) replacedAtomically() bool {
	if !e.hadFile {
		return true
	}
	fi, err := os.Stat(e.path())
	return err == nil && !os.SameFile(e.before, fi)
}
