package filecachepb

//verif:pkg internal/profiledb/internal/filecachepb

import (
	"net/netip"
	"time"

	"github.com/AdguardTeam/AdGuardDNS/internal/access"
	"github.com/AdguardTeam/AdGuardDNS/internal/agd"
	"github.com/AdguardTeam/AdGuardDNS/internal/agdpasswd"
	"github.com/AdguardTeam/AdGuardDNS/internal/dnsmsg"
	"github.com/AdguardTeam/AdGuardDNS/internal/filter"
	"github.com/AdguardTeam/AdGuardDNS/internal/geoip"
	"github.com/AdguardTeam/AdGuardDNS/internal/profiledb/internal"
)

func verifAddr4() netip.Addr {
	var b [4]byte
	for i := range b {
		b[i] = nondetU8()
	}
	return netip.AddrFrom4(b)
}

func verifAddr6() netip.Addr {
	var b [16]byte
	for i := range b {
		b[i] = nondetU8()
	}
	return netip.AddrFrom16(b)
}

func verifPrefix4() netip.Prefix {
	bits := int(nondetU8())
	verifAssume(bits <= 32)
	return netip.PrefixFrom(verifAddr4(), bits)
}

func verifSameAddrs(a, b []netip.Addr) bool {
	if len(a) != len(b) {
		return false
	}
	r := true
	for i := range a {
		r = verifAnd(r, a[i] == b[i])
	}
	return r
}

func verifSamePrefixes(a, b []netip.Prefix) bool {
	if len(a) != len(b) {
		return false
	}
	r := true
	for i := range a {
		r = verifAnd(r, a[i] == b[i])
	}
	return r
}

// VerifC14RoundTrip: a profile and a device survive the conversion to the file-cache
// representation and back with every setting preserved.
//
//verif:harness name=H14c-roundtrip tier=quick,thorough bounds="one profile and one device; every boolean symbolic; blocking mode one of the four kinds (custom IPs: 0..2 symbolic addresses per family); access lists with 0..1 symbolic subnet / ASN; rate limiter off or on with symbolic RPS (< 4) and 0..1 client subnet; device auth off / allow-all / bcrypt hash with symbolic bytes; linked and dedicated IPs symbolic; no pause schedule" reach=done maxpaths=200000
//verif:assume protobuf wire marshalling (reflection-driven) is outside the claim: only the struct conversions are encoded; pause schedules (time-zone loading) are not covered
func VerifC14RoundTrip() {
	var bm dnsmsg.BlockingMode
	bmKind := verifChoice(4)
	switch bmKind {
	case 0:
		bm = &dnsmsg.BlockingModeNullIP{}
	case 1:
		bm = &dnsmsg.BlockingModeNXDOMAIN{}
	case 2:
		bm = &dnsmsg.BlockingModeREFUSED{}
	case 3:
		c := &dnsmsg.BlockingModeCustomIP{}
		for i, n := 0, verifChoice(3); i < n; i++ {
			c.IPv4 = append(c.IPv4, verifAddr4())
		}
		for i, n := 0, verifChoice(2); i < n; i++ {
			c.IPv6 = append(c.IPv6, verifAddr6())
		}
		bm = c
	}

	accConf := &access.ProfileConfig{}
	if verifChoice(2) == 1 {
		accConf.AllowedNets = []netip.Prefix{verifPrefix4()}
		accConf.BlockedASN = []geoip.ASN{geoip.ASN(nondetU32())}
	} else {
		accConf.BlockedNets = []netip.Prefix{verifPrefix4()}
		accConf.AllowedASN = []geoip.ASN{geoip.ASN(nondetU32())}
		accConf.BlocklistDomainRules = []string{"block.example"}
	}
	var rl agd.Ratelimiter = agd.GlobalRatelimiter{}
	rlOn := verifChoice(2) == 1
	var rps uint32
	var rlNets []netip.Prefix
	if rlOn {
		rps = nondetU32()
		verifAssume(rps >= 1)
		verifAssume(rps < 4)
		if verifChoice(2) == 1 {
			rlNets = []netip.Prefix{verifPrefix4()}
		}
		rl = agd.NewDefaultRatelimiter(&agd.RatelimitConfig{ClientSubnets: rlNets, RPS: rps, Enabled: true}, 1024)
	}

	fc := &filter.ConfigClient{
		Custom: &filter.ConfigCustom{ID: "prof1234", UpdateTime: time.Unix(1700000000, 0), Rules: []filter.RuleText{"||r.example^"}, Enabled: nondetBool()},
		Parental: &filter.ConfigParental{
			BlockedServices:          []filter.BlockedServiceID{"svc1"},
			Enabled:                  nondetBool(),
			AdultBlockingEnabled:     nondetBool(),
			SafeSearchGeneralEnabled: nondetBool(),
			SafeSearchYouTubeEnabled: nondetBool(),
		},
		RuleList:     &filter.ConfigRuleList{IDs: []filter.ID{"list_a", "list_b"}, Enabled: nondetBool()},
		SafeBrowsing: &filter.ConfigSafeBrowsing{Enabled: nondetBool(), DangerousDomainsEnabled: nondetBool(), NewlyRegisteredDomainsEnabled: nondetBool()},
	}
	p := &agd.Profile{
		FilterConfig:        fc,
		Access:              access.NewDefaultProfile(accConf),
		BlockingMode:        bm,
		Ratelimiter:         rl,
		ID:                  "prof1234",
		DeviceIDs:           []agd.DeviceID{"dev00001", "dev00002"},
		FilteredResponseTTL: 35 * time.Second,
		AutoDevicesEnabled:  nondetBool(),
		BlockChromePrefetch: nondetBool(),
		BlockFirefoxCanary:  nondetBool(),
		BlockPrivateRelay:   nondetBool(),
		Deleted:             nondetBool(),
		FilteringEnabled:    nondetBool(),
		IPLogEnabled:        nondetBool(),
		QueryLogEnabled:     nondetBool(),
	}

	d := &agd.Device{ID: "dev00001", Name: "Phone", HumanIDLower: "phone-a", FilteringEnabled: nondetBool()}
	authKind := verifChoice(3)
	hash := []byte{nondetU8(), nondetU8(), nondetU8()}
	switch authKind {
	case 0:
		d.Auth = &agd.AuthSettings{Enabled: false, PasswordHash: agdpasswd.AllowAuthenticator{}}
	case 1:
		d.Auth = &agd.AuthSettings{Enabled: true, DoHAuthOnly: nondetBool(), PasswordHash: agdpasswd.AllowAuthenticator{}}
	case 2:
		d.Auth = &agd.AuthSettings{Enabled: true, DoHAuthOnly: nondetBool(), PasswordHash: agdpasswd.NewPasswordHashBcrypt(hash)}
	}
	if verifChoice(2) == 1 {
		d.LinkedIP = verifAddr4()
	}
	for i, n := 0, verifChoice(3); i < n; i++ {
		d.DedicatedIPs = append(d.DedicatedIPs, verifAddr4())
	}

	in := &internal.FileCache{SyncTime: time.Unix(1700000100, 0), Profiles: []*agd.Profile{p}, Devices: []*agd.Device{d}, Version: internal.FileCacheVersion}
	out, err := toInternal(toProtobuf(in), 1024)
	verifAssert("conversion-back-succeeds", err == nil)
	verifAssert("one-profile-one-device", len(out.Profiles) == 1 && len(out.Devices) == 1)
	verifAssert("version-and-sync-time", out.Version == in.Version && out.SyncTime.Equal(in.SyncTime))
	q, e := out.Profiles[0], out.Devices[0]

	verifAssert("profile-id-devices-ttl", q.ID == p.ID && len(q.DeviceIDs) == 2 && q.DeviceIDs[0] == p.DeviceIDs[0] && q.DeviceIDs[1] == p.DeviceIDs[1] && q.FilteredResponseTTL == p.FilteredResponseTTL)
	verifAssert("profile-flags", verifAnd(q.AutoDevicesEnabled == p.AutoDevicesEnabled, q.BlockChromePrefetch == p.BlockChromePrefetch,
		q.BlockFirefoxCanary == p.BlockFirefoxCanary, q.BlockPrivateRelay == p.BlockPrivateRelay, q.Deleted == p.Deleted,
		q.FilteringEnabled == p.FilteringEnabled, q.IPLogEnabled == p.IPLogEnabled, q.QueryLogEnabled == p.QueryLogEnabled))
	g := q.FilterConfig
	verifAssert("filter-config-flags", verifAnd(g.Custom.Enabled == fc.Custom.Enabled, g.Parental.Enabled == fc.Parental.Enabled,
		g.Parental.AdultBlockingEnabled == fc.Parental.AdultBlockingEnabled, g.Parental.SafeSearchGeneralEnabled == fc.Parental.SafeSearchGeneralEnabled,
		g.Parental.SafeSearchYouTubeEnabled == fc.Parental.SafeSearchYouTubeEnabled, g.RuleList.Enabled == fc.RuleList.Enabled,
		g.SafeBrowsing.Enabled == fc.SafeBrowsing.Enabled, g.SafeBrowsing.DangerousDomainsEnabled == fc.SafeBrowsing.DangerousDomainsEnabled,
		g.SafeBrowsing.NewlyRegisteredDomainsEnabled == fc.SafeBrowsing.NewlyRegisteredDomainsEnabled))
	verifAssert("filter-config-lists", g.Custom.ID == fc.Custom.ID && g.Custom.UpdateTime.Equal(fc.Custom.UpdateTime) && len(g.Custom.Rules) == 1 && g.Custom.Rules[0] == fc.Custom.Rules[0] &&
		len(g.Parental.BlockedServices) == 1 && g.Parental.BlockedServices[0] == "svc1" && len(g.RuleList.IDs) == 2 && g.RuleList.IDs[0] == "list_a" && g.RuleList.IDs[1] == "list_b" && g.Parental.PauseSchedule == nil)

	switch bmKind {
	case 0:
		_, ok := q.BlockingMode.(*dnsmsg.BlockingModeNullIP)
		verifAssert("blocking-mode-kind", ok)
	case 1:
		_, ok := q.BlockingMode.(*dnsmsg.BlockingModeNXDOMAIN)
		verifAssert("blocking-mode-kind", ok)
	case 2:
		_, ok := q.BlockingMode.(*dnsmsg.BlockingModeREFUSED)
		verifAssert("blocking-mode-kind", ok)
	case 3:
		c, ok := q.BlockingMode.(*dnsmsg.BlockingModeCustomIP)
		verifAssert("blocking-mode-kind", ok)
		if ok {
			want := bm.(*dnsmsg.BlockingModeCustomIP)
			verifAssert("custom-blocking-ips", verifAnd(verifSameAddrs(c.IPv4, want.IPv4), verifSameAddrs(c.IPv6, want.IPv6)))
		}
	}

	ac := q.Access.Config()
	verifAssert("access-present", ac != nil)
	if ac != nil {
		verifAssert("access-nets", verifAnd(verifSamePrefixes(ac.AllowedNets, accConf.AllowedNets), verifSamePrefixes(ac.BlockedNets, accConf.BlockedNets)))
		asnOK := len(ac.AllowedASN) == len(accConf.AllowedASN) && len(ac.BlockedASN) == len(accConf.BlockedASN)
		if asnOK && len(ac.AllowedASN) == 1 {
			asnOK = ac.AllowedASN[0] == accConf.AllowedASN[0]
		}
		if asnOK && len(ac.BlockedASN) == 1 {
			asnOK = ac.BlockedASN[0] == accConf.BlockedASN[0]
		}
		verifAssert("access-asns", asnOK)
		verifAssert("access-name-rules", len(ac.BlocklistDomainRules) == len(accConf.BlocklistDomainRules))
	}

	rc := q.Ratelimiter.Config()
	if rlOn {
		verifAssert("ratelimiter-kept", rc != nil && rc.Enabled && rc.RPS == rps && verifSamePrefixes(rc.ClientSubnets, rlNets))
	} else {
		_, isGlobal := q.Ratelimiter.(agd.GlobalRatelimiter)
		verifAssert("no-ratelimiter-kept", isGlobal)
	}

	verifAssert("device-basics", e.ID == d.ID && e.Name == d.Name && e.HumanIDLower == d.HumanIDLower && e.FilteringEnabled == d.FilteringEnabled)
	verifAssert("device-addresses", verifAnd(e.LinkedIP == d.LinkedIP, verifSameAddrs(e.DedicatedIPs, d.DedicatedIPs)))
	verifAssert("device-auth-enabled", e.Auth != nil && e.Auth.Enabled == d.Auth.Enabled)
	if authKind != 0 {
		verifAssert("device-auth-doh-only", e.Auth.DoHAuthOnly == d.Auth.DoHAuthOnly)
	}
	if authKind == 2 {
		h, ok := e.Auth.PasswordHash.(*agdpasswd.PasswordHashBcrypt)
		verifAssert("device-auth-hash-kind", ok)
		if ok {
			got := h.PasswordHash()
			verifAssert("device-auth-hash-bytes", len(got) == 3 && verifAnd(got[0] == hash[0], got[1] == hash[1], got[2] == hash[2]))
		}
	}
	verifReach("done")
}
