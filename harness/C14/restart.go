package profiledb

//verif:pkg internal/profiledb

import (
	"context"
	"net/netip"
	"sync"
	"time"

	"github.com/AdguardTeam/AdGuardDNS/internal/agd"
	"github.com/AdguardTeam/AdGuardDNS/internal/profiledb/internal"
	"github.com/AdguardTeam/golibs/logutil/slogutil"
)

// verifMemCache is a file-cache storage that keeps the last stored cache in memory.
type verifMemCache struct {
	last   *internal.FileCache
	stores int
}

func (c *verifMemCache) Load(context.Context) (*internal.FileCache, error) { return c.last, nil }
func (c *verifMemCache) Store(_ context.Context, fc *internal.FileCache) error {
	c.last = fc
	c.stores++
	return nil
}

// verifScriptStorage answers the k-th Profiles call with the k-th response.
type verifScriptStorage struct {
	resps []*StorageProfilesResponse
	reqs  []*StorageProfilesRequest
}

func (s *verifScriptStorage) CreateAutoDevice(context.Context, *StorageCreateAutoDeviceRequest) (*StorageCreateAutoDeviceResponse, error) {
	return nil, ErrDeviceNotFound
}
func (s *verifScriptStorage) Profiles(_ context.Context, r *StorageProfilesRequest) (*StorageProfilesResponse, error) {
	s.reqs = append(s.reqs, r)
	return s.resps[len(s.reqs)-1], nil
}

func verifRestartDB(cache internal.FileCacheStorage, strg Storage) *Default {
	return &Default{
		logger:                slogutil.NewDiscardLogger(),
		mapsMu:                &sync.RWMutex{},
		refreshMu:             &sync.Mutex{},
		errColl:               verifErrColl14{},
		metrics:               EmptyMetrics{},
		cache:                 cache,
		storage:               strg,
		profiles:              make(map[agd.ProfileID]*agd.Profile),
		devices:               make(map[agd.DeviceID]*agd.Device),
		deviceIDToProfileID:   make(map[agd.DeviceID]agd.ProfileID),
		dedicatedIPToDeviceID: make(map[netip.Addr]agd.DeviceID),
		humanIDToDeviceID:     make(map[humanIDKey]agd.DeviceID),
		linkedIPToDeviceID:    make(map[netip.Addr]agd.DeviceID),
		fullSyncIvl:           time.Hour,
		fullSyncRetryIvl:      time.Minute,
	}
}

// VerifC14Restart: a database restarted from its file cache answers the lookups of
// every device that the running database knew when the cache was written: the cache
// holds a complete state (it is written by full synchronisations only, never replaced
// by the delta of an incremental one).
//
//verif:harness name=H14g-restart tier=quick,thorough bounds="full sync with profile A (device a, linked IP); then 0..2 incremental syncs each delivering another profile B / C with its own device; then a second database is created over the same cache and refreshed once (the local clock runs 5 s ahead of the backend's sync times); lookups by device ID and linked IP" reach=done,restarted-after-incremental maxpaths=20000
//verif:assume the file cache is an in-memory stub of the FileCacheStorage interface (its encoding is decided by H14c / H14f); clock fixed within the full-sync interval
func VerifC14Restart() {
	mk := func(n string, ip string) (*agd.Profile, *agd.Device) {
		d := &agd.Device{ID: agd.DeviceID("dev0000" + n), Auth: &agd.AuthSettings{}, LinkedIP: netip.MustParseAddr(ip)}
		p := &agd.Profile{ID: agd.ProfileID("prof000" + n), DeviceIDs: []agd.DeviceID{d.ID}}
		return p, d
	}
	pa, da := mk("a", "192.0.2.10")
	pb, db := mk("b", "192.0.2.11")
	pc, dc := mk("c", "192.0.2.12")
	t0 := time.Unix(1_700_000_000, 0)
	// the local clock runs ahead of the backend's snapshot times
	verifSetClock(t0.Add(5 * time.Second).UnixNano())
	strg := &verifScriptStorage{resps: []*StorageProfilesResponse{
		{SyncTime: t0, Profiles: []*agd.Profile{pa}, Devices: []*agd.Device{da}},
		{SyncTime: t0.Add(time.Minute), Profiles: []*agd.Profile{pb}, Devices: []*agd.Device{db}},
		{SyncTime: t0.Add(2 * time.Minute), Profiles: []*agd.Profile{pc}, Devices: []*agd.Device{dc}},
	}}
	cache := &verifMemCache{}
	first := verifRestartDB(cache, strg)
	ctx := context.Background()
	verifAssert("full-sync-succeeds", first.Refresh(ctx) == nil)
	verifAssert("first-refresh-is-a-full-sync", len(strg.reqs) == 1 && strg.reqs[0].SyncTime.IsZero())
	incr := verifChoice(3)
	for k := 0; k < incr; k++ {
		verifSetClock(t0.Add(time.Duration(k+1)*time.Minute + 5*time.Second).UnixNano())
		verifAssert("incremental-sync-succeeds", first.Refresh(ctx) == nil)
		verifAssert("later-refresh-is-incremental", !strg.reqs[len(strg.reqs)-1].SyncTime.IsZero())
	}

	verifAssert("cache-written-by-the-full-sync-with-the-backend's-sync-point", cache.last != nil && cache.last.SyncTime.Equal(t0))

	// restart: the next incremental sync continues from the cached sync point
	after := &verifScriptStorage{resps: []*StorageProfilesResponse{{SyncTime: t0.Add(10 * time.Minute)}}}
	second := verifRestartDB(cache, after)
	verifAssert("cache-loads", second.loadFileCache(ctx) == nil)
	verifSetClock(t0.Add(10*time.Minute + 5*time.Second).UnixNano())
	verifAssert("refresh-after-restart-succeeds", second.Refresh(ctx) == nil)
	verifAssert("restarted-database-continues-from-the-cached-sync-point", len(after.reqs) == 1 && after.reqs[0].SyncTime.Equal(t0))
	// every device of the last complete state is found as before
	p, d, err := second.ProfileByDeviceID(ctx, da.ID)
	verifAssert("restarted-database-finds-the-devices-of-the-cached-state", err == nil && p != nil && d != nil && p.ID == pa.ID && d.ID == da.ID)
	p, d, err = second.ProfileByLinkedIP(ctx, da.LinkedIP)
	verifAssert("restarted-database-finds-the-devices-of-the-cached-state", err == nil && p != nil && d != nil && d.ID == da.ID)
	if incr > 0 {
		verifReach("restarted-after-incremental")
	}
	verifReach("done")
}
