package profiledb

//verif:pkg internal/profiledb

import (
	"context"

	"github.com/AdguardTeam/AdGuardDNS/internal/agd"
)

var verifProfIDs = [2]agd.ProfileID{"prof0000", "prof0001"}

// verifMoves is the ghost backend of VerifC14Moves: the profile each device belongs to.
type verifMoves struct {
	prof    [2]int  // device -> profile index or -1 (deleted)
	deleted [2]bool // profile marked as deleted by the backend
	auto    bool    // the profiles have automatic device creation enabled
}

func (b *verifMoves) profile(p int) *agd.Profile {
	pr := &agd.Profile{ID: verifProfIDs[p], Deleted: b.deleted[p], AutoDevicesEnabled: b.auto}
	for d, dp := range b.prof {
		if dp == p {
			pr.DeviceIDs = append(pr.DeviceIDs, verifDevIDs[d])
		}
	}
	return pr
}

func (b *verifMoves) device(d int) *agd.Device {
	return &agd.Device{ID: verifDevIDs[d], Auth: &agd.AuthSettings{}, DedicatedIPs: verifKeys[d : d+1]}
}

// response builds the answer of an incremental sync after profiles a and c (either
// may be -1) have changed: the changed profiles in the given order with the devices
// they now contain.
func (b *verifMoves) response(first, second int) (ps []*agd.Profile, ds []*agd.Device) {
	for _, p := range []int{first, second} {
		if p < 0 || (len(ps) == 1 && ps[0].ID == verifProfIDs[p]) {
			continue
		}
		ps = append(ps, b.profile(p))
		for d, dp := range b.prof {
			if dp == p {
				ds = append(ds, b.device(d))
			}
		}
	}
	return ps, ds
}

// VerifC14Moves: devices move between two profiles (or are deleted and re-created)
// over incremental syncs whose responses list the changed profiles in either order;
// a lookup by device ID or by dedicated IP returns the device together with the
// profile that currently contains it, and nothing for a deleted device.
//
//verif:harness name=H14b-moves tier=quick bounds="2 profiles (automatic device creation on or off), 2 devices each with one dedicated IP; initially both in profile 0; 4 steps from {incremental sync moving one device to profile 0/1/deleted with the changed profiles listed in either order, incremental sync marking a profile deleted or live again, lookup by device ID, lookup by dedicated IP, run pending clean-up goroutines}" reach=done,found,not-found,moved,profile-deleted maxpaths=3000000 switches=0
//verif:assume backend consistency: a device belongs to at most one profile; an incremental response contains every profile whose device list changed, with its current devices; clean-up goroutines run only when the harness lets them
func VerifC14Moves() { verifC14Moves(4) }

// VerifC14Moves6 is the thorough variant.
//
//verif:harness name=H14b-moves6 tier=thorough bounds="as H14b-moves with 5 steps" reach=done,found,not-found,moved maxpaths=30000000 switches=0
//verif:assume as H14b-moves
func VerifC14Moves6() { verifC14Moves(5) }

func verifC14Moves(steps int) {
	db := verifNewDB()
	b := &verifMoves{auto: verifChoice(2) == 1}
	ctx := context.Background()
	db.setProfiles(ctx, []*agd.Profile{b.profile(0), b.profile(1)}, []*agd.Device{b.device(0), b.device(1)}, true)

	for s := 0; s < steps; s++ {
		switch verifChoice(5) {
		case 4: // incremental sync: profile p is deleted (or comes back)
			p := verifChoice(2)
			b.deleted[p] = !b.deleted[p]
			ps, ds := b.response(p, -1)
			db.setProfiles(ctx, ps, ds, false)
			verifReach("profile-deleted")
		case 0: // incremental sync: device d goes to profile np
			d := verifChoice(2)
			np := verifChoice(3) - 1
			old := b.prof[d]
			verifAssume(np != old)
			b.prof[d] = np
			var ps []*agd.Profile
			var ds []*agd.Device
			if verifChoice(2) == 0 {
				ps, ds = b.response(old, np)
			} else {
				ps, ds = b.response(np, old)
			}
			db.setProfiles(ctx, ps, ds, false)
			verifReach("moved")
		case 1, 2: // lookup
			d := verifChoice(2)
			var p *agd.Profile
			var dev *agd.Device
			var err error
			if verifChoice(2) == 0 {
				p, dev, err = db.ProfileByDeviceID(ctx, verifDevIDs[d])
			} else {
				p, dev, err = db.ProfileByDedicatedIP(ctx, verifKeys[d])
			}
			if b.prof[d] < 0 {
				verifAssert("deleted-device-is-not-found", err != nil && dev == nil)
				verifReach("not-found")
			} else {
				verifAssert("lookup-returns-the-device", err == nil && dev != nil && dev.ID == verifDevIDs[d])
				verifAssert("lookup-returns-the-profile-that-contains-it", err != nil || (p != nil && p.ID == verifProfIDs[b.prof[d]]))
				verifAssert("lookup-shows-the-profile's-current-deleted-mark", err != nil || p == nil || p.Deleted == b.deleted[b.prof[d]])
				verifReach("found")
			}
		case 3:
			verifRunAll()
		}
	}
	verifReach("done")
}
