package filecachepb

//verif:pkg internal/profiledb/internal/filecachepb

import (
	"time"

	"github.com/AdguardTeam/AdGuardDNS/internal/agdtime"
	"github.com/AdguardTeam/AdGuardDNS/internal/filter"
)

// VerifC14Schedule: a parental pause schedule survives the conversion to the file-cache
// representation and back day by day.
//
//verif:harness name=H14d-schedule tier=quick,thorough bounds="weekly pause schedule: each of the seven days absent or with symbolic 16-bit start and end; time zone UTC" reach=done,some-day-set maxpaths=100000
//verif:assume time-zone database loading is outside the claim (UTC only); protobuf wire marshalling is outside the claim (struct conversions only)
func VerifC14Schedule() {
	in := &filter.ConfigSchedule{Week: &filter.WeeklySchedule{}, TimeZone: agdtime.UTC()}
	any := false
	for d := time.Sunday; d <= time.Saturday; d++ {
		if nondetBool() {
			in.Week[d] = &filter.DayInterval{Start: nondetU16(), End: nondetU16()}
			any = true
		}
	}
	out, err := scheduleToProtobuf(in).toInternal()
	verifAssert("schedule-converts-back", err == nil && out != nil && out.Week != nil)
	if err != nil || out == nil || out.Week == nil {
		return
	}
	for d := time.Sunday; d <= time.Saturday; d++ {
		a, b := in.Week[d], out.Week[d]
		verifAssert("day-presence-preserved", (a == nil) == (b == nil))
		if a != nil && b != nil {
			verifAssert("day-interval-preserved", a.Start == b.Start && a.End == b.End)
		}
	}
	verifAssert("time-zone-preserved", out.TimeZone != nil && out.TimeZone.String() == "UTC")
	if any {
		verifReach("some-day-set")
	}
	verifReach("done")
}
