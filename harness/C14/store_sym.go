package filecachepb

//verif:pkg internal/profiledb/internal/filecachepb
//verif:stub google.golang.org/protobuf/proto.Marshal verifMarshal
//verif:stub github.com/google/renameio/v2.WriteFile verifAtomicWriteFile
//verif:stub os.WriteFile verifDirectWriteFile
//verif:stub os.OpenFile verifDirectOpenFile
//verif:stub os.Create verifDirectCreate

import (
	"io/fs"
	"os"

	renameio "github.com/google/renameio/v2"
	"google.golang.org/protobuf/proto"
)

// ghost file of the symbolic build
type verifStoreGhost struct {
	exists  bool
	atomic  int
	inPlace int
}

var verifSG *verifStoreGhost

type verifStoreEnv struct{}

func verifNewStoreEnv() *verifStoreEnv { verifSG = &verifStoreGhost{}; return &verifStoreEnv{} }
func (*verifStoreEnv) close()         {}
func (*verifStoreEnv) path() string   { return "/ghost/profilecache.pb" }
func (*verifStoreEnv) seedExisting()  { verifSG.exists = true }
func (*verifStoreEnv) exists() bool   { return verifSG.exists }
func (*verifStoreEnv) beforeStore()   { verifSG.atomic, verifSG.inPlace = 0, 0 }
func (*verifStoreEnv) replacedAtomically() bool {
	return verifSG.inPlace == 0 && verifSG.atomic == 1
}

func verifMarshal(m proto.Message) ([]byte, error) { return []byte{8, 1}, nil }

func verifAtomicWriteFile(filename string, data []byte, perm os.FileMode, opts ...renameio.Option) error {
	if filename == "/ghost/profilecache.pb" {
		verifSG.atomic++
		verifSG.exists = true
	}
	return nil
}

func verifDirectWriteFile(name string, data []byte, perm fs.FileMode) error {
	if name == "/ghost/profilecache.pb" {
		verifSG.inPlace++
		verifSG.exists = true
	}
	return nil
}

func verifDirectOpenFile(name string, flag int, perm fs.FileMode) (*os.File, error) {
	if name == "/ghost/profilecache.pb" && flag&(os.O_WRONLY|os.O_RDWR) != 0 {
		verifSG.inPlace++
	}
	return nil, os.ErrPermission
}

func verifDirectCreate(name string) (*os.File, error) {
	if name == "/ghost/profilecache.pb" {
		verifSG.inPlace++
	}
	return nil, os.ErrPermission
}
