package filecachepb

//verif:pkg internal/profiledb/internal/filecachepb
//verif:stub google.golang.org/protobuf/proto.Marshal verifMarshal
//verif:stub github.com/google/renameio/v2.WriteFile verifAtomicWriteFile
//verif:stub os.WriteFile verifDirectWriteFile
//verif:stub os.OpenFile verifDirectOpenFile
//verif:stub os.Create verifDirectCreate
//verif:stub os.ReadFile verifGhostReadFile
//verif:stub google.golang.org/protobuf/proto.Unmarshal verifUnmarshal

import (
	"io/fs"
	"os"

	renameio "github.com/google/renameio/v2"
	"google.golang.org/protobuf/proto"
)

// ghost file of the symbolic build
type verifStoreGhost struct {
	// the message last encoded, and the one whose encoding is in the ghost file
	encoded, stored *FileCache
	exists  bool
	atomic  int
	inPlace int
}

var verifSG *verifStoreGhost

type verifStoreEnv struct{}

func verifNewStoreEnv() *verifStoreEnv { verifSG = &verifStoreGhost{}; return &verifStoreEnv{} }
func (*verifStoreEnv) close()         {}
func (*verifStoreEnv) path() string   { return "/ghost/profilecache.pb" }
func (*verifStoreEnv) seedExisting()  { verifSG.exists = true }
func (*verifStoreEnv) exists() bool   { return verifSG.exists }
func (*verifStoreEnv) beforeStore()   { verifSG.atomic, verifSG.inPlace = 0, 0 }
func (*verifStoreEnv) replacedAtomically() bool {
	return verifSG.inPlace == 0 && verifSG.atomic == 1
}

func verifMarshal(m proto.Message) ([]byte, error) {
	if fc, ok := m.(*FileCache); ok {
		verifSG.encoded = fc
	}
	return []byte{8, 1}, nil
}

// verifGhostReadFile returns the content of the ghost cache file.
func verifGhostReadFile(name string) ([]byte, error) {
	if name != "/ghost/profilecache.pb" || !verifSG.exists {
		return nil, os.ErrNotExist
	}
	return []byte{8, 1}, nil
}

// verifUnmarshal decodes the ghost file: the fields of the message stored last.
func verifUnmarshal(b []byte, m proto.Message) error {
	dst, ok := m.(*FileCache)
	if !ok || verifSG.stored == nil {
		return os.ErrInvalid
	}
	dst.Version = verifSG.stored.Version
	dst.SyncTime = verifSG.stored.SyncTime
	dst.Profiles = verifSG.stored.Profiles
	dst.Devices = verifSG.stored.Devices
	return nil
}

func verifAtomicWriteFile(filename string, data []byte, perm os.FileMode, opts ...renameio.Option) error {
	if filename == "/ghost/profilecache.pb" {
		verifSG.atomic++
		verifSG.exists = true
		verifSG.stored = verifSG.encoded
	}
	return nil
}

func verifDirectWriteFile(name string, data []byte, perm fs.FileMode) error {
	if name == "/ghost/profilecache.pb" {
		verifSG.inPlace++
		verifSG.exists = true
	}
	return nil
}

func verifDirectOpenFile(name string, flag int, perm fs.FileMode) (*os.File, error) {
	if name == "/ghost/profilecache.pb" && flag&(os.O_WRONLY|os.O_RDWR) != 0 {
		verifSG.inPlace++
	}
	return nil, os.ErrPermission
}

func verifDirectCreate(name string) (*os.File, error) {
	if name == "/ghost/profilecache.pb" {
		verifSG.inPlace++
	}
	return nil, os.ErrPermission
}
