package filecachepb

//verif:pkg internal/profiledb/internal/filecachepb

import (
	"context"
	"time"

	"github.com/AdguardTeam/AdGuardDNS/internal/agd"
	"github.com/AdguardTeam/AdGuardDNS/internal/profiledb/internal"
	"github.com/AdguardTeam/golibs/logutil/slogutil"
)

// VerifC14Store: storing the profile cache never modifies the existing cache file in
// place: the file under the cache path is only ever replaced atomically by a
// completely written new file, so that a kill at any point leaves the old or the new
// complete cache.
//
//verif:harness name=H14e-store tier=quick,thorough bounds="cache file absent or present; one or two consecutive Store calls of caches with 0..1 profiles" reach=done,replaced-existing
//verif:assume symbolic build: proto.Marshal, renameio.WriteFile and the os write calls are stubs over a ghost file in which only renameio.WriteFile replaces the destination (rename(2) atomicity is the kernel's); native replay uses a real directory and detects in-place rewriting by inode identity
func VerifC14Store() {
	env := verifNewStoreEnv()
	defer env.close()
	if verifChoice(2) == 1 {
		env.seedExisting()
	}
	s := New(slogutil.NewDiscardLogger(), env.path(), 1000)
	n := 1 + verifChoice(2)
	for k := 0; k < n; k++ {
		c := &internal.FileCache{SyncTime: time.Unix(1_700_000_000+int64(k), 0), Version: internal.FileCacheVersion}
		if verifChoice(2) == 1 {
			c.Profiles = []*agd.Profile{}
		}
		existed := env.exists()
		env.beforeStore()
		err := s.Store(context.Background(), c)
		verifAssert("store-succeeds", err == nil)
		verifAssert("cache-file-present-after-store", env.exists())
		verifAssert("existing-cache-never-rewritten-in-place", env.replacedAtomically())
		if existed {
			verifReach("replaced-existing")
		}
	}
	verifReach("done")
}
