package filecachepb

//verif:pkg internal/profiledb/internal/filecachepb

import (
	"context"
	"errors"
	"time"

	"github.com/AdguardTeam/AdGuardDNS/internal/access"
	"github.com/AdguardTeam/AdGuardDNS/internal/agd"
	"github.com/AdguardTeam/AdGuardDNS/internal/agdpasswd"
	"github.com/AdguardTeam/AdGuardDNS/internal/dnsmsg"
	"github.com/AdguardTeam/AdGuardDNS/internal/filter"
	"github.com/AdguardTeam/AdGuardDNS/internal/profiledb/internal"
	"github.com/AdguardTeam/golibs/logutil/slogutil"
)

// VerifC14Store: storing the profile cache never modifies the existing cache file in
// place: the file under the cache path is only ever replaced atomically by a
// completely written new file, so that a kill at any point leaves the old or the new
// complete cache.
//
//verif:harness name=H14e-store tier=quick,thorough bounds="cache file absent or present; one or two consecutive Store calls of caches with 0..1 profiles" reach=done,replaced-existing
//verif:assume symbolic build: proto.Marshal, renameio.WriteFile and the os write calls are stubs over a ghost file in which only renameio.WriteFile replaces the destination (rename(2) atomicity is the kernel's); native replay uses a real directory and detects in-place rewriting by inode identity
func VerifC14Store() {
	env := verifNewStoreEnv()
	defer env.close()
	if verifChoice(2) == 1 {
		env.seedExisting()
	}
	s := New(slogutil.NewDiscardLogger(), env.path(), 1000)
	n := 1 + verifChoice(2)
	for k := 0; k < n; k++ {
		c := &internal.FileCache{SyncTime: time.Unix(1_700_000_000+int64(k), 0), Version: internal.FileCacheVersion}
		if verifChoice(2) == 1 {
			c.Profiles = []*agd.Profile{}
		}
		existed := env.exists()
		env.beforeStore()
		err := s.Store(context.Background(), c)
		verifAssert("store-succeeds", err == nil)
		verifAssert("cache-file-present-after-store", env.exists())
		verifAssert("existing-cache-never-rewritten-in-place", env.replacedAtomically())
		if existed {
			verifReach("replaced-existing")
		}
	}
	verifReach("done")
}

// VerifC14LoadVersion: a restart restores the profiles from the cache file exactly
// when the file was written with this build's cache version; a file of any other
// version, older or newer, is reported as unsuitable and nothing of it is used.
//
//verif:harness name=H14f-load-version tier=quick,thorough bounds="cache with 0..1 profiles and a symbolic 32-bit version stored and loaded again by a new Storage" reach=done,restored,rejected-older,rejected-newer
//verif:assume symbolic build: protobuf wire encoding and the file are ghosts (Unmarshal yields the fields of the message stored last); native replay uses the real encoding and a real file
func VerifC14LoadVersion() {
	env := verifNewStoreEnv()
	defer env.close()
	v := int32(nondetU32())
	c := &internal.FileCache{SyncTime: time.Unix(1_700_000_000, 0), Version: v}
	withProfile := verifChoice(2) == 1
	if withProfile {
		c.Profiles = []*agd.Profile{verifPlainProfile()}
		c.Devices = []*agd.Device{{ID: "dev12345", Auth: &agd.AuthSettings{Enabled: false, PasswordHash: agdpasswd.AllowAuthenticator{}}}}
	}
	err := New(slogutil.NewDiscardLogger(), env.path(), 1000).Store(context.Background(), c)
	verifAssert("store-succeeds", err == nil)

	got, err := New(slogutil.NewDiscardLogger(), env.path(), 1000).Load(context.Background())
	if v == internal.FileCacheVersion {
		verifAssert("cache-of-this-version-is-restored", err == nil && got != nil && got.Version == v && len(got.Profiles) == len(c.Profiles) && len(got.Devices) == len(c.Devices))
		if err == nil && got != nil && withProfile && len(got.Profiles) == 1 {
			verifAssert("restored-profile-is-the-stored-one", got.Profiles[0].ID == "prof1234" && len(got.Profiles[0].DeviceIDs) == 1 && got.Profiles[0].DeviceIDs[0] == "dev12345")
		}
		verifReach("restored")
	} else {
		verifAssert("cache-of-another-version-is-rejected", got == nil && errors.Is(err, internal.CacheVersionError))
		if v < internal.FileCacheVersion {
			verifReach("rejected-older")
		} else {
			verifReach("rejected-newer")
		}
	}
	verifReach("done")
}

// verifPlainProfile is a complete profile with concrete settings.
func verifPlainProfile() *agd.Profile {
	return &agd.Profile{
		FilterConfig: &filter.ConfigClient{
			Custom:       &filter.ConfigCustom{ID: "prof1234", UpdateTime: time.Unix(1700000000, 0)},
			Parental:     &filter.ConfigParental{},
			RuleList:     &filter.ConfigRuleList{},
			SafeBrowsing: &filter.ConfigSafeBrowsing{},
		},
		Access:              access.EmptyProfile{},
		BlockingMode:        &dnsmsg.BlockingModeNullIP{},
		Ratelimiter:         agd.GlobalRatelimiter{},
		ID:                  "prof1234",
		DeviceIDs:           []agd.DeviceID{"dev12345"},
		FilteredResponseTTL: 10 * time.Second,
	}
}
