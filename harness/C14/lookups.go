package profiledb

//verif:pkg internal/profiledb

import (
	"context"
	"net/netip"

	"github.com/AdguardTeam/AdGuardDNS/internal/agd"
	"github.com/AdguardTeam/golibs/logutil/slogutil"
)

type verifErrColl14 struct{}

func (verifErrColl14) Collect(context.Context, error) {}

type verifStorage14 struct{}

func (verifStorage14) CreateAutoDevice(context.Context, *StorageCreateAutoDeviceRequest) (*StorageCreateAutoDeviceResponse, error) {
	return nil, ErrDeviceNotFound
}
func (verifStorage14) Profiles(context.Context, *StorageProfilesRequest) (*StorageProfilesResponse, error) {
	return &StorageProfilesResponse{}, nil
}

func verifNewDB() *Default {
	db, err := New(&Config{
		Logger:        slogutil.NewDiscardLogger(),
		Storage:       verifStorage14{},
		ErrColl:       verifErrColl14{},
		Metrics:       EmptyMetrics{},
		CacheFilePath: "none",
	})
	verifAssume(err == nil)
	return db
}

var (
	verifDevIDs = [2]agd.DeviceID{"dev00000", "dev00001"}
	verifKeys   = [2]netip.Addr{netip.MustParseAddr("192.0.2.10"), netip.MustParseAddr("192.0.2.11")}
	verifHuman  = [2]agd.HumanIDLower{"phone-a", "phone-b"}
)

// verifBackend is the ghost backend state: which device owns which key.
type verifBackend struct {
	kind  int    // 0 linked IP, 1 dedicated IP, 2 human ID
	owner [2]int // key -> device index or -1
}

func (b *verifBackend) device(d int) *agd.Device {
	dev := &agd.Device{ID: verifDevIDs[d], Auth: &agd.AuthSettings{}}
	for k, o := range b.owner {
		if o != d {
			continue
		}
		switch b.kind {
		case 0:
			dev.LinkedIP = verifKeys[k]
		case 1:
			dev.DedicatedIPs = append(dev.DedicatedIPs, verifKeys[k])
		case 2:
			dev.HumanIDLower = verifHuman[k]
		}
	}
	return dev
}

func (b *verifBackend) lookup(db *Default, k int) (*agd.Device, error) {
	ctx := context.Background()
	var d *agd.Device
	var err error
	switch b.kind {
	case 0:
		_, d, err = db.ProfileByLinkedIP(ctx, verifKeys[k])
	case 1:
		_, d, err = db.ProfileByDedicatedIP(ctx, verifKeys[k])
	default:
		_, d, err = db.ProfileByHumanID(ctx, "prof0000", verifHuman[k])
	}
	return d, err
}

// VerifC14Lookups: after any sequence of synchronisations, lookups and background
// clean-ups (in either order relative to the next synchronisation) a lookup by key
// returns exactly the device that currently owns the key in the backend.
//
//verif:harness name=H14a-lookups tier=quick bounds="one profile with 2 devices, 2 keys of one kind (linked IP, dedicated IP or human ID); initially device 0 owns key 0; 5 steps from {partial sync changing the owner of a key (both affected devices in the response), lookup of a key, run pending clean-up goroutines}" reach=done,found,not-found,cleanup-pending maxpaths=1500000 switches=0
//verif:assume backend consistency: a key has at most one owner, linked IP and human ID are single-valued per device, a response that moves a key contains both devices; clean-up goroutines run only when the harness lets them (all orders relative to syncs and lookups are explored)
func VerifC14Lookups() { verifC14Lookups(5, false) }

// VerifC14Lookups7 is the thorough variant.
//
//verif:harness name=H14a-lookups7 tier=thorough bounds="as H14a-lookups from an empty database with 6 steps incl. full syncs" reach=done,found,not-found,cleanup-pending maxpaths=20000000 switches=0
func VerifC14Lookups7() { verifC14Lookups(6, true) }

func verifC14Lookups(steps int, full bool) {
	db := verifNewDB()
	b := &verifBackend{kind: verifChoice(3), owner: [2]int{-1, -1}}
	nops := 4
	if !full {
		b.owner[0] = 0
		nops = 3
	}
	ctx := context.Background()
	prof := &agd.Profile{ID: "prof0000", DeviceIDs: verifDevIDs[:]}
	db.setProfiles(ctx, []*agd.Profile{prof}, []*agd.Device{b.device(0), b.device(1)}, true)

	for s := 0; s < steps; s++ {
		op := verifChoice(nops)
		if op == 3 {
			op = 4
		} else if !full && op >= 1 {
			op++
		}
		switch op {
		case 0: // partial sync: key k gets owner o (or none)
			k := verifChoice(2)
			o := verifChoice(3) - 1
			if b.kind != 1 && o >= 0 {
				// single-valued attribute: the new owner gives up its other key
				b.owner[1-k] = verifIf(b.owner[1-k] == o, -1, b.owner[1-k])
			}
			b.owner[k] = o
			db.setProfiles(ctx, []*agd.Profile{prof}, []*agd.Device{b.device(0), b.device(1)}, false)
		case 1: // full sync (thorough tier only)
			db.setProfiles(ctx, []*agd.Profile{prof}, []*agd.Device{b.device(0), b.device(1)}, true)
		case 2: // lookup
			k := verifChoice(2)
			d, err := b.lookup(db, k)
			if b.owner[k] < 0 {
				verifAssert("unowned-key-is-not-found", d == nil && err != nil)
				verifReach("not-found")
			} else {
				verifAssert("lookup-returns-the-current-owner", err == nil && d != nil && d.ID == verifDevIDs[b.owner[k]])
				verifReach("found")
			}
		case 3, 4: // let the background clean-ups run
			if verifRunAll() >= 0 {
				verifReach("cleanup-pending")
			}
		}
	}
	verifReach("done")
}

func verifIf(c bool, a, b int) int {
	if c {
		return a
	}
	return b
}
