package ecscache

//verif:pkg internal/ecscache

import (
	"context"
	"net/netip"

	"github.com/AdguardTeam/AdGuardDNS/internal/agd"
	"github.com/AdguardTeam/AdGuardDNS/internal/dnsmsg"
	"github.com/AdguardTeam/AdGuardDNS/internal/geoip"
	"github.com/AdguardTeam/golibs/netutil"
	"github.com/miekg/dns"
)

// verifGeoTable is a GeoIP stub that assigns every (country, family) its own subnet and
// records what it was asked.
type verifGeoTable struct {
	asked    int
	country  geoip.Country
	asn      geoip.ASN
	fam      netutil.AddrFamily
	returned netip.Prefix
}

var verifGeoSubnets = map[geoip.Country][2]netip.Prefix{
	"NL": {netip.MustParsePrefix("198.51.100.0/24"), netip.MustParsePrefix("2001:db8:1::/48")},
	"DE": {netip.MustParsePrefix("203.0.113.0/24"), netip.MustParsePrefix("2001:db8:2::/48")},
	"":   {netip.MustParsePrefix("192.0.2.0/24"), netip.MustParsePrefix("2001:db8:3::/48")},
}

func (g *verifGeoTable) SubnetByLocation(l *geoip.Location, fam netutil.AddrFamily) (netip.Prefix, error) {
	g.asked++
	g.country, g.asn, g.fam = l.Country, l.ASN, fam
	k := 0
	if fam == netutil.AddrFamilyIPv6 {
		k = 1
	}
	g.returned = verifGeoSubnets[l.Country][k]
	return g.returned, nil
}
func (*verifGeoTable) Data(string, netip.Addr) (*geoip.Location, error) { return nil, nil }

// VerifC05Location: the subnet sent upstream is the one the GeoIP database assigns to
// the country / ASN of the client's ECS option when that option has a known location,
// otherwise of the client's own address, in the family of the ECS option (or of the
// client address when there is none).
//
//verif:harness name=H05e-location tier=quick,thorough bounds="client IPv4 or IPv6 with location NL/AS64500, unknown or absent; ECS option absent, or IPv4 / IPv6 with location DE/AS64511, with a country but no ASN, with an unknown location, or without one; GeoIP stub with one subnet per (country, family)" reach=by-ecs-location,by-client-location,no-location maxpaths=20000
//verif:assume GeoIP database content is a stub table
func VerifC05Location() {
	noECS, ecs := &verifCache{}, &verifCache{}
	mw := verifMW(noECS, ecs)
	geo := &verifGeoTable{}
	mw.geoIP = geo
	verifSetClock(1 << 40)

	client6 := verifChoice(2) == 1
	remote := netip.MustParseAddr("198.51.100.77")
	if client6 {
		remote = netip.MustParseAddr("2001:db8:1::77")
	}
	var cliLoc *geoip.Location
	switch verifChoice(3) {
	case 1:
		cliLoc = &geoip.Location{Country: "NL", ASN: 64500}
	case 2:
		cliLoc = &geoip.Location{} // known address, unknown country
	}
	var opt *dnsmsg.ECS
	ecsKind := verifChoice(5) // 0 none, 1 located, 2 unknown location, 3 no location, 4 country without ASN
	ecs6 := false
	if ecsKind != 0 {
		ecs6 = verifChoice(2) == 1
		sub := netip.MustParsePrefix("203.0.113.0/24")
		if ecs6 {
			sub = netip.MustParsePrefix("2001:db8:2::/48")
		}
		opt = &dnsmsg.ECS{Subnet: sub}
		switch ecsKind {
		case 1:
			opt.Location = &geoip.Location{Country: "DE", ASN: 64511}
		case 2:
			opt.Location = &geoip.Location{}
		case 4:
			opt.Location = &geoip.Location{Country: "DE"}
		}
	}
	req := &dns.Msg{}
	req.SetQuestion("example.org.", dns.TypeA)
	if opt != nil {
		req.SetEdns0(1232, false)
	}
	ri := &agd.RequestInfo{RemoteIP: remote, Location: cliLoc, ECS: opt, Host: "example.org", QType: dns.TypeA, QClass: dns.ClassINET, Proto: agd.ProtoDNS}
	next := &verifNext5{scope: 24}
	rw := &verifRW5{}
	err := mw.Wrap(next).ServeDNS(agd.ContextWithRequestInfo(context.Background(), ri), rw, req)
	verifAssert("served", err == nil && rw.writes == 1 && next.calls == 1)
	verifAssert("geoip-asked", geo.asked >= 1)

	// reference
	wantCtry, wantASN := geoip.Country(""), geoip.ASN(0)
	switch {
	case ecsKind == 1:
		wantCtry, wantASN = "DE", 64511
		verifReach("by-ecs-location")
	case ecsKind == 4:
		// the option's country is known, its system is not: the client's own system
		// must not be put in its place
		wantCtry, wantASN = "DE", 0
		verifReach("by-ecs-location")
	case cliLoc != nil && cliLoc.Country != "":
		wantCtry, wantASN = "NL", 64500
		verifReach("by-client-location")
	default:
		verifReach("no-location")
	}
	want6 := client6
	if ecsKind != 0 {
		want6 = ecs6
	}
	wantFam := netutil.AddrFamilyIPv4
	if want6 {
		wantFam = netutil.AddrFamilyIPv6
	}
	verifAssert("geoip-asked-for-the-right-location", geo.country == wantCtry && geo.asn == wantASN)
	verifAssert("geoip-asked-for-the-right-family", geo.fam == wantFam)
	subs := verifSubnetOpts(next.req)
	verifAssert("upstream-gets-exactly-the-geoip-subnet", len(subs) == 1 && int(subs[0].SourceNetmask) == geo.returned.Bits() && subs[0].Address.Equal(geo.returned.Addr().AsSlice()) && subs[0].SourceScope == 0)
}
