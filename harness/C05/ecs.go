package ecscache

//verif:pkg internal/ecscache

import (
	"context"
	"net"
	"net/netip"

	"github.com/AdguardTeam/AdGuardDNS/internal/agd"
	"github.com/AdguardTeam/AdGuardDNS/internal/dnsmsg"
	"github.com/AdguardTeam/AdGuardDNS/internal/dnsserver"
	"github.com/AdguardTeam/AdGuardDNS/internal/geoip"
	"github.com/AdguardTeam/golibs/netutil"
	"github.com/miekg/dns"
)

type verifGeo5 struct{ subnet netip.Prefix }

func (g verifGeo5) SubnetByLocation(_ *geoip.Location, fam netutil.AddrFamily) (netip.Prefix, error) {
	return g.subnet, nil
}
func (verifGeo5) Data(string, netip.Addr) (*geoip.Location, error) { return nil, nil }

type verifNext5 struct {
	calls int
	req   *dns.Msg
	scope uint8
}

func (n *verifNext5) ServeDNS(ctx context.Context, rw dnsserver.ResponseWriter, req *dns.Msg) error {
	n.calls++
	n.req = req.Copy()
	resp := (&dns.Msg{}).SetReply(req)
	resp.Answer = []dns.RR{&dns.A{Hdr: dns.RR_Header{Name: req.Question[0].Name, Rrtype: dns.TypeA, Class: dns.ClassINET, Ttl: 60}, A: net.IP{192, 0, 2, 55}}}
	// the upstream echoes the subnet it was given, with its own scope
	if o := req.IsEdns0(); o != nil {
		resp.SetEdns0(1232, false)
		ro := resp.IsEdns0()
		for _, e := range o.Option {
			if s, ok := e.(*dns.EDNS0_SUBNET); ok {
				ro.Option = append(ro.Option, &dns.EDNS0_SUBNET{Code: dns.EDNS0SUBNET, Family: s.Family, SourceNetmask: s.SourceNetmask, SourceScope: n.scope, Address: s.Address})
			}
		}
	}
	return rw.WriteMsg(ctx, req, resp)
}

type verifRW5 struct {
	writes int
	resp   *dns.Msg
}

func (w *verifRW5) LocalAddr() net.Addr  { return &net.UDPAddr{IP: net.IP{192, 0, 2, 1}, Port: 53} }
func (w *verifRW5) RemoteAddr() net.Addr { return &net.UDPAddr{IP: net.IP{198, 51, 100, 7}, Port: 4321} }
func (w *verifRW5) WriteMsg(_ context.Context, _, resp *dns.Msg) error {
	w.writes++
	w.resp = resp
	return nil
}

// verifClientECS builds a valid IPv4 ECS option with symbolic address and length.
func verifClientECS() (*dns.EDNS0_SUBNET, netip.Prefix) {
	var b [4]byte
	for i := range b {
		b[i] = nondetU8()
	}
	bits := nondetU8()
	verifAssume(bits <= 32)
	p := netip.PrefixFrom(netip.AddrFrom4(b), int(bits))
	verifAssume(p.Masked() == p) // a valid option has no bits beyond the prefix
	return &dns.EDNS0_SUBNET{Code: dns.EDNS0SUBNET, Family: 1, SourceNetmask: bits, Address: net.IP{b[0], b[1], b[2], b[3]}}, p
}

func verifSubnetOpts(m *dns.Msg) (out []*dns.EDNS0_SUBNET) {
	if o := m.IsEdns0(); o != nil {
		for _, e := range o.Option {
			if s, ok := e.(*dns.EDNS0_SUBNET); ok {
				out = append(out, s)
			}
		}
	}
	return out
}

// VerifC05Upstream: the subnet sent upstream is the GeoIP subnet of the client's
// location (or the zero prefix when the client opted out), never the client's address
// or a subnet the client supplied; the response echoes the client's own prefix.
//
//verif:harness name=H05b-upstream tier=quick,thorough bounds="IPv4 client with symbolic address; request OPT absent or with 0..2 client ECS options (symbolic address and source length, valid encoding) and an optional cookie option; GeoIP subnet symbolic /24; upstream scope symbolic; empty caches" reach=forwarded,declined,no-ecs,two-options maxpaths=200000
//verif:assume the GeoIP database is a stub returning an arbitrary IPv4 /24 (table content outside the claim); FakeECSFQDNs does not contain the name
func VerifC05Upstream() {
	var gb [4]byte
	for i := 0; i < 3; i++ {
		gb[i] = nondetU8()
	}
	geoSubnet := netip.PrefixFrom(netip.AddrFrom4(gb), 24)
	mw := verifMW(&verifCache{}, &verifCache{})
	mw.geoIP = verifGeo5{subnet: geoSubnet}
	next := &verifNext5{scope: nondetU8()}
	rw := &verifRW5{}

	var cb [4]byte
	for i := range cb {
		cb[i] = nondetU8()
	}
	clientIP := netip.AddrFrom4(cb)
	req := &dns.Msg{}
	req.SetQuestion("example.org.", dns.TypeA)
	req.Id = nondetU16()
	var supplied []netip.Prefix
	nECS := 0
	if verifChoice(2) == 1 {
		req.SetEdns0(1232, false)
		o := req.IsEdns0()
		if verifChoice(2) == 1 {
			o.Option = append(o.Option, &dns.EDNS0_COOKIE{Code: dns.EDNS0COOKIE, Cookie: "0102030405060708"})
		}
		nECS = verifChoice(3)
		for i := 0; i < nECS; i++ {
			e, p := verifClientECS()
			o.Option = append(o.Option, e)
			supplied = append(supplied, p)
		}
	}
	if nECS == 2 {
		verifReach("two-options")
	}
	subnet, scope, err := dnsmsg.ECSFromMsg(req)
	verifAssume(err == nil)
	ri := &agd.RequestInfo{RemoteIP: clientIP, Host: "example.org", QType: dns.TypeA, QClass: dns.ClassINET, Proto: agd.ProtoDNS}
	if subnet != (netip.Prefix{}) {
		ri.ECS = &dnsmsg.ECS{Subnet: subnet, Scope: scope}
	}
	ctx := agd.ContextWithRequestInfo(context.Background(), ri)
	serveErr := mw.Wrap(next).ServeDNS(ctx, rw, req)
	verifAssert("served", serveErr == nil && next.calls == 1 && rw.writes == 1)

	declined := ri.ECS != nil && ri.ECS.Subnet.Bits() == 0
	fwd := verifSubnetOpts(next.req)
	verifAssert("exactly-one-subnet-option-upstream", len(fwd) == 1)
	want := geoSubnet
	if declined {
		want = netip.PrefixFrom(netip.IPv4Unspecified(), 0)
		verifReach("declined")
	}
	for _, s := range fwd {
		a, ok := netip.AddrFromSlice(s.Address.To4())
		verifAssert("upstream-subnet-is-well-formed", ok && s.Family == 1)
		got := netip.PrefixFrom(a, int(s.SourceNetmask))
		verifAssert("upstream-subnet-is-the-geoip-subnet-or-zero", got == want)
		verifAssert("upstream-scope-zero", s.SourceScope == 0)
		verifAssert("client-address-never-sent-upstream", a != clientIP || want.Addr() == clientIP)
		for _, p := range supplied {
			verifAssert("client-supplied-subnet-never-sent-upstream", got != p || p == want)
		}
	}
	verifReach("forwarded")

	// the response echoes the client's own prefix iff the query carried a valid option
	respOpts := verifSubnetOpts(rw.resp)
	if ri.ECS == nil {
		verifAssert("no-ecs-in-response-without-ecs-in-query", len(respOpts) == 0)
		verifReach("no-ecs")
	} else {
		verifAssert("one-ecs-in-response", len(respOpts) == 1)
		if len(respOpts) == 1 {
			s := respOpts[0]
			a, _ := netip.AddrFromSlice(s.Address.To4())
			verifAssert("response-echoes-client-prefix", netip.PrefixFrom(a, int(s.SourceNetmask)) == ri.ECS.Subnet)
			verifAssert("response-scope-equals-source-length", s.SourceScope == s.SourceNetmask)
		}
	}
	verifAssert("response-id-and-question", rw.resp.Id == req.Id && rw.resp.Question[0] == req.Question[0])
}
