package geoip

//verif:pkg internal/geoip
//verif:stub (*github.com/AdguardTeam/AdGuardDNS/internal/geoip.File).lookupASN verifLookupASN
//verif:stub (*github.com/AdguardTeam/AdGuardDNS/internal/geoip.File).setCtry verifSetCtry

import (
	"net/netip"

	"github.com/AdguardTeam/AdGuardDNS/internal/agdcache"
	"github.com/AdguardTeam/golibs/container"
	"github.com/AdguardTeam/golibs/logutil/slogutil"
)

func verifNewGeoFile() *File {
	return NewFile(&FileConfig{
		Logger:         slogutil.NewDiscardLogger(),
		CacheManager:   agdcache.EmptyManager{},
		ASNPath:        "/ghost/asn.mmdb",
		CountryPath:    "/ghost/country.mmdb",
		HostCacheCount: 0,
		IPCacheCount:   100,
		AllTopASNs:     container.NewMapSet[ASN](),
		CountryTopASNs: map[Country]ASN{},
	})
}

// the ghost database: located by the leading byte of the address it is asked about;
// as the real readers (SkipAliasedNetworks) it knows nothing about IPv4-mapped forms
func verifLookupASN(f *File, ip netip.Addr) (ASN, error) {
	if ip.Is4In6() {
		return 0, nil
	}
	b := ip.As16()
	if ip.Is4() {
		return ASN(1000 + uint32(ip.As4()[0])), nil
	}
	return ASN(2000 + uint32(b[1])), nil
}

func verifSetCtry(f *File, loc *Location, ip netip.Addr) error {
	if ip.Is4In6() {
		return nil
	}
	switch {
	case ip.Is4() && ip.As4()[0] == 2:
		loc.Country, loc.Continent = CountryGB, ContinentEU
	case ip.Is4():
		loc.Country, loc.Continent, loc.TopSubdivision = CountryUS, ContinentNA, "WA"
	case ip.As16()[1] == 0x01:
		loc.Country, loc.Continent = CountryJP, ContinentAS
	default:
		loc.Country, loc.Continent = CountryRU, ContinentEU
	}
	return nil
}
