package dnsmsg

//verif:pkg internal/dnsmsg

import (
	"net"
	"net/netip"

	"github.com/miekg/dns"
)

// VerifC05Option: a client-subnet option is accepted exactly when its family is IPv4
// or IPv6, its source length fits the family and no address bit lies beyond it.
//
//verif:harness name=H05a-option tier=quick,thorough bounds="family full 16-bit, source length and scope full 8-bit, address bytes symbolic with the length the DNS library produces for the family (4 / 16 bytes)" reach=accepted,rejected
func VerifC05Option() {
	fam := nondetU16()
	mask, scope := nondetU8(), nondetU8()
	n := 4
	if fam == 2 {
		n = 16
	}
	addr := make(net.IP, n)
	for i := range addr {
		addr[i] = nondetU8()
	}
	esn := &dns.EDNS0_SUBNET{Code: dns.EDNS0SUBNET, Family: fam, SourceNetmask: mask, SourceScope: scope, Address: addr}
	subnet, gotScope, err := ecsData(esn)

	// reference
	valid := fam == 1 || fam == 2
	if valid {
		maxLen := 32
		if fam == 2 {
			maxLen = 128
		}
		valid = int(mask) <= maxLen
		if valid {
			// no bit set beyond the source length
			for i := 0; i < n; i++ {
				for b := 0; b < 8; b++ {
					if i*8+b >= int(mask) {
						valid = verifAnd(valid, addr[i]&(0x80>>uint(b)) == 0)
					}
				}
			}
		}
	}
	verifAssert("accepted-iff-well-formed", (err == nil) == valid)
	if err == nil {
		a, _ := netip.AddrFromSlice(addr)
		verifAssert("accepted-option-yields-its-own-prefix", subnet == netip.PrefixFrom(a, int(mask)) && gotScope == scope)
		verifReach("accepted")
	} else {
		verifAssert("rejected-option-yields-nothing", subnet == netip.Prefix{})
		verifReach("rejected")
	}
}
