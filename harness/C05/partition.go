package ecscache

//verif:pkg internal/ecscache

import (
	"context"
	"net/netip"

	"github.com/AdguardTeam/AdGuardDNS/internal/agd"
	"github.com/AdguardTeam/AdGuardDNS/internal/dnsmsg"
	"github.com/miekg/dns"
)

// verifGeoSubnet returns an arbitrary masked IPv4 subnet of the given length.
func verifGeoSubnet(bits int) netip.Prefix {
	var gb [4]byte
	for i := range gb {
		gb[i] = nondetU8()
	}
	p := netip.PrefixFrom(netip.AddrFrom4(gb), bits)
	verifAssume(p.Masked() == p)
	return p
}

// VerifC05Partition: an answer the upstream scoped to a subnet is reused only for a
// client mapped to the same subnet; a client that opted out with /0 is never served
// from the subnet-specific cache and gets a /0 upstream query.
//
//verif:harness name=H05c-partition tier=quick,thorough bounds="two consecutive IPv4 clients asking the same question, both with or both without the DO bit; GeoIP subnets symbolic with a length from {0 (no subnet known), 12, 20, 24}; upstream scope of the first answer symbolic; second client plain, with an own ECS option, or opted out with /0; one-slot caches honouring the agdcache contract" reach=hit,miss,declined,scope-zero maxpaths=100000
//verif:assume maphash without collisions between different streams (hosts compared separately); no expiry between the two requests; GeoIP stub
func VerifC05Partition() {
	verifPoolMode(1) // released pooled objects (cache requests, cloned messages) are handed back
	noECS, ecs := &verifCache{}, &verifCache{}
	mw := verifMW(noECS, ecs)
	verifSetClock(1 << 40)
	bits := []int{0, 12, 20, 24}[verifChoice(4)] // 0: GeoIP knows no subnet for the location
	s1, s2 := verifGeoSubnet(bits), verifGeoSubnet(bits)
	scope := nondetU8()
	// clients may set the DNSSEC OK bit (it is part of the cache key, so both ask alike)
	do := verifChoice(2) == 1

	ask := func(geo netip.Prefix, ecsOpt *dnsmsg.ECS, withOpt bool) (*verifNext5, *verifRW5) {
		mw.geoIP = verifGeo5{subnet: geo}
		next := &verifNext5{scope: scope}
		rw := &verifRW5{}
		req := &dns.Msg{}
		req.SetQuestion("example.org.", dns.TypeA)
		if withOpt {
			req.SetEdns0(1232, do)
		}
		ri := &agd.RequestInfo{RemoteIP: netip.MustParseAddr("198.51.100.7"), Host: "example.org", QType: dns.TypeA, QClass: dns.ClassINET, Proto: agd.ProtoDNS, ECS: ecsOpt}
		ctx := agd.ContextWithRequestInfo(context.Background(), ri)
		err := mw.Wrap(next).ServeDNS(ctx, rw, req)
		verifAssert("served", err == nil && rw.writes == 1)
		return next, rw
	}

	// the client that fills the cache may have sent its own subnet option
	var firstECS *dnsmsg.ECS
	if verifChoice(2) == 1 {
		firstECS = &dnsmsg.ECS{Subnet: netip.MustParsePrefix("192.0.2.0/24"), Scope: 0}
	}
	n1, rw1 := ask(s1, firstECS, firstECS != nil || do)
	verifAssert("first-request-goes-upstream", n1.calls == 1)
	verifEcho(rw1.resp, firstECS)
	dependent := scope != 0
	if dependent {
		verifAssert("scoped-answer-stored-in-subnet-cache-only", ecs.sets == 1 && noECS.sets == 0)
	} else {
		verifAssert("unscoped-answer-stored-in-plain-cache-only", ecs.sets == 0 && noECS.sets == 1)
		verifReach("scope-zero")
	}

	switch verifChoice(3) {
	case 0: // a second plain client
		n2, rw2 := ask(s2, nil, do)
		if dependent {
			verifAssert("scoped-answer-reused-only-for-the-same-subnet", (n2.calls == 0) == (s2 == s1))
		} else {
			verifAssert("unscoped-answer-reused-for-everyone", n2.calls == 0)
		}
		verifEcho(rw2.resp, nil)
		if n2.calls == 0 {
			verifReach("hit")
		} else {
			verifReach("miss")
		}
	case 1: // a client with its own ECS option: still mapped through GeoIP
		own := &dnsmsg.ECS{Subnet: netip.MustParsePrefix("203.0.113.0/24"), Scope: 0}
		n2, rw2 := ask(s2, own, true)
		if dependent {
			verifAssert("scoped-answer-reused-only-for-the-same-subnet", (n2.calls == 0) == (s2 == s1))
		}
		verifEcho(rw2.resp, own)
	case 2: // a client that opted out
		declined := &dnsmsg.ECS{Subnet: netip.PrefixFrom(netip.IPv4Unspecified(), 0), Scope: 0}
		n2, rw2 := ask(s2, declined, true)
		verifEcho(rw2.resp, declined)
		if dependent {
			verifAssert("opted-out-client-never-served-from-subnet-cache", n2.calls == 1)
			subs := verifSubnetOpts(n2.req)
			verifAssert("opted-out-client-gets-zero-prefix-upstream", len(subs) == 1 && subs[0].SourceNetmask == 0 && subs[0].Address.Equal(netip.IPv4Unspecified().AsSlice()))
		}
		verifReach("declined")
	}
}

// verifEcho: a response carries a client-subnet option exactly when its own query did,
// and then it is the querier's own prefix with the scope set to the source length.
func verifEcho(resp *dns.Msg, sent *dnsmsg.ECS) {
	subs := verifSubnetOpts(resp)
	if sent == nil {
		verifAssert("no-subnet-option-in-the-response-to-a-query-without-one", len(subs) == 0)
		return
	}
	verifAssert("own-subnet-echoed-once", len(subs) == 1)
	if len(subs) == 1 {
		bits := sent.Subnet.Bits()
		verifAssert("echo-is-the-querier's-own-prefix", int(subs[0].SourceNetmask) == bits && int(subs[0].SourceScope) == bits && subs[0].Address.Equal(sent.Subnet.Addr().AsSlice()))
	}
}
