package geoip

//verif:pkg internal/geoip

import (
	"context"

	"github.com/AdguardTeam/AdGuardDNS/internal/agdcache"
	"github.com/AdguardTeam/golibs/container"
	"github.com/AdguardTeam/golibs/logutil/slogutil"
)

func verifNewGeoFile() *File {
	f := NewFile(&FileConfig{
		Logger:         slogutil.NewDiscardLogger(),
		CacheManager:   agdcache.EmptyManager{},
		ASNPath:        "./testdata/GeoIP2-ISP-Test.mmdb",
		CountryPath:    "./testdata/GeoIP2-Country-Test.mmdb",
		HostCacheCount: 0,
		IPCacheCount:   100,
		AllTopASNs:     container.NewMapSet[ASN](1221, 2516, 7922),
		CountryTopASNs: map[Country]ASN{CountryAU: 1221, CountryJP: 2516, CountryUS: 7922},
	})
	if err := f.Refresh(context.Background()); err != nil {
		panic(err)
	}
	return f
}
