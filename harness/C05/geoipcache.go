package geoip

//verif:pkg internal/geoip

import (
	"net/netip"
)

// VerifC05GeoIPCache: the location GeoIP reports for an address (of a client or of an
// ECS option) does not depend on which addresses were looked up before it: a File
// with a warm address cache answers like a fresh one, and an IPv4-mapped IPv6 address
// (as ECS options of the IPv6 family may carry) is located like the IPv4 address.
//
//verif:harness name=H05f-geoip-cache tier=quick,thorough bounds="two consecutive lookups through one File, then the second address through a fresh File; addresses from {IPv4 a, IPv4 b, a and b IPv4-mapped, IPv6 c, IPv6 d} in distinct cache networks" reach=done,mapped-after-mapped maxpaths=20000
//verif:assume symbolic build: the database readers (lookupASN, setCtry) are stubs computing the location from the address they are given; native replay reads the repository's test databases
func VerifC05GeoIPCache() {
	addrs := []netip.Addr{
		netip.MustParseAddr("2.125.160.216"),
		netip.MustParseAddr("216.160.83.56"),
		netip.MustParseAddr("::ffff:2.125.160.216"),
		netip.MustParseAddr("::ffff:216.160.83.56"),
		netip.MustParseAddr("2001:218::"),
		netip.MustParseAddr("2a02:d000::1"),
	}
	i, j := verifChoice(len(addrs)), verifChoice(len(addrs))
	warm, fresh := verifNewGeoFile(), verifNewGeoFile()
	_, err0 := warm.Data("", addrs[i])
	got, err1 := warm.Data("", addrs[j])
	want, err2 := fresh.Data("", addrs[j])
	verifAssert("no-error", err0 == nil && err1 == nil && err2 == nil)
	if err1 != nil || err2 != nil || got == nil || want == nil {
		verifAssert("both-located-or-neither", (got == nil) == (want == nil))
		return
	}
	verifAssert("location-independent-of-earlier-lookups", got.Country == want.Country && got.ASN == want.ASN && got.Continent == want.Continent && got.TopSubdivision == want.TopSubdivision)
	if addrs[j].Is4In6() {
		plain, err3 := verifNewGeoFile().Data("", addrs[j].Unmap())
		verifAssert("mapped-address-located-like-the-ipv4-address", err3 == nil && plain != nil && plain.Country == got.Country && plain.ASN == got.ASN)
		if addrs[i].Is4In6() && i != j {
			verifReach("mapped-after-mapped")
		}
	}
	verifReach("done")
}
