package ratelimitmw

//verif:pkg internal/dnssvc/internal/ratelimitmw

import (
	"context"
	"net"
	"net/netip"
	"time"

	"github.com/AdguardTeam/AdGuardDNS/internal/agd"
	"github.com/AdguardTeam/AdGuardDNS/internal/agdtest"
	"github.com/AdguardTeam/AdGuardDNS/internal/dnsmsg"
	"github.com/AdguardTeam/AdGuardDNS/internal/dnsserver"
	"github.com/AdguardTeam/AdGuardDNS/internal/geoip"
	"github.com/AdguardTeam/golibs/logutil/slogutil"
	"github.com/AdguardTeam/golibs/netutil"
	"github.com/miekg/dns"
)

type verifAccess5 struct{}

func (verifAccess5) IsBlockedHost(string, uint16) bool { return false }
func (verifAccess5) IsBlockedIP(netip.Addr) bool       { return false }

type verifFinder5 struct{}

func (verifFinder5) Find(context.Context, *dns.Msg, netip.AddrPort, netip.AddrPort) agd.DeviceResult {
	return nil
}

type verifGeo5f struct{}

func (verifGeo5f) SubnetByLocation(*geoip.Location, netutil.AddrFamily) (netip.Prefix, error) {
	return netip.Prefix{}, nil
}
func (verifGeo5f) Data(string, netip.Addr) (*geoip.Location, error) {
	return &geoip.Location{Country: "NL"}, nil
}

type verifLimiter5 struct{}

func (verifLimiter5) IsRateLimited(context.Context, *dns.Msg, netip.Addr) (bool, bool, error) {
	return false, false, nil
}
func (verifLimiter5) CountResponses(context.Context, *dns.Msg, netip.Addr) {}

type verifNext5f struct {
	calls int
	ecs   *dnsmsg.ECS
}

func (n *verifNext5f) ServeDNS(ctx context.Context, rw dnsserver.ResponseWriter, req *dns.Msg) error {
	n.calls++
	if ri, ok := agd.RequestInfoFromContext(ctx); ok && ri.ECS != nil {
		c := *ri.ECS
		n.ecs = &c
	}
	return rw.WriteMsg(ctx, req, (&dns.Msg{}).SetReply(req))
}

type verifRW5f struct {
	writes int
	resp   *dns.Msg
}

func (w *verifRW5f) LocalAddr() net.Addr  { return &net.UDPAddr{IP: net.IP{192, 0, 2, 1}, Port: 53} }
func (w *verifRW5f) RemoteAddr() net.Addr { return &net.UDPAddr{IP: net.IP{198, 51, 100, 7}, Port: 4321} }
func (w *verifRW5f) WriteMsg(_ context.Context, _, resp *dns.Msg) error {
	w.writes++
	w.resp = resp
	return nil
}

// VerifC05FormErr: a query whose client-subnet option is malformed is answered with
// FORMERR (own ID and question) and goes no further; one with a well-formed option is
// passed on with exactly that prefix recorded as the client's subnet; one without an
// option is passed on without a subnet.
//
//verif:harness name=H05d-formerr tier=quick,thorough bounds="request OPT absent, or with one client-subnet option: family from {1, 2, 3}, source length full 8-bit, IPv4 address bytes symbolic (IPv6: first and last byte symbolic), scope symbolic; optional cookie option before it" reach=formerr,passed-with-subnet,passed-without maxpaths=100000
//verif:assume device finder, access manager, GeoIP and limiter are pass-through stubs
func VerifC05FormErr() {
	msgs, err := dnsmsg.NewConstructor(&dnsmsg.ConstructorConfig{
		Cloner:              agdtest.NewCloner(),
		BlockingMode:        &dnsmsg.BlockingModeNullIP{},
		StructuredErrors:    agdtest.NewSDEConfig(false),
		FilteredResponseTTL: 10 * time.Second,
	})
	verifAssume(err == nil)
	mw := New(&Config{
		Logger:           slogutil.NewDiscardLogger(),
		Messages:         msgs,
		FilteringGroup:   &agd.FilteringGroup{},
		ServerGroup:      &agd.ServerGroup{},
		Server:           &agd.Server{Name: "s", Protocol: agd.ProtoDNS},
		StructuredErrors: agdtest.NewSDEConfig(false),
		AccessManager:    verifAccess5{},
		DeviceFinder:     verifFinder5{},
		ErrColl:          agdtest.NewErrorCollector(),
		GeoIP:            verifGeo5f{},
		Metrics:          EmptyMetrics{},
		Limiter:          verifLimiter5{},
	})
	req := &dns.Msg{}
	req.SetQuestion("example.org.", dns.TypeA)
	req.Id = nondetU16()

	hasOpt := verifChoice(2) == 1
	valid := true
	var want netip.Prefix
	if hasOpt {
		req.SetEdns0(1232, false)
		o := req.IsEdns0()
		if verifChoice(2) == 1 {
			o.Option = append(o.Option, &dns.EDNS0_COOKIE{Code: dns.EDNS0COOKIE, Cookie: "0011223344556677"})
		}
		fam := []uint16{1, 2, 3}[verifChoice(3)]
		mask, scope := nondetU8(), nondetU8()
		n := 4
		if fam == 2 {
			n = 16
		}
		addr := make(net.IP, n)
		if fam == 2 {
			addr[0], addr[15] = nondetU8(), nondetU8()
		} else {
			for i := range addr {
				addr[i] = nondetU8()
			}
		}
		o.Option = append(o.Option, &dns.EDNS0_SUBNET{Code: dns.EDNS0SUBNET, Family: fam, SourceNetmask: mask, SourceScope: scope, Address: addr})
		valid = fam == 1 || fam == 2
		if valid {
			valid = int(mask) <= n*8
			if valid {
				for i := 0; i < n; i++ {
					for b := 0; b < 8; b++ {
						if i*8+b >= int(mask) {
							valid = verifAnd(valid, addr[i]&(0x80>>uint(b)) == 0)
						}
					}
				}
			}
		}
		if valid {
			a, _ := netip.AddrFromSlice(addr)
			want = netip.PrefixFrom(a, int(mask))
		}
	}
	next := &verifNext5f{}
	rw := &verifRW5f{}
	_ = mw.Wrap(next).ServeDNS(context.Background(), rw, req)

	verifAssert("exactly-one-response", rw.writes == 1)
	if !valid {
		verifAssert("malformed-option-is-answered-with-formerr", rw.resp != nil && rw.resp.Rcode == dns.RcodeFormatError && rw.resp.Id == req.Id && rw.resp.Response)
		verifAssert("malformed-option-goes-no-further", next.calls == 0)
		verifReach("formerr")
		return
	}
	verifAssert("well-formed-query-is-passed-on-once", next.calls == 1 && rw.resp != nil && rw.resp.Rcode == dns.RcodeSuccess)
	if hasOpt {
		verifAssert("the-client's-own-prefix-is-recorded", next.ecs != nil && next.ecs.Subnet == want)
		verifReach("passed-with-subnet")
	} else {
		verifAssert("no-subnet-without-an-option", next.ecs == nil)
		verifReach("passed-without")
	}
}
