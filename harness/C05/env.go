package ecscache

//verif:pkg internal/ecscache

import (
	"time"

	"github.com/AdguardTeam/AdGuardDNS/internal/dnsmsg"
	"github.com/AdguardTeam/golibs/logutil/slogutil"
	"github.com/AdguardTeam/golibs/syncutil"
)

// verifCache is a one-slot cache that honours the documented contract of
// agdcache.Interface: Get returns the stored value iff the key matches and the entry
// has not expired.
type verifCache struct {
	has   bool
	key   uint64
	val   *cacheItem
	until int64 // ns
	sets  int
	exp   time.Duration
}

func (c *verifCache) Set(key uint64, val *cacheItem) { c.SetWithExpire(key, val, 0) }
func (c *verifCache) SetWithExpire(key uint64, val *cacheItem, exp time.Duration) {
	c.has, c.key, c.val, c.exp = true, key, val, exp
	c.until = time.Now().UnixNano() + int64(exp)
	c.sets++
}
func (c *verifCache) Get(key uint64) (val *cacheItem, ok bool) {
	if !c.has || c.key != key || time.Now().UnixNano() >= c.until {
		return nil, false
	}
	return c.val, true
}
func (c *verifCache) Clear()   { c.has = false }
func (c *verifCache) Len() int { return 0 }

func verifMW(noECS, ecs *verifCache) *Middleware {
	return &Middleware{
		cloner:   dnsmsg.NewCloner(dnsmsg.EmptyClonerStat{}),
		cacheReqPool: syncutil.NewPool(func() (req *cacheRequest) {
			return &cacheRequest{}
		}),
		logger:   slogutil.NewDiscardLogger(),
		cache:    noECS,
		ecsCache: ecs,
	}
}

