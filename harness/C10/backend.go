package backendpb

//verif:pkg internal/backendpb

import (
	"context"
	"net/netip"

	"github.com/AdguardTeam/golibs/logutil/slogutil"
	"github.com/miekg/dns"
)

type verifErrColl10 struct{}

func (verifErrColl10) Collect(context.Context, error) {}

// VerifC10BackendAccess: the access settings a profile receives from the backend block
// exactly the clients its subnets describe: a blocked range of every prefix length,
// the zero-length "everybody" range included, rejects the addresses inside it unless
// an allowed range covers them.
//
//verif:harness name=H10d-backend-access tier=quick,thorough bounds="backend access settings with one IPv4 blocked range of symbolic prefix length 0..32 around a symbolic address and one allowed /24; client address symbolic" reach=done,blocked,not-blocked,block-everybody maxpaths=20000
//verif:assume errors are collected by a stub; the conversion is AccessSettings.toInternal, the verdict access.DefaultProfile.IsBlocked
func VerifC10BackendAccess() {
	var a [4]byte
	for i := range a {
		a[i] = nondetU8()
	}
	bits := int(nondetU8())
	verifAssume(bits <= 32)
	blocked := netip.PrefixFrom(netip.AddrFrom4(a), bits).Masked()
	allowed := netip.MustParsePrefix("192.0.2.0/24")
	s := &AccessSettings{
		Enabled:       true,
		AllowlistCidr: []*CidrRange{{Address: allowed.Addr().AsSlice(), Prefix: 24}},
		BlocklistCidr: []*CidrRange{{Address: blocked.Addr().AsSlice(), Prefix: uint32(bits)}},
	}
	prof := s.toInternal(context.Background(), verifErrColl10{}, slogutil.NewDiscardLogger())
	var c [4]byte
	for i := range c {
		c[i] = nondetU8()
	}
	client := netip.AddrFrom4(c)
	req := &dns.Msg{Question: []dns.Question{{Name: "example.org.", Qtype: dns.TypeA, Qclass: dns.ClassINET}}}
	got := prof.IsBlocked(req, netip.AddrPortFrom(client, 4321), nil)
	want := blocked.Contains(client) && !allowed.Contains(client)
	verifAssert("client-blocked-iff-inside-the-blocked-range-and-outside-the-allowed-one", got == want)
	if got {
		verifReach("blocked")
	} else {
		verifReach("not-blocked")
	}
	if bits == 0 {
		verifReach("block-everybody")
	}
	verifReach("done")
}
