package ratelimitmw

//verif:pkg internal/dnssvc/internal/ratelimitmw

import (
	"context"
	"net"
	"net/netip"
	"time"

	"github.com/AdguardTeam/AdGuardDNS/internal/access"
	"github.com/AdguardTeam/AdGuardDNS/internal/agd"
	"github.com/AdguardTeam/AdGuardDNS/internal/agdtest"
	"github.com/AdguardTeam/AdGuardDNS/internal/dnsmsg"
	"github.com/AdguardTeam/AdGuardDNS/internal/dnsserver"
	"github.com/AdguardTeam/AdGuardDNS/internal/geoip"
	"github.com/AdguardTeam/golibs/logutil/slogutil"
	"github.com/AdguardTeam/golibs/netutil"
	"github.com/miekg/dns"
)

type verifAccess struct{ ipBlocked, hostBlocked bool }

func (a *verifAccess) IsBlockedHost(string, uint16) bool { return a.hostBlocked }
func (a *verifAccess) IsBlockedIP(netip.Addr) bool       { return a.ipBlocked }

type verifProfAccess struct {
	blocked bool
	seen    *verifSeen
}

// verifSeen records what the profile access check was asked about.
type verifSeen struct {
	calls int
	loc   *geoip.Location
	raddr netip.AddrPort
	qname string
}

func (verifProfAccess) Config() *access.ProfileConfig { return nil }
func (a verifProfAccess) IsBlocked(req *dns.Msg, raddr netip.AddrPort, l *geoip.Location) bool {
	if a.seen != nil {
		a.seen.calls++
		a.seen.loc, a.seen.raddr, a.seen.qname = l, raddr, req.Question[0].Name
	}
	return a.blocked
}

type verifFinder struct{ res agd.DeviceResult }

func (f verifFinder) Find(context.Context, *dns.Msg, netip.AddrPort, netip.AddrPort) agd.DeviceResult {
	return f.res
}

type verifGeo struct{}

func (verifGeo) SubnetByLocation(*geoip.Location, netutil.AddrFamily) (netip.Prefix, error) {
	return netip.Prefix{}, nil
}
func (verifGeo) Data(_ string, ip netip.Addr) (*geoip.Location, error) {
	if ip == netip.AddrFrom4([4]byte{198, 51, 100, 7}) {
		return &geoip.Location{Country: "NL", ASN: 64500}, nil
	}
	if ip == netip.AddrFrom4([4]byte{203, 0, 113, 0}) {
		// the network a client may name in an ECS option lies elsewhere
		return &geoip.Location{Country: "US", ASN: 64999}, nil
	}
	return nil, nil
}

type verifLimiter struct {
	calls, counted int
	drop, allow    bool
	badArgs        int
}

var verifClient10 = netip.AddrFrom4([4]byte{198, 51, 100, 7})

func (l *verifLimiter) IsRateLimited(_ context.Context, req *dns.Msg, ip netip.Addr) (bool, bool, error) {
	l.calls++
	if ip != verifClient10 || len(req.Question) != 1 || req.Question[0].Name != "example.org." {
		l.badArgs++
	}
	return l.drop, l.allow, nil
}
func (l *verifLimiter) CountResponses(_ context.Context, resp *dns.Msg, ip netip.Addr) {
	l.counted++
	if ip != verifClient10 || resp == nil || !resp.Response {
		l.badArgs++
	}
}

type verifProfLimiter struct {
	res            agd.RatelimitResult
	calls, counted int
	badArgs        int
}

func (l *verifProfLimiter) Check(_ context.Context, req *dns.Msg, ip netip.Addr) agd.RatelimitResult {
	l.calls++
	if ip != verifClient10 || len(req.Question) != 1 {
		l.badArgs++
	}
	return l.res
}
func (l *verifProfLimiter) Config() *agd.RatelimitConfig                            { return nil }
func (l *verifProfLimiter) CountResponses(context.Context, *dns.Msg, netip.Addr) { l.counted++ }

type verifNextH struct {
	calls   int
	sawInfo bool
	respond bool
	loc     *geoip.Location
}

func (n *verifNextH) ServeDNS(ctx context.Context, rw dnsserver.ResponseWriter, req *dns.Msg) error {
	n.calls++
	var ri *agd.RequestInfo
	ri, n.sawInfo = agd.RequestInfoFromContext(ctx)
	if ri != nil {
		n.loc = ri.Location
	}
	if n.respond {
		return rw.WriteMsg(ctx, req, (&dns.Msg{}).SetReply(req))
	}
	return nil
}

type verifRW struct {
	writes int
	port   int
}

func (w *verifRW) LocalAddr() net.Addr { return &net.UDPAddr{IP: net.IP{192, 0, 2, 1}, Port: 53} }
func (w *verifRW) RemoteAddr() net.Addr {
	return &net.UDPAddr{IP: net.IP{198, 51, 100, 7}, Port: w.port}
}
func (w *verifRW) WriteMsg(context.Context, *dns.Msg, *dns.Msg) error { w.writes++; return nil }

// VerifC10Middleware: an access-blocked request gets no response and reaches no later
// stage; a request that nothing rejects is passed on exactly once; rate limiting
// drops silently, prefers the profile's limiter and counts responses on the limiter
// that admitted the request.
//
//verif:harness name=H10b-middleware tier=quick,thorough bounds="every combination of: request with or without a client-supplied ECS option naming a network in another autonomous system, client port zero or not, device result kind (none, OK, auth failure, unknown dedicated, error), global IP / global name / profile verdicts, protocol limited or not, profile limiter result (drop, use-global, pass), global limiter (drop, allowlisted, pass), next handler answering or not" reach=blocked,served,ratelimited,dropped-device maxpaths=100000
//verif:assume access verdicts, device finder, GeoIP and limiters are stubs returning symbolic choices (their own logic is decided by H10a, C03, C09)
func VerifC10Middleware() {
	verifPoolMode(1)
	acc := &verifAccess{ipBlocked: nondetBool(), hostBlocked: nondetBool()}
	profBlocked := nondetBool()
	seen := &verifSeen{}
	profLim := &verifProfLimiter{res: []agd.RatelimitResult{agd.RatelimitResultDrop, agd.RatelimitResultUseGlobal, agd.RatelimitResultPass}[verifChoice(3)]}
	prof := &agd.Profile{
		ID:                  "prof1234",
		Access:              verifProfAccess{blocked: profBlocked, seen: seen},
		Ratelimiter:         profLim,
		BlockingMode:        &dnsmsg.BlockingModeNullIP{},
		FilteredResponseTTL: 10 * time.Second,
	}
	dev := &agd.Device{ID: "dev12345"}
	var devRes agd.DeviceResult
	kind := verifChoice(5)
	switch kind {
	case 1:
		devRes = &agd.DeviceResultOK{Profile: prof, Device: dev}
	case 2:
		devRes = &agd.DeviceResultAuthenticationFailure{Err: context.Canceled}
	case 3:
		devRes = &agd.DeviceResultUnknownDedicated{Err: context.Canceled}
	case 4:
		devRes = &agd.DeviceResultError{Err: context.Canceled}
	}
	lim := &verifLimiter{}
	switch verifChoice(3) {
	case 0:
		lim.drop = true
	case 1:
		lim.allow = true
	}
	limited := verifChoice(2) == 1
	protos := []agd.Protocol{}
	if limited {
		protos = append(protos, agd.ProtoDNS)
	}
	msgs, err := dnsmsg.NewConstructor(&dnsmsg.ConstructorConfig{
		Cloner:              agdtest.NewCloner(),
		BlockingMode:        &dnsmsg.BlockingModeNullIP{},
		StructuredErrors:    agdtest.NewSDEConfig(false),
		FilteredResponseTTL: 10 * time.Second,
	})
	verifAssume(err == nil)
	mw := New(&Config{
		Logger:           slogutil.NewDiscardLogger(),
		Messages:         msgs,
		FilteringGroup:   &agd.FilteringGroup{},
		ServerGroup:      &agd.ServerGroup{},
		Server:           &agd.Server{Name: "s", Protocol: agd.ProtoDNS},
		StructuredErrors: agdtest.NewSDEConfig(false),
		AccessManager:    acc,
		DeviceFinder:     verifFinder{res: devRes},
		ErrColl:          agdtest.NewErrorCollector(),
		GeoIP:            verifGeo{},
		Metrics:          EmptyMetrics{},
		Limiter:          lim,
		Protocols:        protos,
	})
	next := &verifNextH{respond: verifChoice(2) == 1}
	rw := &verifRW{port: 4321}
	if verifChoice(2) == 1 {
		rw.port = 0
	}
	req := &dns.Msg{}
	req.SetQuestion("example.org.", dns.TypeA)
	if verifChoice(2) == 1 {
		// a client-supplied subnet option naming a network somewhere else: access
		// control and the request's location stay those of the real client
		req.SetEdns0(1232, false)
		o := req.IsEdns0()
		o.Option = append(o.Option, &dns.EDNS0_SUBNET{Code: dns.EDNS0SUBNET, Family: 1, SourceNetmask: 24, Address: net.IP{203, 0, 113, 0}})
	}
	h := mw.Wrap(next)
	serveErr := h.ServeDNS(context.Background(), rw, req)

	// however the request ended, its pooled request information went back once: the
	// next two requests do not share one object
	ri1, ri2 := mw.pool.Get(), mw.pool.Get()
	verifAssert("request-info-released-at-most-once", ri1 != ri2)

	if rw.port == 0 {
		verifAssert("zero-port-dropped-silently", next.calls == 0 && rw.writes == 0 && serveErr == nil)
		return
	}
	if kind == 3 || kind == 4 {
		verifAssert("device-drop-reaches-nothing", next.calls == 0 && rw.writes == 0 && lim.calls == 0)
		verifAssert("device-error-is-reported", (kind == 4) == (serveErr != nil))
		verifReach("dropped-device")
		return
	}
	if seen.calls > 0 {
		// the profile's access rules are evaluated on this client's data
		verifAssert("profile-access-sees-the-client's-location-address-and-question", kind == 1 && seen.loc != nil && seen.loc.ASN == 64500 && seen.raddr.Addr() == netip.AddrFrom4([4]byte{198, 51, 100, 7}) && seen.raddr.Port() == 4321 && seen.qname == "example.org.")
	}
	blocked := acc.ipBlocked || acc.hostBlocked || (kind == 1 && profBlocked)
	if blocked {
		verifAssert("blocked-request-gets-no-response", rw.writes == 0)
		verifAssert("blocked-request-reaches-no-later-stage", next.calls == 0)
		verifAssert("blocked-request-is-not-rate-counted", lim.calls == 0 && lim.counted == 0 && profLim.calls == 0 && profLim.counted == 0)
		verifAssert("blocked-request-returns-no-error", serveErr == nil)
		verifReach("blocked")
		return
	}
	verifAssert("no-error", serveErr == nil)
	// rate limiting
	useProfile := limited && kind == 1 && profLim.res != agd.RatelimitResultUseGlobal
	useGlobal := limited && !useProfile
	switch {
	case useProfile && profLim.res == agd.RatelimitResultDrop:
		verifAssert("profile-drop-is-silent", next.calls == 0 && rw.writes == 0 && lim.calls == 0)
		verifReach("ratelimited")
	case useGlobal && lim.drop:
		verifAssert("global-drop-is-silent", next.calls == 0 && rw.writes == 0)
		verifReach("ratelimited")
	default:
		verifAssert("unrejected-request-processed-exactly-once", next.calls == 1 && next.sawInfo)
		verifAssert("request-info-carries-the-client's-location", next.loc != nil && next.loc.ASN == 64500)
		verifAssert("response-written-iff-produced", (rw.writes == 1) == next.respond)
		if useProfile {
			verifAssert("profile-limit-applies-instead-of-global", lim.calls == 0 && lim.counted == 0)
			verifAssert("response-counted-on-profile-limiter", (profLim.counted == 1) == next.respond)
		} else if useGlobal && !lim.allow {
			verifAssert("response-counted-on-global-limiter", (lim.counted == 1) == next.respond && profLim.counted == 0)
		} else {
			verifAssert("allowlisted-or-unlimited-not-counted", lim.counted == 0 && profLim.counted == 0)
		}
		verifReach("served")
	}
	verifAssert("limiters-are-asked-about-this-client-and-this-message", lim.badArgs == 0 && profLim.badArgs == 0)
	if kind == 2 {
		// an authentication failure is served as anonymous: no profile downstream
		verifAssert("auth-failure-served-as-anonymous", profLim.calls == 0)
	}
}
