package access

//verif:pkg internal/access

import (
	"net/netip"
	"strings"

	"github.com/miekg/dns"
)

// VerifC10Names: a profile's blocked-name rules are matched by the real urlfilter
// engine against the question name regardless of letter case (of the question or of
// the rule), for the name itself and its subdomains and for nothing else.
//
//verif:harness name=H10c-names tier=quick,thorough stubs=off bounds="real urlfilter engine; rules {||block.example^, ||UPPER.Example^} with or without a rule for the root name (|.^); 11 concrete question names (exact, subdomain, mixed and upper case, look-alikes, root); qtype from {A, AAAA, HTTPS, NS}" reach=blocked,not-blocked,mixed-case-blocked,root-blocked
//verif:assume urlfilter is interpreted on concrete names only
func VerifC10Names() {
	rules := []string{"||block.example^", "||UPPER.Example^"}
	rootRule := verifChoice(2) == 1
	if rootRule {
		// a rule for the root name itself (queries such as NS . or ANY .)
		rules = append(rules, "|.^")
	}
	p := NewDefaultProfile(&ProfileConfig{BlocklistDomainRules: rules})
	names := []string{
		"block.example.", "BLOCK.EXAMPLE.", "Block.eXample.", "sub.block.example.", "Sub.Block.Example.",
		"upper.example.", "UPPER.Example.",
		"notblock.example.", "block.example.org.", "other.test.", ".",
	}
	name := names[verifChoice(len(names))]
	qt := []uint16{dns.TypeA, dns.TypeAAAA, dns.TypeHTTPS, dns.TypeNS}[verifChoice(4)]
	req := &dns.Msg{Question: []dns.Question{{Name: name, Qtype: qt, Qclass: dns.ClassINET}}}
	got := p.IsBlocked(req, netip.MustParseAddrPort("192.0.2.1:5353"), nil)

	l := strings.ToLower(strings.TrimSuffix(name, "."))
	want := false
	for _, d := range []string{"block.example", "upper.example"} {
		if l == d || strings.HasSuffix(l, "."+d) {
			want = true
		}
	}
	if rootRule && name == "." {
		want = true
		verifReach("root-blocked")
	}
	verifAssert("blocked-name-verdict-ignores-case", got == want)
	if got {
		verifReach("blocked")
		if name != strings.ToLower(name) {
			verifReach("mixed-case-blocked")
		}
	} else {
		verifReach("not-blocked")
	}
}
