package access

//verif:pkg internal/access
//verif:stub (*github.com/AdguardTeam/AdGuardDNS/internal/access.blockedHostEngine).isBlocked verifHostEngine

import (
	"net/netip"

	"github.com/AdguardTeam/AdGuardDNS/internal/geoip"
	"github.com/miekg/dns"
)

// verifHostEngine stands in for the urlfilter-based blocked-name engine in the
// symbolic build: the only rule used by the harness matches the only question asked.
func verifHostEngine(e *blockedHostEngine, req *dns.Msg) bool {
	return len(e.rules) > 0
}

func verifNet(is6 bool) netip.Prefix {
	var a netip.Addr
	maxBits := 32
	if is6 {
		var b [16]byte
		for i := range b {
			b[i] = nondetU8()
		}
		a = netip.AddrFrom16(b)
		maxBits = 128
	} else {
		var b [4]byte
		for i := range b {
			b[i] = nondetU8()
		}
		a = netip.AddrFrom4(b)
	}
	bits := int(nondetU8())
	verifAssume(bits <= maxBits)
	return netip.PrefixFrom(a, bits).Masked()
}

func verifIP(is6 bool) netip.Addr {
	if is6 {
		var b [16]byte
		for i := range b {
			b[i] = nondetU8()
		}
		return netip.AddrFrom16(b)
	}
	var b [4]byte
	for i := range b {
		b[i] = nondetU8()
	}
	return netip.AddrFrom4(b)
}

// VerifC10Profile: the profile access verdict is exactly "blocked subnet or ASN
// not overridden by an allowed subnet or ASN, or a blocked-name rule".
//
//verif:harness name=H10a-profile tier=quick bounds="client address full-width (IPv4 or IPv6), location absent or with a symbolic 32-bit ASN, up to 1 allowed and 1 blocked subnet of either family (symbolic address and length), up to 2 allowed and 2 blocked ASNs, blocked-name rule present or not" reach=blocked-by-net,blocked-by-asn,blocked-by-name,allowed-overrides,not-blocked maxpaths=200000
//verif:assume the blocked-name engine matches iff the profile has a name rule (rule text matching by urlfilter is outside the claim)
func VerifC10Profile() { verifC10Profile(1) }

// VerifC10Profile2 is the thorough variant (up to 2 entries per list).
//
//verif:harness name=H10a-profile2 tier=thorough bounds="as H10a-profile with up to 2 entries per list" reach=blocked-by-net,blocked-by-asn,blocked-by-name,allowed-overrides,not-blocked maxpaths=2000000
//verif:assume the blocked-name engine matches iff the profile has a name rule (rule text matching by urlfilter is outside the claim)
func VerifC10Profile2() { verifC10Profile(2) }

func verifC10Profile(maxN int) {
	is6 := verifChoice(2) == 1
	ip := verifIP(is6)
	nAllowedNets, nBlockedNets := verifChoice(maxN+1), verifChoice(maxN+1)
	conf := &ProfileConfig{}
	for i := 0; i < nAllowedNets; i++ {
		conf.AllowedNets = append(conf.AllowedNets, verifNet(verifChoice(2) == 1))
	}
	for i := 0; i < nBlockedNets; i++ {
		conf.BlockedNets = append(conf.BlockedNets, verifNet(verifChoice(2) == 1))
	}
	// ASN lists are cheap: up to two entries in either order in both tiers
	nAllowedASN, nBlockedASN := verifChoice(3), verifChoice(3)
	for i := 0; i < nAllowedASN; i++ {
		conf.AllowedASN = append(conf.AllowedASN, geoip.ASN(nondetU32()))
	}
	for i := 0; i < nBlockedASN; i++ {
		conf.BlockedASN = append(conf.BlockedASN, geoip.ASN(nondetU32()))
	}
	hasNameRule := verifChoice(2) == 1
	if hasNameRule {
		conf.BlocklistDomainRules = []string{"||example.org^"}
	}
	var loc *geoip.Location
	if verifChoice(2) == 1 {
		loc = &geoip.Location{ASN: geoip.ASN(nondetU32())}
	}
	p := NewDefaultProfile(conf)
	req := &dns.Msg{}
	req.SetQuestion("example.org.", dns.TypeA)
	got := p.IsBlocked(req, netip.AddrPortFrom(ip, 12345), loc)

	// reference
	inNets := func(nets []netip.Prefix) bool {
		r := false
		for _, n := range nets {
			// prefix membership spelled out: same family and equal under the mask
			if n.Addr().Is4() == ip.Is4() {
				m, _ := ip.Prefix(n.Bits())
				r = verifOr(r, m == n)
			}
		}
		return r
	}
	inASN := func(asns []geoip.ASN) bool {
		r := false
		if loc != nil {
			for _, a := range asns {
				r = verifOr(r, a == loc.ASN)
			}
		}
		return r
	}
	allowed := verifOr(inASN(conf.AllowedASN), inNets(conf.AllowedNets))
	blockedNet, blockedASN := inNets(conf.BlockedNets), inASN(conf.BlockedASN)
	want := verifOr(verifAnd(!allowed, verifOr(blockedNet, blockedASN)), hasNameRule)
	verifAssert("profile-verdict-equals-reference", got == want)
	switch {
	case !got:
		verifReach("not-blocked")
		if allowed && (blockedNet || blockedASN) {
			verifReach("allowed-overrides")
		}
	case hasNameRule:
		verifReach("blocked-by-name")
	case blockedNet:
		verifReach("blocked-by-net")
	default:
		verifReach("blocked-by-asn")
	}
}
