#!/bin/sh
# usage: tools_seedcheck_wt.sh <property> <patch.diff> [tier]
# Like tools_seedcheck.sh, but applies the seeded change to a scratch worktree of
# /repo (/tmp/wt/_check, created on demand at /repo's HEAD) and points the engine at
# it with VERIF_REPO_OVERRIDE, so that /repo itself stays untouched (a thorough run
# may be using it).  Evidence of such runs goes to a scratch directory.  VERIF_WT
# names another scratch worktree, so that several streams can run side by side.
prop=$1; patch=$2; tier=${3:-quick}
wt=${VERIF_WT:-/tmp/wt/_check}
tag=$(basename $wt)
head=$(git -C /repo rev-parse HEAD)
if [ ! -d $wt ] || [ "$(git -C $wt rev-parse HEAD 2>/dev/null)" != "$head" ]; then
  git -C /repo worktree remove --force $wt 2>/dev/null
  mkdir -p /tmp/wt
  git -C /repo worktree add --detach $wt HEAD >/dev/null 2>&1 || exit 2
fi
cd $wt || exit 2
git checkout -q -- . && git clean -fdq
git apply "$patch" || { echo "patch does not apply"; exit 2; }
VERIF_REPO_OVERRIDE=$wt /verif/bin/verifeng check "$prop" --tier "$tier" > /tmp/seedcheckwt_${tag}_$prop.out 2>&1
code=$?
git checkout -q -- . && git clean -fdq
grep -E "^(VIOLATION|KNOWN|INCONCLUSIVE|OK)|harness H" /tmp/seedcheckwt_${tag}_$prop.out | cut -c1-220
echo "exit=$code"
