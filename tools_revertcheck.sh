#!/bin/sh
# Re-introduces each repaired defect (reverse patch of its fix commit) and runs the
# property's quick check, which must report the violation again.
for f in /verif/seeded/reverted-fixes/*.diff; do
  prop=$(basename $f | cut -d- -f1)
  echo "== $(basename $f)"
  /verif/tools_seedcheck.sh $prop $f quick 2>&1 | grep -E "VIOLATION|INCONCL|exit=|dirty|apply"
done
