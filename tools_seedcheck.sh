#!/bin/sh
# usage: tools_seedcheck.sh <property> <patch.diff> [tier]
# Applies a seeded change to /repo, runs the property's check, and restores /repo.
prop=$1; patch=$2; tier=${3:-quick}
cd /repo || exit 2
if ! git diff --quiet; then echo "repo dirty"; exit 2; fi
git apply "$patch" || { echo "patch does not apply"; exit 2; }
/verif/bin/verifeng check "$prop" --tier "$tier" > /tmp/seedcheck_$prop.out 2>&1
code=$?
git checkout -- . && git status --short
grep -E "^(VIOLATION|KNOWN|INCONCLUSIVE|OK)|harness H" /tmp/seedcheck_$prop.out | cut -c1-220
echo "exit=$code"
