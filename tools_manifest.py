#!/usr/bin/env python3
"""Regenerates /verif/MANIFEST.json from the table below (kept valid at all times)."""
import json, sys

CLAIMED = {}   # id -> dict(text=..., note=..., ref=...)
NOT_APPLICABLE = {}

def claim(pid, text, note, ref):
    CLAIMED[pid] = dict(text=text, note=note, ref=ref)

exec(open('/verif/manifest_table.py').read())

props = [json.loads(l)['id'] for l in open('/verif/properties.jsonl')]
checks = []
for pid in props:
    if pid in CLAIMED:
        c = CLAIMED[pid]
        checks.append({
            "property_id": pid,
            "quick_cmd": f"/verif/bin/verifeng check {pid} --tier quick",
            "thorough_cmd": f"/verif/bin/verifeng check {pid} --tier thorough",
            "evidence_file": f"/verif/evidence/{pid}.json",
            "replay_cmd_template": "cat {path}  # witness (inputs in call order); re-run: /verif/bin/verifeng check %s --tier quick replays it natively with go test -overlay" % pid,
            "engine": "symgo",
            "level_claimed": {"category": "model_checking", "text": c['text'], "design_ref": c['ref']},
            "level_note": c['note'],
            "technique": "bounded symbolic execution of /repo's go/ssa with SMT (z3/cvc5) deciding every assertion; counterexamples replayed natively",
        })
na = [{"property_id": p, "reason": NOT_APPLICABLE.get(p, "no check built yet in this session (solver-based harness pending); not claimed")} for p in props if p not in CLAIMED]
m = {
    "version": 1,
    "setup_cmd": "cd /verif/engine && GOFLAGS=-mod=mod GOPROXY=off GOSUMDB=off GOTOOLCHAIN=local go build -o /verif/bin/verifeng ./cmd/verifeng",
    "hooks": {
        "guard": "verif",
        "enable": "none needed: harnesses are injected with go/packages overlays and go test -overlay; nothing is written under /repo",
        "baseline_off_cmd": "for m in . internal/dnsserver; do (cd /repo/$m && go test -vet=off -count=1 -timeout 25m ./...); done",
        "source_commits": SOURCE_COMMITS,
        "add_only": True,
    },
    "engines": [{"name": "symgo", "path": "/verif/engine", "serves_properties": sorted(CLAIMED), "kind_free_text": "symbolic interpreter for go/ssa (forking by re-execution, SMT-LIB2 over bit-vectors/FP, z3 4.8.12 + z3 5.1.0 + cvc5 portfolio), harnesses in /verif/harness injected by overlay"}],
    "checks": checks,
    "not_applicable": na,
    "notes": "See DESIGN.md. Exit codes: 0 held within bounds, 1 VIOLATION (replayed natively), 2 INCONCLUSIVE (never on the unchanged tree for a registered check).",
}
json.dump(m, open('/verif/MANIFEST.json', 'w'), indent=1)
print("claimed", sorted(CLAIMED), "n/a", len(na))
