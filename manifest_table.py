SOURCE_COMMITS = ["d2e4e29 fix: wake all waiting accepts when a connection is released (unguarded repair, C18)", "1519567 fix: make validatePositive reject non-positive integers, check subnet key lengths (unguarded repair, C20)", "0f1a30e fix: serve zero TTL from the simple cache when no time is left (unguarded repair, C04)", "e93dce2 fix: unpack only the received bytes of a DoQ message (unguarded repair, C06)", "333808d fix: unpack only the received bytes of a plain upstream reply (unguarded repair, C06)", "2a834ae fix: do not proxy linked-IP paths that contain dot segments (unguarded repair, C19)", "f25de9e fix: recheck staleness before removing profile database index entries (unguarded repair, C14)"]

claim("C09",
      "Bounded symbolic execution of the real RequestCounter/ring buffer against a sliding-window-log reference: for every interval and every non-decreasing timestamp sequence within the bound the SMT solver shows Add's verdict equals the reference. Bounded (events, limit), full-width values.",
      "Trusted: go/ssa lowering, symgo interpreter + native models (sync.Mutex, time.Unix/UnixNano), z3. Outside the claim: go-cache expiry timing, sockets.",
      "DESIGN.md 3 C09")

claim("C18",
      "Inductive step of the real connlimiter.counter from an arbitrary 64-bit state satisfying the representation invariant (increment/decrement preserve it, stop/resume hysteresis exact), plus bounded exploration of all orders of accept / close / double close / listener close on two limitListeners sharing one limiter with the real sync.Cond protocol (coroutine threads, arbitrary Signal waiter), asserting the open+pending bound inside the inner Accept and 'no waiter stays blocked while the limiter accepts' at every quiescent state.",
      "Trusted: symgo models of sync.Mutex/Cond/atomic and its cooperative scheduler (switches at synchronisation points only, no data races), go/ssa, z3. Bounds: stop<=3, <=2 waiters, 3 (quick) / 5 (thorough) close operations, operations run to quiescence one at a time. Outside the claim: net listeners, TLS, ants pools, the TCP pipeline semaphore (not yet encoded), fairness.",
      "DESIGN.md 3 C18")

claim("C20",
      "The real validate methods of the rate-limit configuration section are executed with every numeric, duration and size field a full-width symbolic value; on every accepting path the solver must show the documented positivity / range facts, and the accepted values are pushed through the real consumers (toInternal, NewBackoff, IsRateLimited for an IPv4 and an IPv6 client, CountResponses, connlimiter.New) with 'no panic outcome' asserted; on every rejecting path the error message must start with the offending property name.",
      "Trusted: symgo and its models (fmt.Errorf wrapping, reflect.Value Int/Uint, go-cache janitor not run), z3. Input domain = decoded config structs (YAML parsing, env, TLS/file paths outside the claim). Consumer part bounded to counts <= 3 and size estimate >= 16 (loop lengths). Sections other than ratelimit are covered only as far as harnesses in /verif/harness/C20 exist.",
      "DESIGN.md 3 C20")

claim("C04",
      "Bounded symbolic execution of both response caches: the TTL recomputation of the simple cache (float64 kernel, FloatingPoint theory, cvc5) and of the ECS cache (integer kernel, cvc5 bv-as-int) for every 32-bit TTL and every nanosecond age; injectivity of the ECS cache key over qtype/qclass/DO/family/subnet/declined (maphash as an uninterpreted function); and the store/hit path of the ECS cache for an answer grammar (rcode, TC, answer kinds, SOA, TTL 0) against a reference cacheability predicate, with expiry and AD gating.",
      "Trusted: symgo + models (time.Now as a harness-set clock, sync.Pool, maphash UF with the stated no-collision assumption), one-slot cache stub honouring the agdcache contract (LRU eviction internals outside the claim), cvc5/z3. Bounds: one record per section, one store followed by one lookup.",
      "DESIGN.md 3 C04")

claim("C06",
      "Self-composition by symbolic execution of the real receive paths (ServerQUIC.readQUICMsg, ServerDNS.acceptUDPMsg/acceptTCPMsg incl. getTCPBuffer, UpstreamPlain.readMsg for UDP and TCP) followed by the real miekg Unpack: the same symbolic message bytes are read once by a server whose pooled buffer holds arbitrary stale bytes and once by a fresh server; the solver must show that accept/reject and every decoded header/question field agree.",
      "Trusted: symgo, its sync.Pool model in LIFO mode (the mode that exposes stale buffers), the inline worker-pool stub, z3. Bounds: messages of 12..17 bytes (quick) with QDCOUNT<=2 and no other records, body alphabet {0..3, a-z}, 6 symbolic stale bytes, 64-byte DNS pool buffers; DoH body path not encoded (net/http); concurrent sharing of a buffer (data races) outside the claim.",
      "DESIGN.md 3 C06")

claim("C19",
      "Symbolic execution of the real shouldProxy/shouldProxyGet/shouldProxyPost over methods and paths with symbolic bytes against an RFC 3986 dot-segment reference normaliser (proxied => documented shape and normalised path still under /linkip/ or /ddns/), and of linkedIPProxy.ServeHTTP over all presence combinations of forged client-IP headers with symbolic values and a symbolic peer address (backend contacted iff documented shape; X-Connecting-Ip is exactly the peer address; CF-Connecting-IP, Forwarded, True-Client-IP, X-Real-IP removed; outbound Host/URL rewritten to the backend).",
      "Trusted: symgo (net/http Header/URL code interpreted from SSA), z3; in the symbolic build ReverseProxy.ServeHTTP is replaced by Rewrite-then-RoundTrip (native replay uses the real ReverseProxy with a recording Transport). Bounds: path = prefix choice + <=7 (quick) / <=10 (thorough) symbolic bytes over {'/', '.', 'a', 's'} + suffix choice; header harness uses 6 concrete paths. Outside the claim: HTTP request-line parsing, percent-decoding, X-Forwarded-* removal by ReverseProxy.",
      "DESIGN.md 3 C19")

claim("C03",
      "Symbolic execution of the real devicefinder.Default.Find (deviceData extraction per transport, findDevice/deviceFromDB, authenticatedResult/authenticate) against a stub profile database that records how it was asked: all combinations of protocol (incl. DNSCrypt/invalid), userinfo, DoH path, TLS server name, EDNS options, linked-IP flag, database answers and symbolic Auth.Enabled / DoHAuthOnly / password verdict / profile Deleted; the solver must show the channel discipline, the deleted-profile gate and the authentication decision table; the downstream treatment of non-OK results is checked through ratelimitmw (H10b).",
      "Trusted: symgo, stub profile DB and password hash (bcrypt outside the claim), z3. Identifiers are concrete representatives per channel; extended human-ID parsing and interface-bound servers (dedicated IPs) are not yet encoded; net/http Basic-Auth decoding and TLS SNI extraction outside the claim.",
      "DESIGN.md 3 C03")

claim("C10",
      "Symbolic execution of the real access.DefaultProfile.IsBlocked (full-width addresses, symbolic subnets/ASNs) against a reference predicate (blocked net/ASN not overridden by an allowed net/ASN, or a blocked-name rule), and of the whole ratelimitmw.Wrap closure with recorder stubs: every blocked request writes nothing, never reaches the next handler or any limiter and returns nil; every request that nothing rejects reaches the next handler exactly once with its RequestInfo; rate-limit drops are silent and the profile's limiter replaces the global one.",
      "Trusted: symgo, stubs for the urlfilter blocked-name engines (verdict = symbolic / rule present), device finder, GeoIP and limiters; z3. Bounds: <=1 (quick) / <=2 (thorough) entries per list. 'Not logged, billed, cached, resolved' follows from 'next not called' because all those stages live behind next (dnssvc.NewHandlers order, not re-checked here).",
      "DESIGN.md 3 C10")

claim("C16",
      "Bounded symbolic exploration of the real billstat.RuntimeRecorder (Record, Refresh, resetRecords, remergeRecords) over all histories of records for two devices and upload attempts that succeed or fail, with 0..2 records arriving while the upload is in flight; ghost counters assert delivered + pending = recorded per device after every step, and the solver shows that the pending record's time/ASN/country/protocol (all symbolic) are those of the device's latest query.",
      "Trusted: symgo (sync.Mutex model), uploader stub, z3. In-flight records are serialised inside Upload: the shared state is only touched under the mutex, so every interleaving of the atomic sections equals such a sequence (data races outside the claim). Bounds: 2 devices, 3 (quick) / 5 (thorough) steps; int32 overflow of Queries outside the claim.",
      "DESIGN.md 3 C16")

claim("C17",
      "Bounded symbolic exploration of the real forward.Handler (ServeDNS, exchange, pickActiveUpstream, Refresh/refresh/healthcheck/healthcheckUpstream/checkUpstream) with stub upstreams whose every exchange outcome (NOERROR, SERVFAIL, net.Error, io.EOF, other error, nil) is an explored choice, symbolic backoff and clock; after every step the active set, the last-failed-probe times and the sequence of exchange calls must equal a reference state machine (backoff boundary decided by the solver), the response written must be the answering upstream's, and failures must surface as errors. validatePlainResponse is decided separately for symbolic IDs/types/names.",
      "Trusted: symgo (time.Now as harness clock, x/exp/rand.Intn as explored choice), z3. Bounds: 2 main upstreams, 0..1 fallback, 3 (quick) / 4 (thorough) steps; names of <=4 bytes. Outside the claim: sockets, connection pools, timeouts, UDP->TCP retry on truncation (exchangeUDP, not encoded), metrics.",
      "DESIGN.md 3 C17")

claim("C15",
      "Symbolic execution of the real mainmw Wrap closure (filterRequest/filterResponse/setFilteredResponse/recordQueryInfo) with recorder stubs over device-result kinds, symbolic QueryLogEnabled/IPLogEnabled flags, all request/response verdict kinds and symbolic client address / ASN / start time / qtype: billing iff attributed to a profile, log entry iff query logging enabled, client address iff IP logging enabled, entry fields are this request's; querylog.resultData against the table of doc/querylog.md for all verdict pairs; FileSystem.Write over 1..3 writes with a recycled buffer (one complete record per entry, file closed, elapsed saturation).",
      "Trusted: symgo (sync.Pool LIFO model), recorder stubs; in the symbolic build os.OpenFile, File.Write/Close and json.Encoder.Encode are stubs (native replay uses a real temp file and JSON). Outside the claim: atomicity of concurrent O_APPEND writes (kernel), JSON encoding, that anonymous/dropped requests never reach this middleware (C10/H10b).",
      "DESIGN.md 3 C15")

claim("C14",
      "Bounded exploration of the real profiledb.Default (setProfiles/setDevices, ProfileByLinkedIP/DedicatedIP/HumanID, profileByDeviceID and the remove* clean-up goroutines run as scheduler-controlled threads): over all sequences of partial/full synchronisations that move a key between two devices, lookups and clean-up runs in every order, each lookup must return the device that owns the key in the ghost backend state. The file-cache struct conversions toProtobuf/toInternal are executed on a profile and a device whose booleans, addresses, ASNs, subnets, RPS and hash bytes are symbolic and every field is compared after the round trip.",
      "Trusted: symgo cooperative scheduler (clean-up goroutines run only at harness-chosen points; natively reproduced with GOMAXPROCS(1)), sync.RWMutex model, z3. Bounds: 1 profile, 2 devices, 2 keys of one kind, 5 (quick) / 6 (thorough) steps. Outside the claim: device-ID index under profile moves (not yet encoded), protobuf wire marshalling, renameio atomicity / kill points, pause schedules (time-zone loading), gRPC backend conversion.",
      "DESIGN.md 3 C14")
