SOURCE_COMMITS = []

claim("C09",
      "Bounded symbolic execution of the real RequestCounter/ring buffer against a sliding-window-log reference: for every interval and every non-decreasing timestamp sequence within the bound the SMT solver shows Add's verdict equals the reference. Bounded (events, limit), full-width values.",
      "Trusted: go/ssa lowering, symgo interpreter + native models (sync.Mutex, time.Unix/UnixNano), z3. Outside the claim: go-cache expiry timing, sockets.",
      "DESIGN.md 3 C09")
