// Derived from golang.org/x/tools/go/ssa/interp (BSD-style license, The Go Authors).

package symgo

import (
	"bytes"
	"fmt"
	"go/constant"
	"go/token"
	"go/types"
	"math"
	"os"
	"unsafe"

	"golang.org/x/tools/go/ssa"
)

// If the target program panics, the interpreter panics with this type.
type targetPanic struct {
	v value
}

func (p targetPanic) String() string {
	return toString(p.v)
}

// constValue returns the value of the constant with the dynamic type tag appropriate for c.Type().
func constValue(c *ssa.Const) value {
	if c.Value == nil {
		return zero(c.Type()) // typed zero
	}
	if t, ok := c.Type().Underlying().(*types.Basic); ok {
		switch t.Kind() {
		case types.Bool, types.UntypedBool:
			return constant.BoolVal(c.Value)
		case types.Int, types.UntypedInt:
			return int(c.Int64())
		case types.Int8:
			return int8(c.Int64())
		case types.Int16:
			return int16(c.Int64())
		case types.Int32, types.UntypedRune:
			return int32(c.Int64())
		case types.Int64:
			return c.Int64()
		case types.Uint:
			return uint(c.Uint64())
		case types.Uint8:
			return uint8(c.Uint64())
		case types.Uint16:
			return uint16(c.Uint64())
		case types.Uint32:
			return uint32(c.Uint64())
		case types.Uint64:
			return c.Uint64()
		case types.Uintptr:
			return uintptr(c.Uint64())
		case types.Float32:
			return float32(c.Float64())
		case types.Float64, types.UntypedFloat:
			return c.Float64()
		case types.Complex64:
			return complex64(c.Complex128())
		case types.Complex128, types.UntypedComplex:
			return c.Complex128()
		case types.String, types.UntypedString:
			if c.Value.Kind() == constant.String {
				return constant.StringVal(c.Value)
			}
			return string(rune(c.Int64()))
		}
	}
	panic(fmt.Sprintf("constValue: %s", c))
}

// asInt64 converts a concrete integer x to an int64.
func asInt64(x value) int64 {
	switch x := x.(type) {
	case int:
		return int64(x)
	case int8:
		return int64(x)
	case int16:
		return int64(x)
	case int32:
		return int64(x)
	case int64:
		return x
	case uint:
		return int64(x)
	case uint8:
		return int64(x)
	case uint16:
		return int64(x)
	case uint32:
		return int64(x)
	case uint64:
		return int64(x)
	case uintptr:
		return int64(x)
	}
	panic(fmt.Sprintf("cannot convert %T to int64", x))
}

// asInt concretizes (forking if needed) an integer value and returns it as int64.
func (i *interpreter) asInt(x value) int64 {
	if s, ok := x.(*Sym); ok {
		k := types.Int64
		switch s.t.sort {
		case SBV8:
			k = types.Uint8
		case SBV16:
			k = types.Uint16
		case SBV32:
			k = types.Int32
		}
		return asInt64(i.concretize(x, k))
	}
	return asInt64(x)
}

func valueKind(x value) types.BasicKind {
	switch x.(type) {
	case bool:
		return types.Bool
	case int:
		return types.Int
	case int8:
		return types.Int8
	case int16:
		return types.Int16
	case int32:
		return types.Int32
	case int64:
		return types.Int64
	case uint:
		return types.Uint
	case uint8:
		return types.Uint8
	case uint16:
		return types.Uint16
	case uint32:
		return types.Uint32
	case uint64:
		return types.Uint64
	case uintptr:
		return types.Uintptr
	case float32:
		return types.Float32
	case float64:
		return types.Float64
	case complex64:
		return types.Complex64
	case complex128:
		return types.Complex128
	case string, symstr:
		return types.String
	}
	return types.Invalid
}

// zero returns a new "zero" value of the specified type.
func zero(t types.Type) value {
	switch t := t.(type) {
	case *types.Basic:
		if t.Kind() == types.UntypedNil {
			panic("untyped nil has no zero value")
		}
		if t.Info()&types.IsUntyped != 0 {
			t = types.Default(t).(*types.Basic)
		}
		switch t.Kind() {
		case types.Bool:
			return false
		case types.Int:
			return int(0)
		case types.Int8:
			return int8(0)
		case types.Int16:
			return int16(0)
		case types.Int32:
			return int32(0)
		case types.Int64:
			return int64(0)
		case types.Uint:
			return uint(0)
		case types.Uint8:
			return uint8(0)
		case types.Uint16:
			return uint16(0)
		case types.Uint32:
			return uint32(0)
		case types.Uint64:
			return uint64(0)
		case types.Uintptr:
			return uintptr(0)
		case types.Float32:
			return float32(0)
		case types.Float64:
			return float64(0)
		case types.Complex64:
			return complex64(0)
		case types.Complex128:
			return complex128(0)
		case types.String:
			return ""
		case types.UnsafePointer:
			return (*value)(nil)
		default:
			panic(fmt.Sprint("zero for unexpected type:", t))
		}
	case *types.Pointer:
		return (*value)(nil)
	case *types.Array:
		a := make(array, t.Len())
		for i := range a {
			a[i] = zero(t.Elem())
		}
		return a
	case *types.Named:
		return zero(t.Underlying())
	case *types.Alias:
		return zero(types.Unalias(t))
	case *types.Interface:
		return iface{} // nil type, methodset and value
	case *types.Slice:
		return []value(nil)
	case *types.Struct:
		s := make(structure, t.NumFields())
		for i := range s {
			s[i] = zero(t.Field(i).Type())
		}
		return s
	case *types.Tuple:
		if t.Len() == 1 {
			return zero(t.At(0).Type())
		}
		s := make(tuple, t.Len())
		for i := range s {
			s[i] = zero(t.At(i).Type())
		}
		return s
	case *types.Chan:
		return (*chanv)(nil)
	case *types.Map:
		return (*hmap)(nil)
	case *types.Signature:
		return (*ssa.Function)(nil)
	case *types.TypeParam:
		panic("zero of type parameter (generics not instantiated)")
	}
	panic(fmt.Sprint("zero: unexpected ", t))
}

// slice returns x[lo:hi:max].  Any of lo, hi and max may be nil.
func slice(i *interpreter, t types.Type, x, lo, hi, max value) value {
	var Len, Cap int
	switch x := x.(type) {
	case string, symstr:
		Len = strLen(x)
		Cap = Len
	case []value:
		Len = len(x)
		Cap = cap(x)
	case *value: // *array
		a := (*i.deref(x)).(array)
		Len = len(a)
		Cap = cap(a)
	}

	l := int64(0)
	if lo != nil {
		l = i.asInt(lo)
	}
	h := int64(Len)
	if hi != nil {
		h = i.asInt(hi)
	}
	m := int64(Cap)
	if max != nil {
		m = i.asInt(max)
	}
	_, isStr := x.(string)
	if _, ok := x.(symstr); ok {
		isStr = true
	}
	limit := int64(Cap)
	if isStr {
		limit = int64(Len)
	}
	if l < 0 || h < l || m < h || m > limit {
		panic(targetPanic{i.runtimeError(fmt.Sprintf("slice bounds out of range [%d:%d:%d] with capacity %d", l, h, m, limit))})
	}

	switch x := x.(type) {
	case string, symstr:
		return strSlice(x, int(l), int(h))
	case []value:
		if x == nil {
			return []value(nil)
		}
		return x[l:h:m]
	case *value: // *array
		a := (*x).(array)
		return []value(a)[l:h:m]
	}
	panic(fmt.Sprintf("slice: unexpected X type: %T", x))
}

// lookup returns x[idx] where x is a map.
func lookup(i *interpreter, instr *ssa.Lookup, x, idx value) value {
	switch x := x.(type) {
	case *hmap:
		v, ok := x.lookup(i, idx)
		if !ok {
			v = zero(instr.X.Type().Underlying().(*types.Map).Elem())
		} else {
			v = copyVal(v)
		}
		if instr.CommaOk {
			v = tuple{v, ok}
		}
		return v
	}
	panic(fmt.Sprintf("unexpected x type in Lookup: %T", x))
}

func smtBinop(op token.Token, signed bool) string {
	switch op {
	case token.ADD:
		return "bvadd"
	case token.SUB:
		return "bvsub"
	case token.MUL:
		return "bvmul"
	case token.QUO:
		if signed {
			return "bvsdiv"
		}
		return "bvudiv"
	case token.REM:
		if signed {
			return "bvsrem"
		}
		return "bvurem"
	case token.AND:
		return "bvand"
	case token.OR:
		return "bvor"
	case token.XOR:
		return "bvxor"
	case token.SHL:
		return "bvshl"
	case token.SHR:
		if signed {
			return "bvashr"
		}
		return "bvlshr"
	case token.LSS:
		if signed {
			return "bvslt"
		}
		return "bvult"
	case token.LEQ:
		if signed {
			return "bvsle"
		}
		return "bvule"
	}
	return ""
}

// binop implements all arithmetic and logical binary operators.
// tx, ty are the static types of the operands (ty may be nil: same as tx).
func binop(i *interpreter, op token.Token, tx types.Type, x, y value) value {
	return binop2(i, op, tx, nil, x, y)
}

func binop2(i *interpreter, op token.Token, tx, ty types.Type, x, y value) value {
	// equality first
	switch op {
	case token.EQL:
		return eqnil(i, tx, x, y)
	case token.NEQ:
		return i.not(eqnil(i, tx, x, y))
	}
	// kind of the left operand
	k := valueKind(x)
	if k == types.Invalid {
		if s, ok := x.(*Sym); ok {
			if tx != nil {
				k = basicKind(tx)
			}
			if k == types.Invalid || k == types.String {
				// derive from sort (unsigned default)
				switch s.t.sort {
				case SBool:
					k = types.Bool
				case SBV8:
					k = types.Uint8
				case SBV16:
					k = types.Uint16
				case SBV32:
					k = types.Uint32
				case SBV64:
					k = types.Uint64
				case SFP64:
					k = types.Float64
				}
			}
		}
	}
	switch k {
	case types.String:
		switch op {
		case token.ADD:
			return strConcat(x, y)
		case token.LSS:
			return i.strLess(x, y)
		case token.GTR:
			return i.strLess(y, x)
		case token.LEQ:
			return i.not(i.strLess(y, x))
		case token.GEQ:
			return i.not(i.strLess(x, y))
		}
	case types.Float32:
		a, b := x.(float32), y.(float32)
		switch op {
		case token.ADD:
			return a + b
		case token.SUB:
			return a - b
		case token.MUL:
			return a * b
		case token.QUO:
			return a / b
		case token.LSS:
			return a < b
		case token.LEQ:
			return a <= b
		case token.GTR:
			return a > b
		case token.GEQ:
			return a >= b
		}
	case types.Float64:
		if !isSym(x) && !isSym(y) {
			a, b := x.(float64), y.(float64)
			switch op {
			case token.ADD:
				return a + b
			case token.SUB:
				return a - b
			case token.MUL:
				return a * b
			case token.QUO:
				return a / b
			case token.LSS:
				return a < b
			case token.LEQ:
				return a <= b
			case token.GTR:
				return a > b
			case token.GEQ:
				return a >= b
			}
		} else {
			a, b := i.term(x), i.term(y)
			switch op {
			case token.ADD:
				return &Sym{i.tc.Mk("fp.add", SFP64, a, b)}
			case token.SUB:
				return &Sym{i.tc.Mk("fp.sub", SFP64, a, b)}
			case token.MUL:
				return &Sym{i.tc.Mk("fp.mul", SFP64, a, b)}
			case token.QUO:
				return &Sym{i.tc.Mk("fp.div", SFP64, a, b)}
			case token.LSS:
				return unterm(i.tc.Mk("fp.lt", SBool, a, b), types.Bool)
			case token.LEQ:
				return unterm(i.tc.Mk("fp.leq", SBool, a, b), types.Bool)
			case token.GTR:
				return unterm(i.tc.Mk("fp.lt", SBool, b, a), types.Bool)
			case token.GEQ:
				return unterm(i.tc.Mk("fp.leq", SBool, b, a), types.Bool)
			}
		}
	case types.Complex64:
		a, b := x.(complex64), y.(complex64)
		switch op {
		case token.ADD:
			return a + b
		case token.SUB:
			return a - b
		case token.MUL:
			return a * b
		case token.QUO:
			return a / b
		}
	case types.Complex128:
		a, b := x.(complex128), y.(complex128)
		switch op {
		case token.ADD:
			return a + b
		case token.SUB:
			return a - b
		case token.MUL:
			return a * b
		case token.QUO:
			return a / b
		}
	case types.Bool:
		// only via AND/OR on bools in some SSA forms
		a, b := i.term(x), i.term(y)
		switch op {
		case token.AND, token.LAND:
			return unterm(i.tc.Mk("and", SBool, a, b), types.Bool)
		case token.OR, token.LOR:
			return unterm(i.tc.Mk("or", SBool, a, b), types.Bool)
		}
	default:
		if kindIsInt(k) {
			return intBinop(i, op, k, ty, x, y)
		}
	}
	panic(fmt.Sprintf("invalid binary op: %T %s %T (kind %v)", x, op, y, k))
}

func intBinop(i *interpreter, op token.Token, k types.BasicKind, ty types.Type, x, y value) value {
	signed := kindSigned(k)
	w := kindWidth(k)
	sort := bvSort(w)
	tx := i.term(x)
	switch op {
	case token.SHL, token.SHR:
		// shift count: own type
		yk := valueKind(y)
		if yk == types.Invalid && ty != nil {
			yk = basicKind(ty)
		}
		if yk == types.Invalid {
			yk = types.Uint64
		}
		tyv := i.term(y)
		if kindSigned(yk) {
			neg := i.tc.Mk("bvslt", SBool, tyv, i.tc.Const(tyv.sort, 0))
			if i.branch(unterm(neg, types.Bool)) {
				panic(targetPanic{i.runtimeError("negative shift amount")})
			}
		}
		// saturate the count to w, then resize to w bits
		yw := tyv.sort.Width()
		var cnt *Term
		if yw > w {
			big := i.tc.Mk("bvule", SBool, i.tc.Const(tyv.sort, uint64(w)), tyv)
			sat := i.tc.Mk("ite", tyv.sort, big, i.tc.Const(tyv.sort, uint64(w)), tyv)
			cnt = i.tc.Mk(fmt.Sprintf("extract:%d:0", w-1), sort, sat)
		} else if yw < w {
			cnt = i.tc.Mk(fmt.Sprintf("zext:%d", w-yw), sort, tyv)
		} else {
			cnt = tyv
		}
		return unterm(i.tc.Mk(smtBinop(op, signed), sort, tx, cnt), k)
	}
	tyv := i.term(y)
	if tyv.sort != tx.sort {
		panic(fmt.Sprintf("intBinop: sort mismatch %v %v for %s (kind %v, %T %T)", tx.sort, tyv.sort, op, k, x, y))
	}
	switch op {
	case token.QUO, token.REM:
		if h, ok := i.divHints[tx]; ok && tyv.IsConst() && tyv.cval == h.c {
			// x was built as q*c + r with 0 <= r < c (verifDurationParts)
			if op == token.QUO {
				return unterm(h.q, k)
			}
			return unterm(h.r, k)
		}
		isZero := i.tc.Mk("=", SBool, tyv, i.tc.Const(sort, 0))
		if i.branch(unterm(isZero, types.Bool)) {
			panic(targetPanic{i.runtimeError("integer divide by zero")})
		}
		return unterm(i.tc.Mk(smtBinop(op, signed), sort, tx, tyv), k)
	case token.ADD, token.SUB, token.MUL, token.AND, token.OR, token.XOR:
		return unterm(i.tc.Mk(smtBinop(op, signed), sort, tx, tyv), k)
	case token.AND_NOT:
		return unterm(i.tc.Mk("bvand", sort, tx, i.tc.Mk("bvnot", sort, tyv)), k)
	case token.LSS, token.LEQ:
		return unterm(i.tc.Mk(smtBinop(op, signed), SBool, tx, tyv), types.Bool)
	case token.GTR:
		return unterm(i.tc.Mk(smtBinop(token.LSS, signed), SBool, tyv, tx), types.Bool)
	case token.GEQ:
		return unterm(i.tc.Mk(smtBinop(token.LEQ, signed), SBool, tyv, tx), types.Bool)
	}
	panic(fmt.Sprintf("invalid integer binary op %s", op))
}

// eqnil returns the comparison x == y using the equivalence relation
// appropriate for type t. If t is a reference type, at most one of x or y may be nil.
func eqnil(i *interpreter, t types.Type, x, y value) value {
	switch t.Underlying().(type) {
	case *types.Map, *types.Signature, *types.Slice:
		// Since these types don't support comparison,
		// one of the operands must be a literal nil.
		switch x := x.(type) {
		case *hmap:
			return (x != nil) == (y.(*hmap) != nil)
		case *ssa.Function:
			switch y := y.(type) {
			case *ssa.Function:
				return (x != nil) == (y != nil)
			case *closure:
				return x == nil && y == nil
			}
		case *closure:
			switch y := y.(type) {
			case *ssa.Function:
				return x == nil && y == nil
			case *closure:
				return (x != nil) == (y != nil)
			}
		case *ssa.Builtin:
			return false
		case []value:
			return (x != nil) == (y.([]value) != nil)
		}
		panic(fmt.Sprintf("eqnil(%s): illegal dynamic type: %T", t, x))
	}
	return i.equals(t, x, y)
}

func unop(i *interpreter, instr *ssa.UnOp, x value) value {
	switch instr.Op {
	case token.ARROW: // receive
		v, ok := i.chanRecv(x.(*chanv), instr.X.Type().Underlying().(*types.Chan).Elem())
		if instr.CommaOk {
			v = tuple{v, ok}
		}
		return v
	case token.SUB:
		switch x := x.(type) {
		case float32:
			return -x
		case float64:
			return -x
		case complex64:
			return -x
		case complex128:
			return -x
		}
		k := valueKind(x)
		if k == types.Invalid {
			k = basicKind(instr.X.Type())
		}
		if k == types.Float64 {
			return &Sym{i.tc.Mk("fp.neg", SFP64, i.term(x))}
		}
		t := i.term(x)
		return unterm(i.tc.Mk("bvneg", t.sort, t), k)
	case token.MUL:
		return load(mustDeref(instr.X.Type()), i.deref(x))
	case token.NOT:
		return i.not(x)
	case token.XOR:
		k := valueKind(x)
		if k == types.Invalid {
			k = basicKind(instr.X.Type())
		}
		t := i.term(x)
		return unterm(i.tc.Mk("bvnot", t.sort, t), k)
	}
	panic(fmt.Sprintf("invalid unary op %s %T", instr.Op, x))
}

// typeAssert checks whether dynamic type of itf is instr.AssertedType.
func typeAssert(i *interpreter, instr *ssa.TypeAssert, itf iface) value {
	var v value
	err := ""
	if itf.t == nil {
		err = fmt.Sprintf("interface conversion: interface is nil, not %s", instr.AssertedType)
	} else if idst, ok := instr.AssertedType.Underlying().(*types.Interface); ok {
		v = itf
		err = checkInterface(i, idst, itf)
	} else if types.Identical(itf.t, instr.AssertedType) {
		v = itf.v // extract value
	} else {
		err = fmt.Sprintf("interface conversion: interface is %s, not %s", itf.t, instr.AssertedType)
	}
	if err != "" {
		if !instr.CommaOk {
			panic(targetPanic{i.runtimeError(err)})
		}
		return tuple{zero(instr.AssertedType), false}
	}
	if instr.CommaOk {
		return tuple{v, true}
	}
	return v
}

// callBuiltin interprets a call to builtin fn with arguments args.
func callBuiltin(caller *frame, callpos token.Pos, fn *ssa.Builtin, args []value) value {
	i := caller.i
	switch fn.Name() {
	case "append":
		if len(args) == 1 {
			return args[0]
		}
		switch s := args[1].(type) {
		case string, symstr:
			arg0 := args[0].([]value)
			return append(arg0, strBytes(s)...)
		}
		src := args[1].([]value)
		if len(src) == 0 {
			return args[0]
		}
		cp := make([]value, len(src))
		for k, e := range src {
			cp[k] = copyVal(e)
		}
		return append(args[0].([]value), cp...)

	case "copy": // copy([]T, []T) int or copy([]byte, string) int
		var src []value
		switch s := args[1].(type) {
		case string, symstr:
			src = strBytes(s)
		default:
			src = s.([]value)
		}
		dst := args[0].([]value)
		n := len(src)
		if len(dst) < n {
			n = len(dst)
		}
		// overlapping-safe copy with deep copy of aggregates
		tmp := make([]value, n)
		for k := 0; k < n; k++ {
			tmp[k] = copyVal(src[k])
		}
		copy(dst, tmp)
		return n

	case "close": // close(chan T)
		i.chanClose(args[0].(*chanv))
		return nil

	case "delete": // delete(map[K]value, K)
		args[0].(*hmap).delete(i, args[1])
		return nil

	case "clear":
		switch x := args[0].(type) {
		case *hmap:
			x.clear()
		case []value:
			if len(x) > 0 {
				sl := fn.Type().(*types.Signature).Params().At(0).Type().Underlying().(*types.Slice)
				for k := range x {
					x[k] = zero(sl.Elem())
				}
			}
		}
		return nil

	case "print", "println": // print(any, ...)
		ln := fn.Name() == "println"
		var buf bytes.Buffer
		for k, arg := range args {
			if k > 0 && ln {
				buf.WriteRune(' ')
			}
			buf.WriteString(toString(arg))
		}
		if ln {
			buf.WriteRune('\n')
		}
		os.Stderr.Write(buf.Bytes())
		return nil

	case "len":
		switch x := args[0].(type) {
		case string, symstr:
			return strLen(x)
		case array:
			return len(x)
		case *value:
			if x == nil {
				// len of nil *array is the static array length
				at := fn.Type().(*types.Signature).Params().At(0).Type().Underlying().(*types.Pointer).Elem().Underlying().(*types.Array)
				return int(at.Len())
			}
			return len((*x).(array))
		case []value:
			return len(x)
		case *hmap:
			return x.len()
		case *chanv:
			if x == nil {
				return 0
			}
			return len(x.buf)
		default:
			panic(fmt.Sprintf("len: illegal operand: %T", x))
		}

	case "cap":
		switch x := args[0].(type) {
		case array:
			return cap(x)
		case *value:
			return cap((*x).(array))
		case []value:
			return cap(x)
		case *chanv:
			if x == nil {
				return 0
			}
			return x.cap
		default:
			panic(fmt.Sprintf("cap: illegal operand: %T", x))
		}

	case "min":
		t := fn.Type().(*types.Signature).Params().At(0).Type()
		x := args[0]
		for _, a := range args[1:] {
			x = i.minmax(t, x, a, true)
		}
		return x
	case "max":
		t := fn.Type().(*types.Signature).Params().At(0).Type()
		x := args[0]
		for _, a := range args[1:] {
			x = i.minmax(t, x, a, false)
		}
		return x

	case "real":
		switch c := args[0].(type) {
		case complex64:
			return real(c)
		case complex128:
			return real(c)
		}
	case "imag":
		switch c := args[0].(type) {
		case complex64:
			return imag(c)
		case complex128:
			return imag(c)
		}
	case "complex":
		switch f := args[0].(type) {
		case float32:
			return complex(f, args[1].(float32))
		case float64:
			return complex(f, args[1].(float64))
		}

	case "panic":
		panic(targetPanic{args[0]})

	case "recover":
		return doRecover(caller)

	case "ssa:wrapnilchk":
		recv := args[0]
		if recv.(*value) == nil {
			recvType := args[1]
			methodName := args[2]
			panic(targetPanic{i.runtimeError(fmt.Sprintf("value method (%s).%s called using nil *%s pointer",
				recvType, methodName, recvType))})
		}
		return recv

	case "ssa:deferstack":
		return &caller.defers

	case "String": // unsafe.String(ptr, len)
		p := args[0].(*value)
		n := int(i.asInt(args[1]))
		if n == 0 {
			return ""
		}
		sl := i.sliceFromElemPtr(p, n)
		return mkStr(sl)
	case "StringData":
		// pointer to the first byte: give a pointer into a fresh copy
		b := strBytes(args[0])
		if len(b) == 0 {
			return (*value)(nil)
		}
		i.elemOwners[&b[0]] = b
		return &b[0]
	case "Slice": // unsafe.Slice(ptr, len)
		p := args[0].(*value)
		n := int(i.asInt(args[1]))
		if p == nil {
			return []value(nil)
		}
		return i.sliceFromElemPtr(p, n)
	case "SliceData":
		s := args[0].([]value)
		if cap(s) == 0 {
			return (*value)(nil)
		}
		s = s[:1]
		i.elemOwners[&s[0]] = s[:1:cap(s)]
		return &s[0]
	}

	panic("unknown built-in: " + fn.Name())
}

// sliceFromElemPtr recovers a slice from a pointer to its first element, which is
// possible only for pointers produced by SliceData/StringData in this path.
func (i *interpreter) sliceFromElemPtr(p *value, n int) []value {
	if own, ok := i.elemOwners[p]; ok {
		own = own[:cap(own)]
		if n <= len(own) {
			return own[:n]
		}
	}
	if n == 1 {
		// a pointer to a single variable
		s := unsafe.Slice(p, 1)
		return s
	}
	panic(pathAbort{kind: abortUnsupported, msg: "unsafe.Slice/String on a pointer of unknown provenance"})
}

func (i *interpreter) minmax(t types.Type, x, y value, isMin bool) value {
	if !isSym(x) && !isSym(y) {
		switch a := x.(type) {
		case float64:
			if isMin {
				return math.Min(a, y.(float64))
			}
			return math.Max(a, y.(float64))
		case float32:
			if isMin {
				return float32(math.Min(float64(a), float64(y.(float32))))
			}
			return float32(math.Max(float64(a), float64(y.(float32))))
		}
	}
	var c value
	if isMin {
		c = binop(i, token.LSS, t, y, x)
	} else {
		c = binop(i, token.GTR, t, y, x)
	}
	if b, ok := c.(bool); ok {
		if b {
			return y
		}
		return x
	}
	if _, ok := x.(string); ok || valueKind(x) == types.String {
		if i.branch(c) {
			return y
		}
		return x
	}
	tx, ty := i.term(x), i.term(y)
	k := valueKind(x)
	if k == types.Invalid {
		k = valueKind(y)
	}
	if k == types.Invalid {
		k = basicKind(t)
	}
	return unterm(i.tc.Mk("ite", tx.sort, i.term(c), ty, tx), k)
}

func rangeIter(i *interpreter, x value, t types.Type) iter {
	switch x := x.(type) {
	case *hmap:
		return &mapIter{m: x}
	case string, symstr:
		return &stringIter{i: i, s: x}
	}
	panic(fmt.Sprintf("cannot range over %T", x))
}

// conv converts the value x of type t_src to type t_dst and returns the result.
func conv(i *interpreter, t_dst, t_src types.Type, x value) value {
	ut_src := t_src.Underlying()
	ut_dst := t_dst.Underlying()

	switch ut_src := ut_src.(type) {
	case *types.Pointer:
		switch ut_dst := ut_dst.(type) {
		case *types.Basic:
			if ut_dst.Kind() == types.UnsafePointer {
				return x // unsafe.Pointer is represented by the *value itself
			}
		case *types.Pointer:
			return x
		}

	case *types.Slice:
		// []byte or []rune -> string
		if _, ok := ut_dst.(*types.Slice); ok {
			return x
		}
		switch ut_src.Elem().Underlying().(*types.Basic).Kind() {
		case types.Byte:
			return mkStr(x.([]value))
		case types.Rune:
			xs := x.([]value)
			r := make([]rune, 0, len(xs))
			for k := range xs {
				r = append(r, i.concretize(xs[k], types.Int32).(int32))
			}
			return string(r)
		}

	case *types.Basic:
		dk := types.Invalid
		if b, ok := ut_dst.(*types.Basic); ok {
			dk = b.Kind()
		}
		sk := basicKind(t_src)

		// unsafe.Pointer -> *T : identity on the boxed pointer
		if sk == types.UnsafePointer {
			if _, ok := ut_dst.(*types.Pointer); ok {
				return x
			}
			if dk == types.UnsafePointer {
				return x
			}
			if dk == types.Uintptr {
				if p, ok := x.(*value); ok {
					return uintptr(unsafe.Pointer(p))
				}
			}
		}
		if sk == types.Uintptr && dk == types.UnsafePointer {
			panic(pathAbort{kind: abortUnsupported, msg: "uintptr -> unsafe.Pointer conversion"})
		}

		// integer -> string?
		if ut_src.Info()&types.IsInteger != 0 && dk == types.String {
			r := i.asInt(x)
			return string(rune(r))
		}

		// string -> []rune, []byte or string?
		if sk == types.String {
			switch ut_dst := ut_dst.(type) {
			case *types.Slice:
				switch ut_dst.Elem().Underlying().(*types.Basic).Kind() {
				case types.Rune:
					var res []value
					it := &stringIter{i: i, s: x}
					for {
						t := it.next()
						if !t[0].(bool) {
							break
						}
						res = append(res, t[2])
					}
					return res
				case types.Byte:
					b := strBytes(x)
					if len(b) == 0 {
						return []value{}
					}
					return b
				}
			case *types.Basic:
				if ut_dst.Kind() == types.String {
					return x
				}
			}
			break
		}

		if ut_src.Info()&types.IsComplex != 0 {
			var c complex128
			switch x := x.(type) {
			case complex64:
				c = complex128(x)
			case complex128:
				c = x
			}
			switch dk {
			case types.Complex64:
				return complex64(c)
			case types.Complex128:
				return c
			}
			break
		}

		if ut_src.Info()&types.IsNumeric != 0 {
			return convNumeric(i, dk, sk, x)
		}
		if sk == types.Bool && dk == types.Bool {
			return x
		}
	}

	panic(fmt.Sprintf("unsupported conversion: %s  -> %s, dynamic type %T", t_src, t_dst, x))
}

func convNumeric(i *interpreter, dk, sk types.BasicKind, x value) value {
	if s, ok := x.(*Sym); ok {
		t := s.t
		if t.sort == SFP64 {
			switch {
			case dk == types.Float64:
				return x
			case kindIsInt(dk):
				w := kindWidth(dk)
				op := "fp.to_ubv:"
				if kindSigned(dk) {
					op = "fp.to_sbv:"
				}
				return &Sym{i.tc.Mk(fmt.Sprintf("%s%d", op, w), bvSort(w), t)}
			}
			panic("unsupported symbolic float conversion")
		}
		sw := t.sort.Width()
		switch {
		case dk == types.Float64:
			if kindSigned(sk) {
				return &Sym{i.tc.Mk("fp.from_sbv", SFP64, t)}
			}
			return &Sym{i.tc.Mk("fp.from_ubv", SFP64, t)}
		case kindIsInt(dk):
			dw := kindWidth(dk)
			switch {
			case dw == sw:
				return x
			case dw < sw:
				return unterm(i.tc.Mk(fmt.Sprintf("extract:%d:0", dw-1), bvSort(dw), t), dk)
			case kindSigned(sk):
				return unterm(i.tc.Mk(fmt.Sprintf("sext:%d", dw-sw), bvSort(dw), t), dk)
			default:
				return unterm(i.tc.Mk(fmt.Sprintf("zext:%d", dw-sw), bvSort(dw), t), dk)
			}
		}
		panic(fmt.Sprintf("unsupported symbolic conversion to %v", dk))
	}
	// concrete
	switch v := x.(type) {
	case float32:
		return convFloat(dk, float64(v))
	case float64:
		return convFloat(dk, v)
	}
	bits, _, ok := rawBits(x)
	if !ok {
		panic(fmt.Sprintf("convNumeric: %T", x))
	}
	vk := valueKind(x)
	if kindSigned(vk) {
		sv := sext(bits, kindWidth(vk))
		switch dk {
		case types.Float32:
			return float32(sv)
		case types.Float64:
			return float64(sv)
		}
		return mkInt(dk, uint64(sv))
	}
	switch dk {
	case types.Float32:
		return float32(bits)
	case types.Float64:
		return float64(bits)
	}
	return mkInt(dk, bits)
}

func convFloat(dk types.BasicKind, f float64) value {
	switch dk {
	case types.Float32:
		return float32(f)
	case types.Float64:
		return f
	case types.Int:
		return int(f)
	case types.Int8:
		return int8(f)
	case types.Int16:
		return int16(f)
	case types.Int32:
		return int32(f)
	case types.Int64:
		return int64(f)
	case types.Uint:
		return uint(f)
	case types.Uint8:
		return uint8(f)
	case types.Uint16:
		return uint16(f)
	case types.Uint32:
		return uint32(f)
	case types.Uint64:
		return uint64(f)
	case types.Uintptr:
		return uintptr(f)
	}
	panic("convFloat")
}

// sliceToArrayPointer converts the value x of type slice to a pointer to array.
func sliceToArrayPointer(i *interpreter, t_dst, t_src types.Type, x value) value {
	if _, ok := t_src.Underlying().(*types.Slice); ok {
		if ptr, ok := t_dst.Underlying().(*types.Pointer); ok {
			if arr, ok := ptr.Elem().Underlying().(*types.Array); ok {
				x := x.([]value)
				if arr.Len() > int64(len(x)) {
					panic(targetPanic{i.runtimeError("cannot convert slice with length to array or pointer to array with greater length")})
				}
				if x == nil {
					return zero(t_dst)
				}
				v := value(array(x[:arr.Len():arr.Len()]))
				return &v
			}
		}
	}
	panic(fmt.Sprintf("unsupported conversion: %s  -> %s, dynamic type %T", t_src, t_dst, x))
}

// checkInterface checks that the method set of x implements the interface itype.
func checkInterface(i *interpreter, itype *types.Interface, x iface) string {
	if meth, _ := types.MissingMethod(x.t, itype, true); meth != nil {
		return fmt.Sprintf("interface conversion: %v is not %v: missing method %s",
			x.t, itype, meth.Name())
	}
	return "" // ok
}
