// Derived from golang.org/x/tools/go/ssa/interp (BSD-style license, The Go Authors).

// Package symgo is a symbolic interpreter for the SSA form of Go programs:
// scalars may be SMT terms, the heap shape is concrete, control decisions on
// symbolic values fork the path (forking by deterministic re-execution of a
// decision script).
package symgo

import (
	"fmt"
	"go/token"
	"go/types"
	"os"
	"runtime"
	"slices"
	"strings"
	"sync"

	"golang.org/x/tools/go/ssa"
)

type continuation int

const (
	kNext continuation = iota
	kReturn
	kJump
)

// interpreter is the state of one path.
type interpreter struct {
	eng      *Engine
	h        *Harness
	prog     *ssa.Program
	tc       *TermCtx
	solver   *Solver
	globals  map[*ssa.Global]*value
	pkgInit  map[*ssa.Package]int // 1 = initialising, 2 = done
	inInit   int
	sizes    types.Sizes
	tracing  bool
	steps    int64
	maxSteps int64

	// decision script
	script   []Decision
	pos      int
	newAlts  [][]Decision
	unknowns int

	// nondeterministic inputs
	nondets []nondetRec

	// results
	res *PathResult

	// threads
	threads  []*thread
	cur      *thread
	dead     chan struct{}
	switches int

	// models of sync objects
	mutexes map[*value]*mutexState
	conds   map[*value]*condState
	wgs     map[*value]*wgState
	onces   map[*value]bool
	pools   map[*value]*poolState
	poolMode int
	clock   *Term // last clock reading (monotone), nil if none

	funcsEncoded map[*ssa.Function]bool
	errorStringT types.Type
	callDepth    int
	pendingPanic interface{}
	bigSlices    [][]value
	hashStreams  map[*value]*[]value
	hashCalls    []hashCall
	shaCalls     []ufCall
	randCounter  int
	divHints     map[*Term]divHint
	model        map[string]uint64
	modelOK      bool
	pcSet        map[*Term]bool
	noExtOnce    *ssa.Function
	fixedClock    value
	hasFixedClock bool
	elemOwners   map[*value][]value
	uniques      map[string]*value
}

type divHint struct {
	c    uint64
	q, r *Term
}

type deferred struct {
	fn    value
	args  []value
	instr *ssa.Defer
	tail  *deferred
}

type frame struct {
	i                *interpreter
	caller           *frame
	fn               *ssa.Function
	block, prevBlock *ssa.BasicBlock
	env              []value // dynamic values of SSA variables, indexed by fnInfo.index
	info             *fnInfo
	locals           []value
	defers           *deferred
	result           value
	panicking        bool
	panic            interface{}
	phitemps         []value
}

// fnInfo numbers the SSA values of a function (computed once, shared by all paths).
type fnInfo struct {
	index map[ssa.Value]int
	n     int
}

var fnInfos sync.Map // *ssa.Function -> *fnInfo

func infoOf(fn *ssa.Function) *fnInfo {
	if v, ok := fnInfos.Load(fn); ok {
		return v.(*fnInfo)
	}
	fi := &fnInfo{index: map[ssa.Value]int{}}
	add := func(v ssa.Value) {
		if _, ok := fi.index[v]; !ok {
			fi.index[v] = fi.n
			fi.n++
		}
	}
	for _, l := range fn.Locals {
		add(l)
	}
	for _, p := range fn.Params {
		add(p)
	}
	for _, fv := range fn.FreeVars {
		add(fv)
	}
	for _, b := range fn.Blocks {
		for _, in := range b.Instrs {
			if v, ok := in.(ssa.Value); ok {
				add(v)
			}
		}
	}
	v, _ := fnInfos.LoadOrStore(fn, fi)
	return v.(*fnInfo)
}

// nilValue marks an SSA value whose dynamic value is Go nil (e.g. a call without results).
type nilValue struct{}

func (fr *frame) set(key ssa.Value, v value) {
	if v == nil {
		v = nilValue{}
	}
	fr.env[fr.info.index[key]] = v
}

func (fr *frame) get(key ssa.Value) value {
	switch key := key.(type) {
	case nil:
		return nil
	case *ssa.Function, *ssa.Builtin:
		return key
	case *ssa.Const:
		return constValue(key)
	case *ssa.Global:
		return fr.i.global(key)
	}
	if ix, ok := fr.info.index[key]; ok {
		if r := fr.env[ix]; r != nil {
			if _, isNil := r.(nilValue); isNil {
				return nil
			}
			return r
		}
	}
	panic(fmt.Sprintf("get: no value for %T: %v in %s", key, key.Name(), fr.fn))
}

// global returns the address of a global, initialising its package lazily.
func (i *interpreter) global(g *ssa.Global) *value {
	if r, ok := i.globals[g]; ok {
		return r
	}
	pkg := g.Pkg
	i.initPackage(pkg)
	if r, ok := i.globals[g]; ok {
		return r
	}
	cell := zero(mustDeref(g.Type()))
	i.globals[g] = &cell
	return &cell
}

func (i *interpreter) initPackage(pkg *ssa.Package) {
	if i.pkgInit[pkg] != 0 {
		return
	}
	i.pkgInit[pkg] = 1
	for _, m := range pkg.Members {
		if g, ok := m.(*ssa.Global); ok {
			cell := zero(mustDeref(g.Type()))
			i.globals[g] = &cell
		}
	}
	path := pkg.Pkg.Path()
	if i.eng.skipInit(path) {
		i.pkgInit[pkg] = 2
		return
	}
	if sh := i.eng.sharedInit(i, pkg); sh {
		i.pkgInit[pkg] = 2
		return
	}
	if init := pkg.Func("init"); init != nil && init.Blocks != nil {
		i.inInit++
		depth := i.callDepth
		func() {
			defer func() {
				if p := recover(); p != nil {
					if _, isTP := p.(targetPanic); isTP {
						// permissive initialisation: see callSSA
						i.callDepth = depth
						return
					}
					panic(p)
				}
			}()
			call(i, nil, token.NoPos, init, nil)
		}()
		i.inInit--
	}
	i.pkgInit[pkg] = 2
}

// runDefer runs a deferred call d.
func (fr *frame) runDefer(d *deferred) {
	var ok bool
	defer func() {
		if !ok {
			p := recover()
			if isEnginePanic(p) {
				panic(p)
			}
			fr.panicking = true
			fr.panic = p
		}
	}()
	call(fr.i, fr, d.instr.Pos(), d.fn, d.args)
	ok = true
}

func (fr *frame) runDefers() {
	for d := fr.defers; d != nil; d = d.tail {
		fr.runDefer(d)
	}
	fr.defers = nil
	if fr.panicking {
		panic(fr.panic) // new panic, or still panicking
	}
}

func lookupMethod(i *interpreter, typ types.Type, meth *types.Func) *ssa.Function {
	return i.prog.LookupMethod(typ, meth.Pkg(), meth.Name())
}

func (i *interpreter) step(fr *frame) {
	i.steps++
	if i.steps > i.maxSteps {
		panic(pathAbort{kind: abortBudget, msg: fmt.Sprintf("step budget %d exceeded in %s", i.maxSteps, fr.fn)})
	}
}

// visitInstr interprets a single ssa.Instruction within the activation record frame.
func visitInstr(fr *frame, instr ssa.Instruction) continuation {
	i := fr.i
	i.step(fr)
	switch instr := instr.(type) {
	case *ssa.DebugRef:
		// no-op

	case *ssa.UnOp:
		fr.set(instr, unop(i, instr, fr.get(instr.X)))

	case *ssa.BinOp:
		fr.set(instr, binop(i, instr.Op, instr.X.Type(), fr.get(instr.X), fr.get(instr.Y)))

	case *ssa.Call:
		fn, args := prepareCall(fr, &instr.Call)
		fr.set(instr, call(fr.i, fr, instr.Pos(), fn, args))

	case *ssa.ChangeInterface:
		fr.set(instr, fr.get(instr.X))

	case *ssa.ChangeType:
		fr.set(instr, fr.get(instr.X)) // (cannot fail)

	case *ssa.Convert:
		fr.set(instr, conv(i, instr.Type(), instr.X.Type(), fr.get(instr.X)))

	case *ssa.MultiConvert:
		fr.set(instr, conv(i, instr.Type(), instr.X.Type(), fr.get(instr.X)))

	case *ssa.SliceToArrayPointer:
		fr.set(instr, sliceToArrayPointer(i, instr.Type(), instr.X.Type(), fr.get(instr.X)))

	case *ssa.MakeInterface:
		fr.set(instr, iface{t: instr.X.Type(), v: fr.get(instr.X)})

	case *ssa.Extract:
		fr.set(instr, fr.get(instr.Tuple).(tuple)[instr.Index])

	case *ssa.Slice:
		fr.set(instr, slice(i, instr.X.Type(), fr.get(instr.X), fr.get(instr.Low), fr.get(instr.High), fr.get(instr.Max)))

	case *ssa.Return:
		switch len(instr.Results) {
		case 0:
		case 1:
			fr.result = fr.get(instr.Results[0])
		default:
			var res []value
			for _, r := range instr.Results {
				res = append(res, fr.get(r))
			}
			fr.result = tuple(res)
		}
		fr.block = nil
		return kReturn

	case *ssa.RunDefers:
		fr.runDefers()

	case *ssa.Panic:
		panic(targetPanic{fr.get(instr.X)})

	case *ssa.Send:
		i.chanSend(fr.get(instr.Chan).(*chanv), fr.get(instr.X))

	case *ssa.Store:
		store(mustDeref(instr.Addr.Type()), i.deref(fr.get(instr.Addr)), fr.get(instr.Val))

	case *ssa.If:
		succ := 1
		if i.branch(fr.get(instr.Cond)) {
			succ = 0
		}
		fr.prevBlock, fr.block = fr.block, fr.block.Succs[succ]
		return kJump

	case *ssa.Jump:
		fr.prevBlock, fr.block = fr.block, fr.block.Succs[0]
		return kJump

	case *ssa.Defer:
		fn, args := prepareCall(fr, &instr.Call)
		defers := &fr.defers
		if into := fr.get(instr.DeferStack); into != nil {
			defers = into.(**deferred)
		}
		*defers = &deferred{
			fn:    fn,
			args:  args,
			instr: instr,
			tail:  *defers,
		}

	case *ssa.Go:
		fn, args := prepareCall(fr, &instr.Call)
		i.spawn(fn, args, instr.Pos())

	case *ssa.MakeChan:
		fr.set(instr, &chanv{cap: int(i.asInt(fr.get(instr.Size)))})

	case *ssa.Alloc:
		var addr *value
		if instr.Heap {
			addr = new(value)
			fr.set(instr, addr)
		} else {
			addr = fr.get(instr).(*value)
		}
		*addr = zero(mustDeref(instr.Type()))

	case *ssa.MakeSlice:
		n := i.asInt(fr.get(instr.Cap))
		l := i.asInt(fr.get(instr.Len))
		if l < 0 || n < 0 || l > n {
			panic(targetPanic{i.runtimeError("makeslice: len out of range")})
		}
		if n > 1<<24 {
			panic(pathAbort{kind: abortUnsupported, msg: fmt.Sprintf("make slice of %d elements", n)})
		}
		slice := i.allocSlice(int(n))
		tElt := instr.Type().Underlying().(*types.Slice).Elem()
		z := zero(tElt)
		switch z.(type) {
		case structure, array:
			for k := range slice {
				slice[k] = zero(tElt)
			}
		default:
			fillZero(slice, z)
		}
		fr.set(instr, slice[:l])

	case *ssa.MakeMap:
		fr.set(instr, makeMap(instr.Type().Underlying().(*types.Map).Key()))

	case *ssa.Range:
		fr.set(instr, rangeIter(i, fr.get(instr.X), instr.X.Type()))

	case *ssa.Next:
		fr.set(instr, fr.get(instr.Iter).(iter).next())

	case *ssa.FieldAddr:
		p := i.deref(fr.get(instr.X))
		fr.set(instr, &(*p).(structure)[instr.Field])

	case *ssa.Field:
		fr.set(instr, fr.get(instr.X).(structure)[instr.Field])

	case *ssa.IndexAddr:
		x := fr.get(instr.X)
		switch x := x.(type) {
		case []value:
			idx := i.index(fr.get(instr.Index), len(x))
			if idx == 0 {
				// remember the slice behind &s[0] for unsafe.String/unsafe.Slice
				i.elemOwners[&x[0]] = x
			}
			fr.set(instr, &x[idx])
		case *value: // *array
			a := (*i.deref(x)).(array)
			idx := i.index(fr.get(instr.Index), len(a))
			fr.set(instr, &a[idx])
		default:
			panic(fmt.Sprintf("unexpected x type in IndexAddr: %T", x))
		}

	case *ssa.Index:
		x := fr.get(instr.X)
		switch x := x.(type) {
		case array:
			idx := i.index(fr.get(instr.Index), len(x))
			fr.set(instr, copyVal(x[idx]))
		case string, symstr:
			idx := i.index(fr.get(instr.Index), strLen(x))
			fr.set(instr, strAt(x, idx))
		default:
			panic(fmt.Sprintf("unexpected x type in Index: %T", x))
		}

	case *ssa.Lookup:
		fr.set(instr, lookup(i, instr, fr.get(instr.X), fr.get(instr.Index)))

	case *ssa.MapUpdate:
		m := fr.get(instr.Map).(*hmap)
		m.insert(i, copyVal(fr.get(instr.Key)), copyVal(fr.get(instr.Value)))

	case *ssa.TypeAssert:
		fr.set(instr, typeAssert(fr.i, instr, fr.get(instr.X).(iface)))

	case *ssa.MakeClosure:
		var bindings []value
		for _, binding := range instr.Bindings {
			bindings = append(bindings, fr.get(binding))
		}
		fr.set(instr, &closure{instr.Fn.(*ssa.Function), bindings})

	case *ssa.Phi:
		panic("unreachable") // phis are processed at block entry

	case *ssa.Select:
		fr.set(instr, i.doSelect(fr, instr))

	default:
		panic(fmt.Sprintf("unexpected instruction: %T", instr))
	}
	return kNext
}

// deref checks a pointer for nil before use.
func (i *interpreter) deref(p value) *value {
	pp, ok := p.(*value)
	if !ok {
		panic(fmt.Sprintf("deref of %T", p))
	}
	if pp == nil {
		panic(targetPanic{i.runtimeError("invalid memory address or nil pointer dereference")})
	}
	return pp
}

// index returns a concrete in-range index, forking on symbolic indices; out of range panics.
func (i *interpreter) index(idx value, n int) int {
	if s, ok := idx.(*Sym); ok {
		// in range?
		w := s.t.sort.Width()
		var inRange *Term
		if w < 64 && uint64(n) > mask(w) {
			inRange = i.tc.Bool(true) // every value of the index type is in range
		} else {
			inRange = i.tc.Mk("bvult", SBool, s.t, i.tc.Const(s.t.sort, uint64(n)))
		}
		if !i.branch(unterm(inRange, types.Bool)) {
			panic(targetPanic{i.runtimeError(fmt.Sprintf("index out of range [sym] with length %d", n))})
		}
		return int(i.asInt(idx))
	}
	k := asInt64(idx)
	if k < 0 || k >= int64(n) {
		panic(targetPanic{i.runtimeError(fmt.Sprintf("index out of range [%d] with length %d", k, n))})
	}
	return int(k)
}

// prepareCall determines the function value and argument values for a call.
func prepareCall(fr *frame, call *ssa.CallCommon) (fn value, args []value) {
	v := fr.get(call.Value)
	if call.Method == nil {
		fn = v
	} else {
		recv := v.(iface)
		if recv.t == nil {
			if p := call.Method.Pkg(); p != nil && fr.i.eng.noop(p.Path()) {
				// metrics/logging interface left nil by a skipped package init
				sig := call.Method.Type().(*types.Signature)
				return &nativeFn{name: "noop", f: func(i *interpreter, args []value) value { return zeroResult(sig) }}, nil
			}
			panic(targetPanic{fr.i.runtimeError("invalid memory address or nil pointer dereference (method on nil interface)")})
		}
		if f := lookupMethod(fr.i, recv.t, call.Method); f == nil {
			panic(fmt.Sprintf("method set for dynamic type %v does not contain %s", recv.t, call.Method))
		} else {
			fn = f
		}
		args = append(args, recv.v)
	}
	for _, arg := range call.Args {
		args = append(args, fr.get(arg))
	}
	return
}

// call interprets a call to a function (function, builtin or closure).
func call(i *interpreter, caller *frame, callpos token.Pos, fn value, args []value) value {
	switch fn := fn.(type) {
	case *ssa.Function:
		if fn == nil {
			panic(targetPanic{i.runtimeError("invalid memory address or nil pointer dereference (call of nil func)")})
		}
		return callSSA(i, caller, callpos, fn, args, nil)
	case *closure:
		return callSSA(i, caller, callpos, fn.Fn, args, fn.Env)
	case *ssa.Builtin:
		return callBuiltin(caller, callpos, fn, args)
	case *nativeFn:
		return fn.f(i, args)
	}
	panic(fmt.Sprintf("cannot call %T", fn))
}

func loc(fset *token.FileSet, pos token.Pos) string {
	if pos == token.NoPos {
		return ""
	}
	return " at " + fset.Position(pos).String()
}

func fnKey(fn *ssa.Function) string {
	if o := fn.Origin(); o != nil {
		return o.String()
	}
	return fn.String()
}

// callSSA interprets a call to function fn.
func callSSA(i *interpreter, caller *frame, callpos token.Pos, fn *ssa.Function, args []value, env []value) value {
	if st := i.eng.stubFor(fn, i.h); st != nil {
		fn = st
	} else if fn.Origin() != nil {
		if st := i.eng.stubFor(fn.Origin(), i.h); st != nil {
			fn = st
		}
	}
	if i.tracing {
		fmt.Fprintf(os.Stderr, "%*sEntering %s%s\n", i.callDepth, "", fn, loc(fn.Prog.Fset, fn.Pos()))
	}
	fr := &frame{
		i:      i,
		caller: caller, // for panic/recover
		fn:     fn,
	}
	if fn.Parent() == nil {
		name := fnKey(fn)
		if i.noExtOnce == fn {
			i.noExtOnce = nil
		} else if ext := externals[name]; ext != nil {
			return ext(fr, args)
		}
		if ext := i.eng.extraExternals[name]; ext != nil {
			return ext(fr, args)
		}
		if fn.Blocks == nil {
			if ext := harnessExternals[fn.Name()]; ext != nil {
				return ext(fr, args)
			}
		}
		if fn.Pkg != nil && i.pkgInit[fn.Pkg] == 0 && fn.Name() == "init" && fn.Signature.Recv() == nil && caller != nil && caller.fn.Name() == "init" {
			// import init called from another init: lazy, skip.
			return nil
		}
		if strings.HasPrefix(name, "(time.Time).") || strings.HasPrefix(name, "(*time.Time).") || strings.HasPrefix(name, "(*time.Timer).") || strings.HasPrefix(name, "(*time.Ticker).") ||
			name == "time.NewTimer" || name == "time.NewTicker" || name == "time.After" || name == "time.AfterFunc" || name == "time.Tick" || name == "time.Date" || name == "time.Parse" {
			if i.inInit > 0 {
				return zeroResult(fn.Signature)
			}
			panic(pathAbort{kind: abortUnsupported, msg: "no model for time function: " + name + callerChain(caller)})
		}
		if i.eng.NoopFuncs[name] {
			return zeroResult(fn.Signature)
		}
		if pp := pkgPathOf(fn); pp != "" && i.eng.noop(pp) {
			return zeroResult(fn.Signature)
		}
		if fn.Blocks == nil || (i.inInit == 0 && fn.Pkg != nil && i.eng.opaque(fn.Pkg.Pkg.Path())) {
			if i.inInit > 0 {
				return zeroResult(fn.Signature)
			}
			panic(pathAbort{kind: abortUnsupported, msg: "no model for function: " + name + callerChain(caller)})
		}
	}
	if fn.Blocks == nil {
		panic(pathAbort{kind: abortUnsupported, msg: "no code for function: " + fn.String()})
	}

	if fn.TypeParams().Len() > 0 && len(fn.TypeArgs()) == 0 {
		panic("symgo requires InstantiateGenerics")
	}
	i.callDepth++
	if i.callDepth > 2000 {
		panic(pathAbort{kind: abortBudget, msg: "call depth exceeded in " + fn.String()})
	}
	if i.funcsEncoded != nil && i.inInit == 0 {
		i.funcsEncoded[fn] = true
	}

	fr.info = infoOf(fn)
	fr.env = make([]value, fr.info.n)
	fr.block = fn.Blocks[0]
	fr.locals = make([]value, len(fn.Locals))
	for k, l := range fn.Locals {
		fr.locals[k] = zero(mustDeref(l.Type()))
		fr.set(l, &fr.locals[k])
	}
	for k, p := range fn.Params {
		fr.set(p, args[k])
	}
	for k, fv := range fn.FreeVars {
		fr.set(fv, env[k])
	}
	if i.inInit > 0 && caller != nil {
		// permissive mode: an unsupported operation inside a package initialiser
		// makes the enclosing call return zero values.
		depth := i.callDepth
		ok := false
		func() {
			defer func() {
				if ok {
					return
				}
				p := recover()
				if pa, isPA := p.(pathAbort); isPA && (pa.kind == abortUnsupported || pa.kind == abortInternal) {
					i.callDepth = depth
					fr.result = zeroResult(fn.Signature)
					fr.block = nil
					return
				}
				if _, isTP := p.(targetPanic); isTP {
					// a panic that follows from an earlier unsupported operation of the
					// initialiser (e.g. a method call on the zero value it returned)
					i.callDepth = depth
					fr.result = zeroResult(fn.Signature)
					fr.block = nil
					return
				}
				panic(p)
			}()
			for fr.block != nil {
				runFrame(fr)
			}
			ok = true
		}()
		i.callDepth--
		return fr.result
	}
	for fr.block != nil {
		runFrame(fr)
	}
	i.callDepth--
	return fr.result
}

// callSSANoExt interprets fn from its SSA even if a native model exists.
func callSSANoExt(i *interpreter, caller *frame, fn *ssa.Function, args []value) value {
	i.noExtOnce = fn
	return callSSA(i, caller.caller, token.NoPos, fn, args, nil)
}

func callerChain(fr *frame) string {
	var sb strings.Builder
	for n := 0; fr != nil && n < 6; n++ {
		sb.WriteString(" <- ")
		sb.WriteString(fr.fn.String())
		fr = fr.caller
	}
	return sb.String()
}

func zeroResult(sig *types.Signature) value {
	res := sig.Results()
	switch res.Len() {
	case 0:
		return nil
	case 1:
		return zero(res.At(0).Type())
	}
	t := make(tuple, res.Len())
	for k := range t {
		t[k] = zero(res.At(k).Type())
	}
	return t
}

// runFrame executes SSA instructions starting at fr.block and
// continuing until a return, a panic, or a recovered panic.
func runFrame(fr *frame) {
	depth := fr.i.callDepth
	defer func() {
		if fr.block == nil {
			return // normal return
		}
		p := recover()
		if isEnginePanic(p) {
			panic(p)
		}
		if re, ok := p.(runtime.Error); ok {
			// interpreter bug or host runtime error: not a target panic.
			buf := make([]byte, 1<<14)
			n := runtime.Stack(buf, false)
			panic(pathAbort{kind: abortInternal, msg: fmt.Sprintf("interpreter runtime error in %s: %v\n%s", fr.fn, re, buf[:n])})
		}
		if s, ok := p.(string); ok {
			buf := make([]byte, 1<<13)
			n := runtime.Stack(buf, false)
			panic(pathAbort{kind: abortInternal, msg: fmt.Sprintf("interpreter panic in %s: %s\n%s", fr.fn, s, buf[:n])})
		}
		fr.i.callDepth = depth
		fr.panicking = true
		fr.panic = p
		fr.runDefers()
		fr.block = fr.fn.Recover
		if fr.block == nil {
			// recovered in a function without named results: return zero values
			fr.result = zeroResult(fr.fn.Signature)
		}
	}()

	for {
		nonPhis := executePhis(fr)
		for _, instr := range nonPhis {
			if fr.i.tracing {
				if v, ok := instr.(ssa.Value); ok {
					fmt.Fprintln(os.Stderr, "\t", v.Name(), "=", instr)
				} else {
					fmt.Fprintln(os.Stderr, "\t", instr)
				}
			}
			if visitInstr(fr, instr) == kReturn {
				return
			}
		}
	}
}

// executePhis executes the phi-nodes at the start of the current block.
func executePhis(fr *frame) []ssa.Instruction {
	firstNonPhi := -1
	for i, instr := range fr.block.Instrs {
		if _, ok := instr.(*ssa.Phi); !ok {
			firstNonPhi = i
			break
		}
	}
	nonPhis := fr.block.Instrs[firstNonPhi:]
	if firstNonPhi > 0 {
		phis := fr.block.Instrs[:firstNonPhi]
		predIndex := slices.Index(fr.block.Preds, fr.prevBlock)
		fr.phitemps = fr.phitemps[:0]
		for _, phi := range phis {
			phi := phi.(*ssa.Phi)
			fr.phitemps = append(fr.phitemps, fr.get(phi.Edges[predIndex]))
		}
		for i, phi := range phis {
			fr.set(phi.(*ssa.Phi), fr.phitemps[i])
		}
	}
	return nonPhis
}

// doRecover implements the recover() built-in.
func doRecover(caller *frame) value {
	if caller != nil && !caller.panicking &&
		caller.caller != nil && caller.caller.panicking {
		caller.caller.panicking = false
		p := caller.caller.panic
		caller.caller.panic = nil
		switch p := p.(type) {
		case targetPanic:
			if len(caller.i.res.Observation) < 50 {
				caller.i.res.Observation = append(caller.i.res.Observation, "recovered panic: "+caller.i.panicMessage(p.v))
			}
			return p.v
		default:
			panic(fmt.Sprintf("unexpected panic type %T in target call to recover()", p))
		}
	}
	return iface{}
}

// runtimeError builds a value of type runtime.Error (here: an errors.errorString-like iface).
func (i *interpreter) runtimeError(msg string) value {
	return iface{t: i.eng.runtimeErrT, v: msg}
}

var bigSlicePool sync.Pool

// allocSlice allocates backing storage; large buffers are recycled between paths.
func (i *interpreter) allocSlice(n int) []value {
	if n < 16384 {
		return make([]value, n)
	}
	if v := bigSlicePool.Get(); v != nil {
		s := v.([]value)
		if cap(s) >= n {
			s = s[:n:n]
			i.bigSlices = append(i.bigSlices, s)
			return s
		}
	}
	s := make([]value, n)
	i.bigSlices = append(i.bigSlices, s)
	return s
}

// releaseBig returns the large buffers of a finished path to the pool.
func (i *interpreter) releaseBig() {
	for _, s := range i.bigSlices {
		bigSlicePool.Put(s[:cap(s)])
	}
	i.bigSlices = nil
}

// fillZero fills s with the scalar zero value z (template copy for large slices).
func fillZero(s []value, z value) {
	if len(s) < 256 {
		for k := range s {
			s[k] = z
		}
		return
	}
	s[0] = z
	for n := 1; n < len(s); n *= 2 {
		copy(s[n:], s[:n])
	}
}
