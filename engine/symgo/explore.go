package symgo

import (
	"fmt"
	"go/token"
	"go/types"
	"os"
	"runtime"
	"sort"
	"strings"
	"sync"
	"sync/atomic"
	"time"

	"golang.org/x/tools/go/ssa"
)

// Decision is one entry of a path's decision script.
type Decision struct {
	Kind byte   // 'b' branch, 'v' concretized value, 'c' free choice
	V    uint64 // branch: 0/1; value; choice index
}

func (d Decision) String() string { return fmt.Sprintf("%c%d", d.Kind, d.V) }

type abortKind int

const (
	abortInfeasible abortKind = iota // assumption failed / pc unsat: not an error
	abortBudget                      // unwinding failure
	abortUnsupported                 // engine limitation
	abortInternal                    // engine bug
	abortKilled                      // thread killed at path end
	abortDone                        // harness finished early (verifStop)
)

type pathAbort struct {
	kind abortKind
	msg  string
}

func isEnginePanic(p interface{}) bool {
	_, ok := p.(pathAbort)
	return ok
}

type nondetRec struct {
	Name string
	Kind types.BasicKind
	T    *Term
	Tag  string
}

// Violation is a failed assertion with its witness.
type Violation struct {
	Label   string            `json:"label"`
	Harness string            `json:"harness"`
	Inputs  []NondetValue     `json:"inputs"`
	Script  string            `json:"script"`
	Detail  string            `json:"detail,omitempty"`
	Obs     []string          `json:"observations,omitempty"`
	Extra   map[string]string `json:"extra,omitempty"`
}

// NondetValue is one concrete input of a witness.
type NondetValue struct {
	Name  string `json:"name"`
	Kind  string `json:"kind"`
	Value uint64 `json:"value"`
	Tag   string `json:"tag,omitempty"`
}

// PathResult summarises one explored path.
type PathResult struct {
	Script      []Decision
	Decisions   int
	Steps       int64
	Asserts     int
	Status      string // "done", "infeasible", "budget", "unsupported", "internal", "panic"
	Msg         string
	Violations  []Violation
	Reached     []string
	Unknowns    int
	Observation []string
	samples     []Sample
	poolPuts    int
}

// Harness describes one entry function.
type Harness struct {
	Name      string
	Fn        *ssa.Function
	Bounds    string
	MaxSteps  int64
	MaxPaths  int
	MaxFanout int
	PreferInt bool // route queries to the bv-as-int back end first
	PreferCVC5 bool
	HashCollisions bool // allow 64-bit hash collisions between different streams
	MaxSwitches int
	NoStubs     bool // run the real functions even where the harness package defines stubs
	Reach     []string
	Tier      string
}

// HarnessReport aggregates the exploration of one harness.
type HarnessReport struct {
	Name         string
	Bounds       string
	Paths        int64
	Done         int64
	Infeasible   int64
	Decisions    int64
	Steps        int64
	Asserts      int64
	Violations   []Violation
	AltViolations map[string][]Violation
	Reached      map[string]*Sample
	Problems     []string // budget / unsupported / internal
	Unknowns     int64
	Exhaustive   bool
	Funcs        map[string]int
	Wall         time.Duration
	Samples      []Sample
	Assumptions  []string
	ReachMissing []string
}

// Sample is a concrete witness of reachability.
type Sample struct {
	Label  string        `json:"label"`
	Inputs []NondetValue `json:"inputs"`
	Script string        `json:"script"`
}

// Engine is shared by all paths.
type Engine struct {
	Prog           *ssa.Program
	Sizes          types.Sizes
	Stats          SolverStats
	Timeout        time.Duration
	Workers        int
	stubs          map[*ssa.Function][]*ssa.Function
	extraExternals map[string]externalFn
	runtimeErrT    types.Type
	errorStringT   types.Type
	Trace          bool
	Debug          bool
	SkipInitPkgs   map[string]bool
	OpaquePkgs     []string
	shared         sync.Map // *ssa.Package -> *sharedPkg
	SharedInitPkgs map[string]bool
	FreshInitPkgs  map[string]bool
	NoopFuncs      map[string]bool
	Seed           int64
	sampled        sync.Map
}

func NewEngine(prog *ssa.Program) *Engine {
	e := &Engine{
		Prog:           prog,
		Sizes:          &types.StdSizes{WordSize: 8, MaxAlign: 8},
		Timeout:        60 * time.Second,
		Workers:        runtime.NumCPU(),
		stubs:          map[*ssa.Function][]*ssa.Function{},
		extraExternals: map[string]externalFn{},
		SkipInitPkgs:   map[string]bool{},
		SharedInitPkgs: map[string]bool{},
		FreshInitPkgs:  map[string]bool{},
		NoopFuncs:      map[string]bool{},
	}
	if rt := prog.ImportedPackage("runtime"); rt != nil {
		if t := rt.Type("errorString"); t != nil {
			e.runtimeErrT = t.Object().Type()
		}
	}
	if ep := prog.ImportedPackage("errors"); ep != nil {
		if t := ep.Type("errorString"); t != nil {
			e.errorStringT = types.NewPointer(t.Object().Type())
		}
	}
	return e
}

// Stub replaces calls to orig by calls to repl.
func (e *Engine) Stub(orig, repl *ssa.Function) {
	for _, r := range e.stubs[orig] {
		if r == repl {
			return
		}
	}
	e.stubs[orig] = append(e.stubs[orig], repl)
}

// stubFor returns the replacement of fn for harness h: the one defined in the
// harness's own package if there are several.
func (e *Engine) stubFor(fn *ssa.Function, h *Harness) *ssa.Function {
	rs := e.stubs[fn]
	if len(rs) == 0 {
		return nil
	}
	if h != nil && h.NoStubs {
		return nil
	}
	if h != nil && h.Fn != nil {
		for _, r := range rs {
			if r.Pkg == h.Fn.Pkg {
				return r
			}
		}
		return nil // stubs of other harness packages do not apply
	}
	return rs[0]
}

var defaultOpaque = []string{
	"reflect", "internal/reflectlite", "fmt", "encoding/json", "testing", "google.golang.org/protobuf/",
	"crypto/tls", "github.com/quic-go/", "gopkg.in/yaml.v2",
}

var opaqueExceptions = []string{"google.golang.org/protobuf/types/known/", "net/netip", "net/url", "internal/bytealg", "internal/stringslite", "internal/byteorder", "internal/itoa", "internal/godebug", "crypto/subtle"}

func (e *Engine) opaque(path string) bool {
	for _, x := range opaqueExceptions {
		if path == x || (strings.HasSuffix(x, "/") && strings.HasPrefix(path, x)) {
			return false
		}
	}
	for _, p := range defaultOpaque {
		if strings.HasSuffix(p, "/") {
			if strings.HasPrefix(path, p) {
				return true
			}
		} else if path == p {
			return true
		}
	}
	return false
}

var noopPkgs = []string{
	"log/slog", "log", "github.com/prometheus/", "github.com/AdguardTeam/golibs/log", "github.com/AdguardTeam/golibs/logutil/",
	"github.com/AdguardTeam/AdGuardDNS/internal/optslog", "github.com/AdguardTeam/AdGuardDNS/internal/optlog",
	"github.com/getsentry/", "github.com/AdguardTeam/AdGuardDNS/internal/errcoll",
}

// noop reports whether calls into the package are modelled as doing nothing
// (logging, metrics, error collection): they return zero values.
func (e *Engine) noop(path string) bool {
	for _, p := range noopPkgs {
		if strings.HasSuffix(p, "/") {
			if strings.HasPrefix(path, p) {
				return true
			}
		} else if path == p {
			return true
		}
	}
	return false
}

func (e *Engine) skipInit(path string) bool {
	if e.noop(path) || e.SkipInitPkgs[path] {
		return true
	}
	switch path {
	case "runtime", "reflect", "unsafe", "testing", "internal/reflectlite", "runtime/debug", "runtime/pprof", "runtime/trace", "runtime/metrics":
		return true
	}
	return false
}

type sharedPkg struct {
	once    sync.Once
	globals map[*ssa.Global]*value
}

// sharedInit initialises pkg once for all paths if it is declared shared
// (read-only tables); returns false if pkg is not shared.
func (e *Engine) sharedInit(i *interpreter, pkg *ssa.Package) bool {
	path := pkg.Pkg.Path()
	if e.FreshInitPkgs[path] || (strings.HasPrefix(path, "github.com/AdguardTeam/AdGuardDNS") && !e.SharedInitPkgs[path]) {
		return false
	}
	v, _ := e.shared.LoadOrStore(pkg, &sharedPkg{})
	sp := v.(*sharedPkg)
	sp.once.Do(func() {
		// run the init in a throw-away interpreter
		j := newInterpreter(e, nil, nil, nil)
		j.pkgInit[pkg] = 1
		for _, m := range pkg.Members {
			if g, ok := m.(*ssa.Global); ok {
				cell := zero(mustDeref(g.Type()))
				j.globals[g] = &cell
			}
		}
		if init := pkg.Func("init"); init != nil && init.Blocks != nil {
			j.inInit++
			func() {
				defer func() {
					if p := recover(); p != nil {
						fmt.Fprintf(os.Stderr, "shared init of %s failed: %v\n", pkg.Pkg.Path(), p)
					}
				}()
				call(j, nil, token.NoPos, init, nil)
			}()
		}
		sp.globals = map[*ssa.Global]*value{}
		for _, m := range pkg.Members {
			if g, ok := m.(*ssa.Global); ok {
				sp.globals[g] = j.globals[g]
			}
		}
	})
	for g, cell := range sp.globals {
		i.globals[g] = cell
	}
	return true
}

func newInterpreter(e *Engine, h *Harness, solver *Solver, script []Decision) *interpreter {
	i := &interpreter{
		eng:        e,
		h:          h,
		prog:       e.Prog,
		tc:         NewTermCtx(),
		solver:     solver,
		globals:    make(map[*ssa.Global]*value),
		pkgInit:    make(map[*ssa.Package]int),
		sizes:      e.Sizes,
		script:     script,
		maxSteps:   50_000_000,
		mutexes:    map[*value]*mutexState{},
		conds:      map[*value]*condState{},
		wgs:        map[*value]*wgState{},
		onces:      map[*value]bool{},
		pools:      map[*value]*poolState{},
		elemOwners: map[*value][]value{},
		dead:       make(chan struct{}),
		res:        &PathResult{},
		tracing:    e.Trace,
		model:      map[string]uint64{},
		pcSet:      map[*Term]bool{},
		modelOK:    true,
	}
	if h != nil && h.MaxSteps > 0 {
		i.maxSteps = h.MaxSteps
	}
	return i
}

// ---------------------------------------------------------------------
// decisions

func (i *interpreter) nextScripted() (Decision, bool) {
	if i.pos < len(i.script) {
		d := i.script[i.pos]
		if i.solver != nil {
			i.solver.OnDecision(i.pos)
		}
		i.pos++
		return d, true
	}
	return Decision{}, false
}

func (i *interpreter) record(d Decision) {
	if i.solver != nil {
		i.solver.OnDecision(len(i.script))
	}
	i.script = append(i.script, d)
	i.pos = len(i.script)
}

func (i *interpreter) alt(d Decision) {
	a := make([]Decision, i.pos, i.pos+1)
	copy(a, i.script[:i.pos])
	a = append(a, d)
	i.newAlts = append(i.newAlts, a)
}

// pcAssert adds t to the path condition and keeps the cached model honest.
func (i *interpreter) pcAssert(t *Term) {
	if i.pcSet[t] {
		return
	}
	i.pcSet[t] = true
	if t.op == "and" {
		for _, a := range t.args {
			i.pcSet[a] = true
		}
	}
	i.solver.Assert(t)
	if i.modelOK {
		if v, ok := t.Eval(i.model); !ok || v != 1 {
			i.modelOK = false
		}
	}
}

func (i *interpreter) setModel(m map[string]uint64) {
	if m != nil {
		i.model, i.modelOK = m, true
	}
}

// evalModel evaluates t under the cached model of the path condition.
func (i *interpreter) evalModel(t *Term) (bool, bool) {
	if !i.modelOK {
		return false, false
	}
	v, ok := t.Eval(i.model)
	return v == 1, ok
}

// branch decides a boolean condition, forking when both outcomes are feasible.
func (i *interpreter) branch(c value) bool {
	if b, ok := c.(bool); ok {
		return b
	}
	t := c.(*Sym).t
	if i.solver == nil {
		panic(pathAbort{kind: abortUnsupported, msg: "symbolic branch without solver (package init?)"})
	}
	nt := i.tc.Mk("not", SBool, t)
	if d, ok := i.nextScripted(); ok {
		if d.Kind != 'b' {
			panic(pathAbort{kind: abortInternal, msg: fmt.Sprintf("script desync: want branch, have %v at %d", d, i.pos-1)})
		}
		if d.V == 1 {
			i.pcAssert(t)
			return true
		}
		i.pcAssert(nt)
		return false
	}
	const unset = SatResult(-1)
	rT, rF := unset, unset
	var mT, mF map[string]uint64
	if i.pcSet[t] {
		i.recordAt('b', 1)
		return true
	}
	if i.pcSet[nt] {
		i.recordAt('b', 0)
		return false
	}
	if v, ok := i.evalModel(t); ok {
		if v {
			rT, mT = Sat, i.model
		} else {
			rF, mF = Sat, i.model
		}
	}
	if rT == unset {
		rT, mT = i.solver.Check(t, i.tc.vars, true)
	}
	if rT == Unsat {
		i.recordAt('b', 0)
		i.pcAssert(nt)
		return false
	}
	if rF == unset {
		rF, mF = i.solver.Check(nt, i.tc.vars, true)
	}
	if rF == Unsat {
		if rT == Unknown {
			i.unknowns++
		}
		i.recordAt('b', 1)
		if rT == Sat {
			i.setModel(mT)
		}
		i.pcAssert(t)
		return true
	}
	if rT == Unknown || rF == Unknown {
		i.unknowns++
	}
	_ = mF
	// both feasible (or unknown): take true, queue false
	i.pos = len(i.script)
	i.alt(Decision{'b', 0})
	i.record(Decision{'b', 1})
	if rT == Sat {
		i.setModel(mT)
	} else {
		i.modelOK = false
	}
	i.pcAssert(t)
	return true
}

func (i *interpreter) recordAt(kind byte, v uint64) {
	i.pos = len(i.script)
	i.record(Decision{kind, v})
}

// concretize returns a concrete value of kind k for x, forking over all feasible values.
func (i *interpreter) concretize(x value, k types.BasicKind) value {
	s, ok := x.(*Sym)
	if !ok {
		return x
	}
	t := s.t
	if i.solver == nil {
		panic(pathAbort{kind: abortUnsupported, msg: "symbolic concretize without solver"})
	}
	if d, ok := i.nextScripted(); ok {
		if d.Kind != 'v' {
			panic(pathAbort{kind: abortInternal, msg: fmt.Sprintf("script desync: want value, have %v at %d", d, i.pos-1)})
		}
		i.pcAssert(i.tc.Mk("=", SBool, t, i.tc.Const(t.sort, d.V)))
		return mkInt(k, d.V)
	}
	// enumerate feasible values
	maxFan := 64
	if i.h != nil && i.h.MaxFanout > 0 {
		maxFan = i.h.MaxFanout
	}
	probe := i.tc.Var(fmt.Sprintf("v_probe%d", len(i.script)), t.sort)
	eq := i.tc.Mk("=", SBool, probe, t)
	var vals []uint64
	var excl []*Term
	for {
		q := eq
		if len(excl) > 0 {
			q = i.tc.Mk("and", SBool, append([]*Term{eq}, excl...)...)
		}
		r, m := i.solver.Check(q, []*Term{probe}, true)
		if r == Unknown {
			i.unknowns++
			panic(pathAbort{kind: abortBudget, msg: "solver unknown while concretizing"})
		}
		if r == Unsat {
			break
		}
		v := m[probe.name]
		vals = append(vals, v)
		excl = append(excl, i.tc.Mk("not", SBool, i.tc.Mk("=", SBool, t, i.tc.Const(t.sort, v))))
		if len(vals) > maxFan {
			panic(pathAbort{kind: abortBudget, msg: fmt.Sprintf("concretization fan-out exceeds %d", maxFan)})
		}
	}
	if len(vals) == 0 {
		panic(pathAbort{kind: abortInfeasible, msg: "no feasible value"})
	}
	sort.Slice(vals, func(a, b int) bool { return vals[a] < vals[b] })
	i.pos = len(i.script)
	for _, v := range vals[1:] {
		i.alt(Decision{'v', v})
	}
	i.record(Decision{'v', vals[0]})
	i.pcAssert(i.tc.Mk("=", SBool, t, i.tc.Const(t.sort, vals[0])))
	return mkInt(k, vals[0])
}

// choice returns a value in [0,n), exploring all of them.
func (i *interpreter) choice(n int) int { return i.choiceK('c', n) }

func (i *interpreter) choiceK(kind byte, n int) int {
	if n <= 1 {
		return 0
	}
	if d, ok := i.nextScripted(); ok {
		if d.Kind != kind {
			panic(pathAbort{kind: abortInternal, msg: fmt.Sprintf("script desync: want choice, have %v at %d", d, i.pos-1)})
		}
		return int(d.V)
	}
	i.pos = len(i.script)
	for v := 1; v < n; v++ {
		i.alt(Decision{kind, uint64(v)})
	}
	i.record(Decision{kind, 0})
	return 0
}

// assume adds c to the path condition; aborts the path when infeasible.
func (i *interpreter) assume(c value) {
	if b, ok := c.(bool); ok {
		if !b {
			panic(pathAbort{kind: abortInfeasible})
		}
		return
	}
	t := c.(*Sym).t
	if i.pos < len(i.script) {
		// inside the replayed prefix the assumption is known feasible
		i.pcAssert(t)
		return
	}
	if v, ok := i.evalModel(t); ok && v {
		i.pcAssert(t)
		return
	}
	r, m := i.solver.Check(t, i.tc.vars, true)
	if r == Unsat {
		panic(pathAbort{kind: abortInfeasible})
	}
	if r == Unknown {
		i.unknowns++
		i.modelOK = false
	} else {
		i.setModel(m)
	}
	i.pcAssert(t)
}

// scriptedRegion is true while every remaining decision is still scripted.
func (i *interpreter) scriptedRegion() bool { return false }

func (i *interpreter) modelInputs(m map[string]uint64) []NondetValue {
	out := make([]NondetValue, len(i.nondets))
	for k, n := range i.nondets {
		out[k] = NondetValue{Name: n.Name, Kind: types.Typ[n.Kind].Name(), Value: m[n.Name], Tag: n.Tag}
	}
	return out
}

func (i *interpreter) nondetVars() []*Term {
	vs := make([]*Term, len(i.nondets))
	for k, n := range i.nondets {
		vs[k] = n.T
	}
	return vs
}

func scriptString(s []Decision) string {
	var sb strings.Builder
	for _, d := range s {
		sb.WriteString(d.String())
		sb.WriteByte(' ')
	}
	return strings.TrimSpace(sb.String())
}

// assert checks c under the current path condition.
func (i *interpreter) assert(label string, c value) {
	i.res.Asserts++
	if b, ok := c.(bool); ok {
		if b {
			return
		}
		// concrete failure: witness = any model of the path condition
		r, m := i.solver.Check(nil, i.nondetVars(), true)
		if r == Unsat {
			panic(pathAbort{kind: abortInfeasible})
		}
		i.violation(label, m, "")
		panic(pathAbort{kind: abortDone, msg: "assertion failed concretely"})
	}
	t := c.(*Sym).t
	nt := i.tc.Mk("not", SBool, t)
	r, m := i.solver.Check(nt, i.tc.vars, true)
	switch r {
	case Sat:
		i.violation(label, m, "")
	case Unknown:
		i.unknowns++
		i.res.Unknowns++
	}
	if r == Unsat {
		// pc implies t: nothing to add
		return
	}
	// continue under the assumption that the assertion holds
	if v, ok := i.evalModel(t); !(ok && v) {
		r2, m2 := i.solver.Check(t, i.tc.vars, true)
		if r2 == Unsat {
			panic(pathAbort{kind: abortDone, msg: "assertion cannot hold"})
		}
		if r2 == Sat {
			i.setModel(m2)
		} else {
			i.modelOK = false
		}
	}
	i.pcAssert(t)
}

func (i *interpreter) violation(label string, m map[string]uint64, detail string) {
	v := Violation{Label: label, Inputs: i.modelInputs(m), Script: scriptString(i.script[:i.pos]), Detail: detail}
	if i.h != nil {
		v.Harness = i.h.Name
	}
	v.Obs = append(v.Obs, i.res.Observation...)
	i.res.Violations = append(i.res.Violations, v)
}

// ---------------------------------------------------------------------
// exploration

type workItem struct {
	script []Decision
}

// Explore runs harness h to exhaustion (or budget) and returns the report.
func (e *Engine) Explore(h *Harness) *HarnessReport {
	start := time.Now()
	rep := &HarnessReport{Name: h.Name, Bounds: h.Bounds, Reached: map[string]*Sample{}, Funcs: map[string]int{}}
	var mu sync.Mutex
	queue := []workItem{{}}
	inflight := 0
	cond := sync.NewCond(&mu)
	maxPaths := h.MaxPaths
	if maxPaths == 0 {
		maxPaths = 200000
	}
	var paths int64
	stop := false
	funcs := map[*ssa.Function]bool{}
	violByLabel := map[string]bool{}

	worker := func() {
		solver, err := NewSolver(&e.Stats, e.Timeout)
		if err != nil {
			mu.Lock()
			rep.Problems = append(rep.Problems, "cannot start solver: "+err.Error())
			stop = true
			cond.Broadcast()
			mu.Unlock()
			return
		}
		solver.Reuse = os.Getenv("VERIF_NO_REUSE") == ""
		solver.PreferBVInt = h.PreferInt
		solver.PreferCVC5 = h.PreferCVC5
		defer solver.Close()
		var mine *workItem // the deepest alternative of the path just finished (prefix locality)
		for {
			mu.Lock()
			if mine != nil && stop {
				mine = nil
				inflight--
			}
			var it workItem
			if mine != nil {
				it = *mine
				mine = nil
			} else {
				for len(queue) == 0 && inflight > 0 && !stop {
					cond.Wait()
				}
				if stop || (len(queue) == 0 && inflight == 0) {
					cond.Broadcast()
					mu.Unlock()
					return
				}
				// depth-first: take from the end
				it = queue[len(queue)-1]
				queue = queue[:len(queue)-1]
				inflight++
			}
			mu.Unlock()

			res, alts, fs := e.runPath(h, solver, it.script)

			mu.Lock()
			inflight--
			n := atomic.AddInt64(&paths, 1)
			rep.Paths = n
			rep.Decisions += int64(res.Decisions)
			rep.Steps += res.Steps
			rep.Asserts += int64(res.Asserts)
			rep.Unknowns += int64(res.Unknowns)
			for f := range fs {
				funcs[f] = true
			}
			switch res.Status {
			case "done":
				rep.Done++
			case "infeasible":
				rep.Infeasible++
			default:
				if len(rep.Problems) < 20 {
					rep.Problems = append(rep.Problems, res.Status+": "+res.Msg+" [script "+scriptString(res.Script)+"]")
				}
			}
			for _, v := range res.Violations {
				if !violByLabel[v.Label] {
					violByLabel[v.Label] = true
					rep.Violations = append(rep.Violations, v)
				} else if len(rep.AltViolations[v.Label]) < 12 {
					// further witnesses of the same assertion: tried by the replay
					// step when the first one depends on a modelling freedom the
					// native run does not take (e.g. which waiter Signal wakes)
					if rep.AltViolations == nil {
						rep.AltViolations = map[string][]Violation{}
					}
					rep.AltViolations[v.Label] = append(rep.AltViolations[v.Label], v)
				}
			}
			for _, l := range res.Reached {
				if _, ok := rep.Reached[l]; !ok {
					rep.Reached[l] = &Sample{Label: l}
				}
			}
			for _, s := range res.samples {
				if cur := rep.Reached[s.Label]; cur != nil && cur.Inputs == nil {
					*cur = s
				}
			}
			for k, a := range alts {
				if k == len(alts)-1 && !stop {
					w := workItem{a}
					mine = &w
					inflight++
					continue
				}
				queue = append(queue, workItem{a})
			}
			if int(n) >= maxPaths && (len(queue) > 0 || inflight > 0) && !stop {
				rep.Problems = append(rep.Problems, fmt.Sprintf("budget: path limit %d reached with %d scripts pending", maxPaths, len(queue)))
				stop = true
			}
			cond.Broadcast()
			mu.Unlock()
		}
	}
	var wg sync.WaitGroup
	nw := e.Workers
	if nw < 1 {
		nw = 1
	}
	for w := 0; w < nw; w++ {
		wg.Add(1)
		go func() { defer wg.Done(); worker() }()
	}
	wg.Wait()
	rep.Exhaustive = len(rep.Problems) == 0 && rep.Unknowns == 0
	for f := range funcs {
		n := 0
		for _, b := range f.Blocks {
			n += len(b.Instrs)
		}
		rep.Funcs[f.String()] = n
	}
	for _, l := range h.Reach {
		if _, ok := rep.Reached[l]; !ok {
			rep.ReachMissing = append(rep.ReachMissing, l)
		}
	}
	for _, s := range rep.Reached {
		rep.Samples = append(rep.Samples, *s)
	}
	sort.Slice(rep.Samples, func(a, b int) bool { return rep.Samples[a].Label < rep.Samples[b].Label })
	rep.Wall = time.Since(start)
	return rep
}

// RunScript executes exactly one path following script (debugging aid).
func (e *Engine) RunScript(h *Harness, script string) *PathResult {
	var ds []Decision
	for _, f := range strings.Fields(script) {
		var v uint64
		fmt.Sscanf(f[1:], "%d", &v)
		ds = append(ds, Decision{Kind: f[0], V: v})
	}
	solver, err := NewSolver(&e.Stats, e.Timeout)
	if err != nil {
		panic(err)
	}
	defer solver.Close()
	res, _, _ := e.runPath(h, solver, ds)
	return res
}

// runPath executes one path.
func (e *Engine) runPath(h *Harness, solver *Solver, script []Decision) (res *PathResult, alts [][]Decision, funcs map[*ssa.Function]bool) {
	i := newInterpreter(e, h, solver, append([]Decision(nil), script...))
	i.funcsEncoded = map[*ssa.Function]bool{}
	solver.BeginPath(i.script)
	res = i.res
	main := i.newThread(nil, nil)
	i.cur = main
	defer func() {
		p := recover()
		close(i.dead)
		if len(i.threads) <= 1 {
			i.releaseBig()
		}
		solver.EndPath(i.script)
		res.Script = i.script
		res.Decisions = len(i.script)
		res.Steps = i.steps
		res.Unknowns += i.unknowns
		alts = i.newAlts
		funcs = i.funcsEncoded
		if p == nil {
			res.Status = "done"
			return
		}
		switch p := p.(type) {
		case pathAbort:
			switch p.kind {
			case abortInfeasible:
				res.Status = "infeasible"
			case abortDone:
				res.Status = "done"
			case abortBudget:
				res.Status, res.Msg = "budget", p.msg
			case abortUnsupported:
				res.Status, res.Msg = "unsupported", p.msg
			default:
				res.Status, res.Msg = "internal", p.msg
			}
		case targetPanic:
			// uncaught panic of the code under test: a violation of "no panic"
			msg := i.panicMessage(p.v)
			func() {
				defer func() {
					if q := recover(); q != nil {
						res.Status, res.Msg = "internal", fmt.Sprint(q)
					}
				}()
				r, m := solver.Check(nil, i.nondetVars(), true)
				if r != Unsat {
					i.violation("uncaught-panic", m, msg)
				}
			}()
			if res.Status == "" {
				res.Status = "done"
			}
		default:
			buf := make([]byte, 1<<14)
			n := runtime.Stack(buf, false)
			res.Status, res.Msg = "internal", fmt.Sprintf("%v\n%s", p, buf[:n])
		}
	}()
	call(i, nil, token.NoPos, h.Fn, nil)
	return
}

func (i *interpreter) panicMessage(v value) string {
	if it, ok := v.(iface); ok {
		switch x := it.v.(type) {
		case string:
			return x
		}
		if it.t != nil {
			// try Error()
			var msg string
			func() {
				defer func() { recover() }()
				if s, ok := i.callErrorMethod(it); ok {
					msg = s
				}
			}()
			if msg != "" {
				return msg
			}
			return it.t.String() + ": " + toString(it.v)
		}
	}
	return toString(v)
}
