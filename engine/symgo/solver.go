package symgo

import (
	"bufio"
	"fmt"
	"io"
	"os"
	"os/exec"
	"strconv"
	"strings"
	"sync/atomic"
	"time"
)

// Result of a satisfiability query.
type SatResult int

const (
	Unsat SatResult = iota
	Sat
	Unknown
)

func (r SatResult) String() string { return [...]string{"unsat", "sat", "unknown"}[r] }

// SolverStats are aggregated over all workers.
type SolverStats struct {
	Queries   int64
	SatN      int64
	UnsatN    int64
	UnknownN  int64
	Fallbacks int64
	Nanos     int64
	ByBackend [4]int64 // z3, z3-new, cvc5, cvc5-bvint : queries decided
}

var backendNames = [4]string{"z3-4.8.12", "z3-new-5.1.0", "cvc5-1.0", "cvc5-bv-as-int"}

// Solver is one incremental z3 process plus the textual log of the current path.
type Solver struct {
	cmd     *exec.Cmd
	in      io.WriteCloser
	w       *bufio.Writer
	out     *bufio.Reader
	log     []string // commands of the current path (decls, defs, asserts)
	stats   *SolverStats
	timeout time.Duration
	depth   int // decision scopes currently on the solver stack
	// incremental reuse of the common script prefix between consecutive paths
	prevScript []Decision
	logMarks   []int // log index of the push of each decision scope
	skipping   bool
	skipUntil  int
	base       bool // base scope pushed
	Reuse      bool
	defined    map[string]int // symbol -> depth at which it was defined
	definedAt  [][]string     // symbols defined at each depth
	Trace   io.Writer
	// PreferBVInt routes every query to cvc5 --solve-bv-as-int first.
	PreferBVInt bool
	// PreferCVC5 routes every query to one-shot cvc5 first (floating-point kernels).
	PreferCVC5 bool
}

func NewSolver(stats *SolverStats, timeout time.Duration) (*Solver, error) {
	s := &Solver{stats: stats, timeout: timeout}
	if err := s.start(); err != nil {
		return nil, err
	}
	return s, nil
}

func (s *Solver) start() error {
	cmd := exec.Command("z3", "-in", "-smt2")
	in, err := cmd.StdinPipe()
	if err != nil {
		return err
	}
	out, err := cmd.StdoutPipe()
	if err != nil {
		return err
	}
	cmd.Stderr = os.Stderr
	if err := cmd.Start(); err != nil {
		return err
	}
	s.cmd, s.in, s.out = cmd, in, bufio.NewReaderSize(out, 1<<16)
	s.w = bufio.NewWriterSize(in, 1<<16)
	s.send(fmt.Sprintf("(set-option :timeout %d)", s.timeout.Milliseconds()))
	s.send("(set-option :pp.bv_literals true)")
	return nil
}

func (s *Solver) Close() {
	if s.cmd != nil {
		s.w.Flush()
		s.in.Close()
		s.cmd.Process.Kill()
		s.cmd.Wait()
		s.cmd = nil
	}
}

func (s *Solver) send(line string) {
	if s.Trace != nil {
		fmt.Fprintln(s.Trace, line)
	}
	s.w.WriteString(line)
	s.w.WriteByte('\n')
}

// BeginPath prepares the solver for a path following script. When Reuse is set,
// the assertions of the longest common prefix with the previous path are kept
// (re-execution is deterministic, so the replayed prefix produces the same
// commands, which are then skipped).
func (s *Solver) BeginPath(script []Decision) {
	if !s.Reuse || !s.base || s.prevScript == nil {
		s.fullReset()
		return
	}
	l := 0
	for l < len(script) && l < len(s.prevScript) && script[l] == s.prevScript[l] {
		l++
	}
	if l > s.depth {
		l = s.depth
	}
	if l >= len(script) {
		// the whole script is shared (should not happen): be safe
		s.fullReset()
		return
	}
	if n := s.depth - l; n > 0 {
		s.send(fmt.Sprintf("(pop %d)", n))
		s.log = s.log[:s.logMarks[l]]
		s.logMarks = s.logMarks[:l]
		for d := l + 1; d < len(s.definedAt); d++ {
			for _, name := range s.definedAt[d] {
				delete(s.defined, name)
			}
		}
		if len(s.definedAt) > l+1 {
			s.definedAt = s.definedAt[:l+1]
		}
		s.depth = l
	}
	s.skipping = true
	s.skipUntil = l
}

func (s *Solver) fullReset() {
	if s.base {
		s.send(fmt.Sprintf("(pop %d)", s.depth+1))
	}
	s.send("(push 1)")
	s.base = true
	s.depth = 0
	s.defined = map[string]int{}
	s.definedAt = nil
	s.log = s.log[:0]
	s.logMarks = s.logMarks[:0]
	s.skipping = false
	s.prevScript = nil
}

// EndPath records the final script of the finished path.
func (s *Solver) EndPath(script []Decision) {
	s.prevScript = append(s.prevScript[:0], script...)
	if s.skipping {
		// the path ended inside the shared prefix: state no longer matches
		s.prevScript = nil
	}
}

// OnDecision is called when the decision with index idx is consumed or recorded.
func (s *Solver) OnDecision(idx int) {
	if s.skipping {
		if idx < s.skipUntil {
			return
		}
		s.skipping = false
	}
	s.logMarks = append(s.logMarks, len(s.log))
	s.log = append(s.log, "(push 1)")
	s.send("(push 1)")
	s.depth++
}

func (s *Solver) record(line string) {
	if s.skipping {
		return
	}
	s.log = append(s.log, line)
	s.send(line)
}

// define emits declarations/definitions for t's DAG.
func (s *Solver) define(t *Term) {
	if t.emit {
		return
	}
	// iterative post-order to avoid deep recursion
	type fr struct {
		t *Term
		i int
	}
	st := []fr{{t, 0}}
	for len(st) > 0 {
		f := &st[len(st)-1]
		if f.t.emit {
			st = st[:len(st)-1]
			continue
		}
		if f.i < len(f.t.args) {
			a := f.t.args[f.i]
			f.i++
			if !a.emit {
				st = append(st, fr{a, 0})
			}
			continue
		}
		x := f.t
		st = st[:len(st)-1]
		x.emit = true
		if x.op == "const" {
			continue
		}
		if _, ok := s.defined[x.name]; ok {
			continue // kept from the shared prefix of the previous path
		}
		var cmd string
		if x.op == "var" {
			cmd = fmt.Sprintf("(declare-const %s %s)", x.name, x.sort.SMT())
		} else {
			cmd = fmt.Sprintf("(define-fun %s () %s %s)", x.name, x.sort.SMT(), x.render(refName))
		}
		// definitions are sent even inside the skipped prefix (they are harmless)
		s.log = append(s.log, cmd)
		s.send(cmd)
		if s.defined == nil {
			s.defined = map[string]int{}
		}
		s.defined[x.name] = s.depth
		for len(s.definedAt) <= s.depth {
			s.definedAt = append(s.definedAt, nil)
		}
		s.definedAt[s.depth] = append(s.definedAt[s.depth], x.name)
	}
}

func refName(t *Term) string {
	switch t.op {
	case "const":
		return t.render(nil)
	case "var":
		return t.name
	}
	return t.name
}

// Assert adds t to the path condition.
func (s *Solver) Assert(t *Term) {
	s.define(t)
	s.record("(assert " + refName(t) + ")")
}

func (s *Solver) readLine() string {
	s.w.Flush()
	line, err := s.out.ReadString('\n')
	if err != nil {
		return "(error \"solver died: " + err.Error() + "\")"
	}
	return strings.TrimSpace(line)
}

func (s *Solver) readSexp() string {
	s.w.Flush()
	var sb strings.Builder
	depth := 0
	started := false
	for {
		line, err := s.out.ReadString('\n')
		if err != nil {
			return sb.String()
		}
		sb.WriteString(line)
		for _, ch := range line {
			if ch == '(' {
				depth++
				started = true
			} else if ch == ')' {
				depth--
			}
		}
		if started && depth <= 0 {
			return sb.String()
		}
		if !started && strings.TrimSpace(line) != "" {
			return sb.String()
		}
	}
}

// Check decides satisfiability of pathcond ∧ extra (extra may be nil).
// On sat with wantModel, the model for vars is returned.
func (s *Solver) Check(extra *Term, vars []*Term, wantModel bool) (SatResult, map[string]uint64) {
	if s.skipping {
		panic(pathAbort{kind: abortInternal, msg: "solver query inside the reused prefix"})
	}
	start := time.Now()
	defer func() { atomic.AddInt64(&s.stats.Nanos, int64(time.Since(start))) }()
	atomic.AddInt64(&s.stats.Queries, 1)
	if extra != nil {
		s.define(extra)
	}
	if wantModel {
		for _, v := range vars {
			s.define(v)
		}
	}
	var res SatResult = Unknown
	var model map[string]uint64
	backend := 0
	if !s.PreferBVInt && !s.PreferCVC5 {
		s.send("(push 1)")
		if extra != nil {
			s.send("(assert " + refName(extra) + ")")
		}
		s.send("(check-sat)")
		ans := s.readLine()
		switch ans {
		case "sat":
			res = Sat
			if wantModel && len(vars) > 0 {
				model = s.getModel(vars)
			}
		case "unsat":
			res = Unsat
		default:
			res = Unknown
			if strings.HasPrefix(ans, "(error") {
				fmt.Fprintf(os.Stderr, "solver error: %s\n", ans)
				// resynchronise: restart the solver and replay the log
				s.restart()
			}
		}
		if s.cmd != nil && res != Unknown || !strings.HasPrefix(ans, "(error") {
			s.send("(pop 1)")
		}
	}
	if res == Unknown {
		atomic.AddInt64(&s.stats.Fallbacks, 1)
		res, model, backend = s.fallback(extra, vars, wantModel)
	}
	switch res {
	case Sat:
		atomic.AddInt64(&s.stats.SatN, 1)
		atomic.AddInt64(&s.stats.ByBackend[backend], 1)
	case Unsat:
		atomic.AddInt64(&s.stats.UnsatN, 1)
		atomic.AddInt64(&s.stats.ByBackend[backend], 1)
	default:
		atomic.AddInt64(&s.stats.UnknownN, 1)
	}
	return res, model
}

func (s *Solver) restart() {
	s.Close()
	if err := s.start(); err != nil {
		panic(err)
	}
	s.send("(push 1)")
	for _, l := range s.log {
		s.send(l)
	}
	s.base = true
}

func (s *Solver) getModel(vars []*Term) map[string]uint64 {
	var sb strings.Builder
	sb.WriteString("(get-value (")
	for _, v := range vars {
		sb.WriteString(v.name)
		sb.WriteByte(' ')
	}
	sb.WriteString("))")
	s.send(sb.String())
	return parseModel(s.readSexp())
}

// parseModel parses ((name value) ...) with values #x.., #b.., true, false.
func parseModel(txt string) map[string]uint64 {
	m := map[string]uint64{}
	toks := tokenize(txt)
	// expect ( ( name val ) ( name val ) ... )
	i := 0
	if i < len(toks) && toks[i] == "(" {
		i++
	}
	for i < len(toks) {
		if toks[i] != "(" {
			i++
			continue
		}
		if i+2 >= len(toks) {
			break
		}
		name := toks[i+1]
		val := toks[i+2]
		i += 3
		switch {
		case val == "true":
			m[name] = 1
		case val == "false":
			m[name] = 0
		case strings.HasPrefix(val, "#x"):
			v, _ := strconv.ParseUint(val[2:], 16, 64)
			m[name] = v
		case strings.HasPrefix(val, "#b"):
			v, _ := strconv.ParseUint(val[2:], 2, 64)
			m[name] = v
		case val == "(":
			// (_ bvN w) form
			if i+2 < len(toks) && toks[i] == "_" && strings.HasPrefix(toks[i+1], "bv") {
				v, _ := strconv.ParseUint(toks[i+1][2:], 10, 64)
				m[name] = v
			}
			// skip to matching close
			d := 1
			for i < len(toks) && d > 0 {
				if toks[i] == "(" {
					d++
				} else if toks[i] == ")" {
					d--
				}
				i++
			}
		}
		// skip closing paren of the pair
		for i < len(toks) && toks[i] == ")" {
			i++
		}
	}
	return m
}

func tokenize(s string) []string {
	var out []string
	cur := strings.Builder{}
	flush := func() {
		if cur.Len() > 0 {
			out = append(out, cur.String())
			cur.Reset()
		}
	}
	for _, ch := range s {
		switch ch {
		case '(', ')':
			flush()
			out = append(out, string(ch))
		case ' ', '\n', '\t', '\r':
			flush()
		default:
			cur.WriteRune(ch)
		}
	}
	flush()
	return out
}

// fallback runs the query one-shot on the other back ends.
func (s *Solver) fallback(extra *Term, vars []*Term, wantModel bool) (SatResult, map[string]uint64, int) {
	var sb strings.Builder
	for _, l := range s.log {
		if l == "(push 1)" {
			continue // scopes are irrelevant for a one-shot query
		}
		sb.WriteString(l)
		sb.WriteByte('\n')
	}
	if extra != nil {
		sb.WriteString("(assert " + refName(extra) + ")\n")
	}
	sb.WriteString("(check-sat)\n")
	if wantModel && len(vars) > 0 {
		sb.WriteString("(get-value (")
		for _, v := range vars {
			sb.WriteString(v.name + " ")
		}
		sb.WriteString("))\n")
	}
	body := sb.String()
	f, err := os.CreateTemp("", "verifq-*.smt2")
	if err != nil {
		return Unknown, nil, 0
	}
	defer os.Remove(f.Name())
	type be struct {
		idx    int
		argv   []string
		prefix string
	}
	tsec := int(s.timeout.Seconds())
	if tsec < 1 {
		tsec = 1
	}
	hasFP := strings.Contains(body, "FloatingPoint")
	beInt := be{3, []string{"cvc5", "--solve-bv-as-int=sum", "--produce-models", fmt.Sprintf("--tlimit=%d", tsec*1000)}, "(set-logic ALL)\n"}
	beZ3 := be{0, []string{"z3", "-smt2", fmt.Sprintf("-T:%d", tsec)}, ""}
	beZ3n := be{1, []string{"z3-new", "-smt2", fmt.Sprintf("-T:%d", tsec)}, ""}
	beCVC := be{2, []string{"cvc5", "--produce-models", fmt.Sprintf("--tlimit=%d", tsec*1000)}, "(set-logic ALL)\n"}
	var bes []be
	switch {
	case s.PreferCVC5 || hasFP:
		bes = []be{beCVC, beZ3n, beZ3}
	case s.PreferBVInt:
		bes = []be{beInt, beZ3, beZ3n, beCVC}
	default:
		bes = []be{beZ3n, beCVC, beInt}
	}
	if d := os.Getenv("VERIF_DUMP_UNKNOWN"); d != "" {
		os.WriteFile(fmt.Sprintf("%s/unknown-%d.smt2", d, time.Now().UnixNano()), []byte(body), 0o644)
	}
	for _, b := range bes {
		os.WriteFile(f.Name(), []byte(b.prefix+body), 0o644)
		argv := append(append([]string{}, b.argv...), f.Name())
		out, _ := exec.Command(argv[0], argv[1:]...).Output()
		txt := strings.TrimSpace(string(out))
		lines := strings.SplitN(txt, "\n", 2)
		switch strings.TrimSpace(lines[0]) {
		case "unsat":
			return Unsat, nil, b.idx
		case "sat":
			var m map[string]uint64
			if wantModel && len(vars) > 0 {
				if len(lines) < 2 || strings.Contains(lines[1], "(error") {
					continue
				}
				m = parseModel(lines[1])
			}
			return Sat, m, b.idx
		}
	}
	return Unknown, nil, 0
}
