package symgo

// Cooperative threads: every interpreted goroutine is a host goroutine, but only
// the holder of the baton runs. Context switches happen at scheduling points and
// the choice of the next thread is a recorded decision.

import (
	"fmt"
	"go/token"
	"go/types"

	"golang.org/x/tools/go/ssa"
)

type thread struct {
	id      int
	resume  chan struct{}
	started bool
	done    bool
	blocked func() bool // nil when runnable; otherwise must return true to proceed
	fn      value
	args    []value
	pos     token.Pos
}

const abortDeadlock abortKind = 100

func (i *interpreter) newThread(fn value, args []value) *thread {
	t := &thread{id: len(i.threads), resume: make(chan struct{}, 1), fn: fn, args: args}
	if fn == nil {
		t.started = true // main
	}
	i.threads = append(i.threads, t)
	return t
}

func (i *interpreter) spawn(fn value, args []value, pos token.Pos) {
	t := i.newThread(fn, args)
	t.pos = pos
	if len(i.threads) > 16 {
		panic(pathAbort{kind: abortBudget, msg: "more than 16 threads"})
	}
}

func (t *thread) runnable() bool {
	return !t.done && (t.blocked == nil || t.blocked())
}

func (i *interpreter) runnableThreads() []*thread {
	var rs []*thread
	// current first so that choice 0 means "no context switch"
	if i.cur != nil && i.cur.runnable() {
		rs = append(rs, i.cur)
	}
	for _, t := range i.threads {
		if t != i.cur && t.runnable() {
			rs = append(rs, t)
		}
	}
	return rs
}

// yield is a scheduling point.
func (i *interpreter) yield() { i.yieldAt(false) }

// yieldAt is a scheduling point; an explicit one (verifYield) is not subject to the
// preemption bound.
func (i *interpreter) yieldAt(explicit bool) {
	if len(i.threads) <= 1 {
		return
	}
	rs := i.runnableThreads()
	if len(rs) <= 1 {
		if len(rs) == 1 && rs[0] != i.cur {
			i.switchTo(rs[0])
		}
		return
	}
	if !explicit && i.h != nil && i.h.MaxSwitches >= 0 && i.switches >= i.h.MaxSwitches && rs[0] == i.cur {
		return
	}
	k := i.choice(len(rs))
	if rs[k] != i.cur {
		i.switches++
		i.switchTo(rs[k])
	}
}

// block suspends the current thread until pred holds.
func (i *interpreter) block(pred func() bool, what string) {
	if pred() {
		return
	}
	me := i.cur
	me.blocked = pred
	for !pred() {
		var rs []*thread
		for _, t := range i.threads {
			if t != me && t.runnable() {
				rs = append(rs, t)
			}
		}
		if len(rs) == 0 {
			me.blocked = nil
			panic(pathAbort{kind: abortDeadlock, msg: "deadlock: thread " + fmt.Sprint(me.id) + " blocked on " + what})
		}
		k := i.choice(len(rs))
		i.switchTo(rs[k])
	}
	me.blocked = nil
}

func (i *interpreter) switchTo(t *thread) {
	prev := i.cur
	if t == prev {
		return
	}
	i.cur = t
	if !t.started {
		t.started = true
		go i.threadMain(t)
	} else {
		t.resume <- struct{}{}
	}
	i.park(prev)
}

// park waits until the thread gets the baton back.
func (i *interpreter) park(t *thread) {
	select {
	case <-t.resume:
	case <-i.dead:
		panic(pathAbort{kind: abortKilled})
	}
	if t.id == 0 && i.pendingPanic != nil {
		p := i.pendingPanic
		i.pendingPanic = nil
		panic(p)
	}
}

func (i *interpreter) threadMain(t *thread) {
	defer func() {
		p := recover()
		t.done = true
		if pa, ok := p.(pathAbort); ok && pa.kind == abortKilled {
			return
		}
		main := i.threads[0]
		if p != nil {
			// propagate to the main thread
			i.pendingPanic = p
			i.cur = main
			main.resume <- struct{}{}
			return
		}
		// pick somebody else to run
		var rs []*thread
		for _, o := range i.threads {
			if o != t && o.runnable() {
				rs = append(rs, o)
			}
		}
		if len(rs) == 0 {
			i.pendingPanic = pathAbort{kind: abortDeadlock, msg: "deadlock: all remaining threads blocked"}
			i.cur = main
			main.resume <- struct{}{}
			return
		}
		var next *thread
		func() {
			defer func() {
				if q := recover(); q != nil {
					i.pendingPanic = q
					next = main
				}
			}()
			next = rs[i.choice(len(rs))]
		}()
		i.cur = next
		if !next.started {
			next.started = true
			go i.threadMain(next)
		} else {
			next.resume <- struct{}{}
		}
	}()
	call(i, nil, t.pos, t.fn, t.args)
}

// runAll lets the other threads run until none of them is runnable.
func (i *interpreter) runAll() int {
	me := i.cur
	i.block(func() bool {
		for _, t := range i.threads {
			if t != me && t.runnable() {
				return false
			}
		}
		return true
	}, "runAll")
	n := 0
	for _, t := range i.threads {
		if t != me && !t.done {
			n++
		}
	}
	return n
}

// ---------------------------------------------------------------------
// mutexes

type mutexState struct {
	writer  bool
	readers int
}

func (i *interpreter) mutex(p *value) *mutexState {
	m := i.mutexes[p]
	if m == nil {
		m = &mutexState{}
		i.mutexes[p] = m
	}
	return m
}

func (i *interpreter) lock(p *value) {
	m := i.mutex(p)
	i.yield()
	i.block(func() bool { return !m.writer && m.readers == 0 }, "Mutex.Lock")
	m.writer = true
}

func (i *interpreter) tryLock(p *value) bool {
	m := i.mutex(p)
	i.yield()
	if !m.writer && m.readers == 0 {
		m.writer = true
		return true
	}
	return false
}

func (i *interpreter) unlock(p *value) {
	m := i.mutex(p)
	if !m.writer {
		panic(targetPanic{iface{t: i.eng.runtimeErrT, v: "sync: unlock of unlocked mutex"}})
	}
	m.writer = false
	// leaving a critical section is a point where another thread may run before this
	// one goes on (subject to the preemption bound): code that keeps using shared data
	// after it released the lock is only sound if it can be preempted here
	i.yield()
}

func (i *interpreter) rlock(p *value) {
	m := i.mutex(p)
	i.yield()
	i.block(func() bool { return !m.writer }, "RWMutex.RLock")
	m.readers++
}

func (i *interpreter) runlock(p *value) {
	m := i.mutex(p)
	if m.readers <= 0 {
		panic(targetPanic{iface{t: i.eng.runtimeErrT, v: "sync: RUnlock of unlocked RWMutex"}})
	}
	m.readers--
}

// ---------------------------------------------------------------------
// condition variables

type condWaiter struct {
	signaled bool
}

type condState struct {
	waiters []*condWaiter
}

func (i *interpreter) cond(p *value) *condState {
	c := i.conds[p]
	if c == nil {
		c = &condState{}
		i.conds[p] = c
	}
	return c
}

// ---------------------------------------------------------------------
// wait groups

type wgState struct {
	n int
}

// ---------------------------------------------------------------------
// pools

type poolState struct {
	free       []value
	private    value
	hasPrivate bool
}

// ---------------------------------------------------------------------
// channels

type chanv struct {
	buf    []value
	cap    int
	closed bool
	taken  int // number of values received so far (for unbuffered rendezvous)
	sent   int
}

func (i *interpreter) chanSend(c *chanv, v value) {
	i.yield()
	if c == nil {
		i.block(func() bool { return false }, "send on nil channel")
	}
	limit := c.cap
	if limit == 0 {
		limit = 1
	}
	i.block(func() bool { return c.closed || len(c.buf) < limit }, "chan send")
	if c.closed {
		panic(targetPanic{iface{t: i.eng.runtimeErrT, v: "send on closed channel"}})
	}
	c.buf = append(c.buf, copyVal(v))
	c.sent++
	if c.cap == 0 {
		ticket := c.sent
		i.block(func() bool { return c.taken >= ticket || c.closed }, "chan send (rendezvous)")
	}
}

func (i *interpreter) chanRecv(c *chanv, elem types.Type) (value, bool) {
	i.yield()
	if c == nil {
		i.block(func() bool { return false }, "receive from nil channel")
	}
	i.block(func() bool { return c.closed || len(c.buf) > 0 }, "chan recv")
	if len(c.buf) > 0 {
		v := c.buf[0]
		c.buf = c.buf[1:]
		c.taken++
		return v, true
	}
	return zero(elem), false
}

func (i *interpreter) chanClose(c *chanv) {
	if c == nil {
		panic(targetPanic{iface{t: i.eng.runtimeErrT, v: "close of nil channel"}})
	}
	if c.closed {
		panic(targetPanic{iface{t: i.eng.runtimeErrT, v: "close of closed channel"}})
	}
	c.closed = true
}

func (i *interpreter) doSelect(fr *frame, instr *ssa.Select) value {
	type sc struct {
		c    *chanv
		send bool
		v    value
	}
	var cases []sc
	for _, st := range instr.States {
		c, _ := fr.get(st.Chan).(*chanv)
		k := sc{c: c, send: st.Dir == types.SendOnly}
		if k.send {
			k.v = fr.get(st.Send)
		}
		cases = append(cases, k)
	}
	ready := func() []int {
		var rs []int
		for k, c := range cases {
			if c.c == nil {
				continue
			}
			if c.send {
				limit := c.c.cap
				if limit == 0 {
					limit = 1
				}
				if c.c.closed || len(c.c.buf) < limit {
					rs = append(rs, k)
				}
			} else if c.c.closed || len(c.c.buf) > 0 {
				rs = append(rs, k)
			}
		}
		return rs
	}
	i.yield()
	rs := ready()
	chosen := -1
	if len(rs) == 0 {
		if !instr.Blocking {
			chosen = -1
		} else {
			i.block(func() bool { return len(ready()) > 0 }, "select")
			rs = ready()
		}
	}
	if len(rs) > 0 {
		chosen = rs[i.choice(len(rs))]
	}
	r := tuple{chosen, false}
	var recvVal value
	recvOk := false
	if chosen >= 0 {
		c := cases[chosen]
		if c.send {
			if c.c.closed {
				panic(targetPanic{iface{t: i.eng.runtimeErrT, v: "send on closed channel"}})
			}
			c.c.buf = append(c.c.buf, copyVal(c.v))
			c.c.sent++
		} else if len(c.c.buf) > 0 {
			recvVal = c.c.buf[0]
			c.c.buf = c.c.buf[1:]
			c.c.taken++
			recvOk = true
		}
	}
	r[1] = recvOk
	for k, st := range instr.States {
		if st.Dir == types.RecvOnly {
			var v value
			if k == chosen && recvOk {
				v = recvVal
			} else {
				v = zero(st.Chan.Type().Underlying().(*types.Chan).Elem())
			}
			r = append(r, v)
		}
	}
	return r
}
