package symgo

// SMT terms: hash-consed, constant-folded, per-path.

import (
	"fmt"
	"hash/fnv"
	"math"
	"math/bits"
	"strconv"
	"strings"
)

// Sort of a term.
type Sort uint8

const (
	SBool Sort = iota
	SBV8
	SBV16
	SBV32
	SBV64
	SFP64
)

func (s Sort) Width() int {
	switch s {
	case SBool:
		return 1
	case SBV8:
		return 8
	case SBV16:
		return 16
	case SBV32:
		return 32
	case SBV64, SFP64:
		return 64
	}
	panic("bad sort")
}

func (s Sort) SMT() string {
	switch s {
	case SBool:
		return "Bool"
	case SFP64:
		return "(_ FloatingPoint 11 53)"
	}
	return fmt.Sprintf("(_ BitVec %d)", s.Width())
}

func bvSort(w int) Sort {
	switch w {
	case 8:
		return SBV8
	case 16:
		return SBV16
	case 32:
		return SBV32
	case 64:
		return SBV64
	}
	panic(fmt.Sprintf("bad bv width %d", w))
}

// Term is an SMT term.
type Term struct {
	op    string // "const", "var", or SMT operator; "extract:hi:lo", "zext:n", "sext:n"
	args  []*Term
	sort  Sort
	cval  uint64 // for const (bool: 0/1; fp: IEEE bits)
	name  string // for var
	id    int
	emit  bool // definition sent to solver
	depth int
}

func (t *Term) IsConst() bool { return t.op == "const" }
func (t *Term) Sort() Sort    { return t.sort }

// TermCtx owns the terms of one path.
type TermCtx struct {
	tab    map[string]*Term
	nextID int
	vars   []*Term
}

func NewTermCtx() *TermCtx {
	return &TermCtx{tab: make(map[string]*Term)}
}

func (c *TermCtx) intern(t *Term) *Term {
	var sb strings.Builder
	sb.WriteString(t.op)
	sb.WriteByte('|')
	sb.WriteByte(byte('0' + t.sort))
	if t.op == "const" {
		sb.WriteString(strconv.FormatUint(t.cval, 16))
	} else if t.op == "var" {
		sb.WriteString(t.name)
	}
	for _, a := range t.args {
		sb.WriteByte(',')
		sb.WriteString(strconv.Itoa(a.id))
	}
	k := sb.String()
	if old, ok := c.tab[k]; ok {
		return old
	}
	t.id = c.nextID
	c.nextID++
	for _, a := range t.args {
		if a.depth >= t.depth {
			t.depth = a.depth + 1
		}
	}
	if t.op != "const" && t.op != "var" {
		// content-addressed name: equal names denote structurally equal terms,
		// whatever the creation order on a path
		h := fnv.New64a()
		h.Write([]byte(t.op))
		h.Write([]byte{'|', byte('0' + t.sort)})
		for _, a := range t.args {
			h.Write([]byte{','})
			h.Write([]byte(refName(a)))
		}
		t.name = fmt.Sprintf("t!%016x", h.Sum64())
	}
	c.tab[k] = t
	return t
}

func mask(w int) uint64 {
	if w >= 64 {
		return ^uint64(0)
	}
	return (uint64(1) << uint(w)) - 1
}

func (c *TermCtx) Const(s Sort, v uint64) *Term {
	if s != SFP64 {
		v &= mask(s.Width())
	}
	return c.intern(&Term{op: "const", sort: s, cval: v})
}

func (c *TermCtx) Bool(b bool) *Term {
	if b {
		return c.Const(SBool, 1)
	}
	return c.Const(SBool, 0)
}

func (c *TermCtx) Var(name string, s Sort) *Term {
	n := c.nextID
	t := c.intern(&Term{op: "var", sort: s, name: name})
	if t.id == n {
		c.vars = append(c.vars, t)
	}
	return t
}

func sext(v uint64, w int) int64 {
	sh := uint(64 - w)
	return int64(v<<sh) >> sh
}

// Mk builds op(args...) with folding. sort is the result sort.
func (c *TermCtx) Mk(op string, sort Sort, args ...*Term) *Term {
	allc := true
	for _, a := range args {
		if !a.IsConst() {
			allc = false
			break
		}
	}
	if allc {
		if v, ok := foldConst(op, sort, args); ok {
			return c.Const(sort, v)
		}
	}
	// light simplifications
	switch op {
	case "not":
		a := args[0]
		if a.op == "not" {
			return a.args[0]
		}
	case "and":
		var out []*Term
		for _, a := range args {
			if a.IsConst() {
				if a.cval == 0 {
					return c.Bool(false)
				}
				continue
			}
			out = append(out, a)
		}
		if len(out) == 0 {
			return c.Bool(true)
		}
		if len(out) == 1 {
			return out[0]
		}
		if len(out) == 2 && out[0] == out[1] {
			return out[0]
		}
		args = out
	case "or":
		var out []*Term
		for _, a := range args {
			if a.IsConst() {
				if a.cval == 1 {
					return c.Bool(true)
				}
				continue
			}
			out = append(out, a)
		}
		if len(out) == 0 {
			return c.Bool(false)
		}
		if len(out) == 1 {
			return out[0]
		}
		if len(out) == 2 && out[0] == out[1] {
			return out[0]
		}
		args = out
	case "ite":
		if args[0].IsConst() {
			if args[0].cval == 1 {
				return args[1]
			}
			return args[2]
		}
		if args[1] == args[2] {
			return args[1]
		}
		if sort == SBool && args[1].IsConst() && args[2].IsConst() {
			if args[1].cval == 1 && args[2].cval == 0 {
				return args[0]
			}
			if args[1].cval == 0 && args[2].cval == 1 {
				return c.Mk("not", SBool, args[0])
			}
		}
	case "=":
		if args[0] == args[1] && args[0].sort != SFP64 {
			return c.Bool(true)
		}
		if args[0].sort == SBool {
			if args[1].IsConst() {
				if args[1].cval == 1 {
					return args[0]
				}
				return c.Mk("not", SBool, args[0])
			}
			if args[0].IsConst() {
				if args[0].cval == 1 {
					return args[1]
				}
				return c.Mk("not", SBool, args[1])
			}
		}
		// (= (zext x) const) where const does not fit -> false
		for k := 0; k < 2; k++ {
			a, b := args[k], args[1-k]
			if b.IsConst() && strings.HasPrefix(a.op, "zext:") {
				inner := a.args[0]
				if b.cval > mask(inner.sort.Width()) {
					return c.Bool(false)
				}
				return c.Mk("=", SBool, inner, c.Const(inner.sort, b.cval))
			}
		}
	case "bvadd":
		// canonical form: constant first; nested constants folded
		if args[1].IsConst() && !args[0].IsConst() {
			args = []*Term{args[1], args[0]}
		}
		if args[0].IsConst() {
			if args[0].cval == 0 {
				return args[1]
			}
			if in := args[1]; in.op == "bvadd" && in.args[0].IsConst() {
				return c.Mk("bvadd", sort, c.Const(sort, args[0].cval+in.args[0].cval), in.args[1])
			}
		}
	case "bvor", "bvxor":
		if args[0].IsConst() && args[0].cval == 0 {
			return args[1]
		}
		if args[1].IsConst() && args[1].cval == 0 {
			return args[0]
		}
	case "bvsub":
		if args[1].IsConst() {
			if args[1].cval == 0 {
				return args[0]
			}
			return c.Mk("bvadd", sort, c.Const(sort, -args[1].cval), args[0])
		}
		if args[0] == args[1] {
			return c.Const(sort, 0)
		}
	case "bvshl", "bvlshr", "bvashr":
		if args[1].IsConst() && args[1].cval == 0 {
			return args[0]
		}
	case "bvand":
		if args[0].IsConst() && args[0].cval == 0 || args[1].IsConst() && args[1].cval == 0 {
			return c.Const(sort, 0)
		}
		if args[0].IsConst() && args[0].cval == mask(sort.Width()) {
			return args[1]
		}
		if args[1].IsConst() && args[1].cval == mask(sort.Width()) {
			return args[0]
		}
	case "bvmul":
		if args[0].IsConst() && args[0].cval == 1 {
			return args[1]
		}
		if args[1].IsConst() && args[1].cval == 1 {
			return args[0]
		}
		if args[0].IsConst() && args[0].cval == 0 || args[1].IsConst() && args[1].cval == 0 {
			return c.Const(sort, 0)
		}
	}
	if strings.HasPrefix(op, "extract:") {
		// extract of zext/sext that stays within the inner term
		var hi, lo int
		fmt.Sscanf(op, "extract:%d:%d", &hi, &lo)
		a := args[0]
		if lo == 0 && hi == a.sort.Width()-1 {
			return a
		}
		if strings.HasPrefix(a.op, "zext:") || strings.HasPrefix(a.op, "sext:") {
			in := a.args[0]
			if lo == 0 && hi == in.sort.Width()-1 {
				return in
			}
			if lo == 0 && hi < in.sort.Width()-1 {
				return c.Mk(op, sort, in)
			}
		}
	}
	return c.intern(&Term{op: op, sort: sort, args: append([]*Term(nil), args...)})
}

func b2u(b bool) uint64 {
	if b {
		return 1
	}
	return 0
}

func foldConst(op string, sort Sort, args []*Term) (uint64, bool) {
	a := func(i int) uint64 { return args[i].cval }
	w := 0
	if len(args) > 0 {
		w = args[0].sort.Width()
	}
	sa := func(i int) int64 { return sext(args[i].cval, args[i].sort.Width()) }
	if len(args) > 0 && args[0].sort == SFP64 || sort == SFP64 {
		return foldFP(op, sort, args)
	}
	switch op {
	case "not":
		return a(0) ^ 1, true
	case "and":
		r := uint64(1)
		for i := range args {
			r &= a(i)
		}
		return r, true
	case "or":
		r := uint64(0)
		for i := range args {
			r |= a(i)
		}
		return r, true
	case "=":
		return b2u(a(0) == a(1)), true
	case "ite":
		if a(0) == 1 {
			return a(1), true
		}
		return a(2), true
	case "bvadd":
		return a(0) + a(1), true
	case "bvsub":
		return a(0) - a(1), true
	case "bvmul":
		return a(0) * a(1), true
	case "bvudiv":
		if a(1) == 0 {
			return mask(w), true
		}
		return a(0) / a(1), true
	case "bvurem":
		if a(1) == 0 {
			return a(0), true
		}
		return a(0) % a(1), true
	case "bvsdiv":
		if a(1) == 0 {
			return 0, false
		}
		if sa(1) == -1 {
			return uint64(-sa(0)), true
		}
		return uint64(sa(0) / sa(1)), true
	case "bvsrem":
		if a(1) == 0 {
			return 0, false
		}
		if sa(1) == -1 {
			return 0, true
		}
		return uint64(sa(0) % sa(1)), true
	case "bvand":
		return a(0) & a(1), true
	case "bvor":
		return a(0) | a(1), true
	case "bvxor":
		return a(0) ^ a(1), true
	case "bvnot":
		return ^a(0), true
	case "bvneg":
		return -a(0), true
	case "bvshl":
		if a(1) >= uint64(w) {
			return 0, true
		}
		return a(0) << a(1), true
	case "bvlshr":
		if a(1) >= uint64(w) {
			return 0, true
		}
		return a(0) >> a(1), true
	case "bvashr":
		sh := a(1)
		if sh >= uint64(w) {
			sh = uint64(w - 1)
		}
		return uint64(sa(0) >> sh), true
	case "bvult":
		return b2u(a(0) < a(1)), true
	case "bvule":
		return b2u(a(0) <= a(1)), true
	case "bvslt":
		return b2u(sa(0) < sa(1)), true
	case "bvsle":
		return b2u(sa(0) <= sa(1)), true
	case "concat":
		return a(0)<<uint(args[1].sort.Width()) | a(1), true
	}
	if strings.HasPrefix(op, "extract:") {
		var hi, lo int
		fmt.Sscanf(op, "extract:%d:%d", &hi, &lo)
		return (a(0) >> uint(lo)) & mask(hi-lo+1), true
	}
	if strings.HasPrefix(op, "zext:") {
		return a(0), true
	}
	if strings.HasPrefix(op, "sext:") {
		return uint64(sa(0)), true
	}
	_ = bits.Len
	return 0, false
}

func foldFP(op string, sort Sort, args []*Term) (uint64, bool) {
	f := func(i int) float64 { return math.Float64frombits(args[i].cval) }
	switch op {
	case "fp.add":
		return math.Float64bits(f(0) + f(1)), true
	case "fp.sub":
		return math.Float64bits(f(0) - f(1)), true
	case "fp.mul":
		return math.Float64bits(f(0) * f(1)), true
	case "fp.div":
		return math.Float64bits(f(0) / f(1)), true
	case "fp.neg":
		return math.Float64bits(-f(0)), true
	case "fp.lt":
		return b2u(f(0) < f(1)), true
	case "fp.leq":
		return b2u(f(0) <= f(1)), true
	case "fp.eq":
		return b2u(f(0) == f(1)), true
	case "fp.isNaN":
		return b2u(math.IsNaN(f(0))), true
	case "fp.round":
		return math.Float64bits(math.Round(f(0))), true
	case "fp.from_sbv":
		return math.Float64bits(float64(sext(args[0].cval, args[0].sort.Width()))), true
	case "fp.from_ubv":
		return math.Float64bits(float64(args[0].cval)), true
	}
	return 0, false
}

// smtOp renders the operator application.
func (t *Term) render(ref func(*Term) string) string {
	switch t.op {
	case "const":
		switch t.sort {
		case SBool:
			if t.cval == 1 {
				return "true"
			}
			return "false"
		case SFP64:
			return fmt.Sprintf("((_ to_fp 11 53) #x%016x)", t.cval)
		}
		return fmt.Sprintf("#x%0*x", t.sort.Width()/4, t.cval)
	case "var":
		return t.name
	}
	var sb strings.Builder
	op := t.op
	switch {
	case strings.HasPrefix(op, "extract:"):
		var hi, lo int
		fmt.Sscanf(op, "extract:%d:%d", &hi, &lo)
		op = fmt.Sprintf("(_ extract %d %d)", hi, lo)
	case strings.HasPrefix(op, "zext:"):
		op = "(_ zero_extend " + op[5:] + ")"
	case strings.HasPrefix(op, "sext:"):
		op = "(_ sign_extend " + op[5:] + ")"
	case op == "fp.add", op == "fp.sub", op == "fp.mul", op == "fp.div":
		op = op + " RNE"
	case op == "fp.round":
		op = "fp.roundToIntegral RNA"
	case op == "fp.from_sbv":
		op = "(_ to_fp 11 53) RNE"
	case op == "fp.from_ubv":
		op = "(_ to_fp_unsigned 11 53) RNE"
	case strings.HasPrefix(op, "fp.to_sbv:"):
		op = "(_ fp.to_sbv " + op[10:] + ") RTZ"
	case strings.HasPrefix(op, "fp.to_ubv:"):
		op = "(_ fp.to_ubv " + op[10:] + ") RTZ"
	case op == "fp.bits":
		// handled by caller (no direct SMT function); unsupported
		op = "fp.to_ieee_bv"
	}
	sb.WriteByte('(')
	sb.WriteString(op)
	for _, a := range t.args {
		sb.WriteByte(' ')
		sb.WriteString(ref(a))
	}
	sb.WriteByte(')')
	return sb.String()
}

// String renders the term fully inlined (for debugging / small terms).
func (t *Term) String() string {
	var ref func(*Term) string
	ref = func(x *Term) string { return x.render(ref) }
	return ref(t)
}

// Eval evaluates the term under a model (var name -> value).
func (t *Term) Eval(m map[string]uint64) (uint64, bool) {
	memo := map[*Term]uint64{}
	var ev func(x *Term) (uint64, bool)
	ev = func(x *Term) (uint64, bool) {
		if v, ok := memo[x]; ok {
			return v, true
		}
		var r uint64
		switch x.op {
		case "const":
			r = x.cval
		case "var":
			v, ok := m[x.name]
			if !ok {
				v = 0
			}
			r = v
		default:
			cs := make([]*Term, len(x.args))
			for i, a := range x.args {
				v, ok := ev(a)
				if !ok {
					return 0, false
				}
				cs[i] = &Term{op: "const", sort: a.sort, cval: v}
			}
			v, ok := foldConst(x.op, x.sort, cs)
			if !ok {
				return 0, false
			}
			if x.sort != SFP64 {
				v &= mask(x.sort.Width())
			}
			r = v
		}
		memo[x] = r
		return r, true
	}
	return ev(t)
}
