package symgo

import (
	"crypto/sha256"
	"fmt"
	"go/token"
	"go/types"
	"strings"

	"golang.org/x/net/publicsuffix"
)

func initAtomicExternals() {
	ity := map[string]types.BasicKind{
		"Int32": types.Int32, "Int64": types.Int64, "Uint32": types.Uint32, "Uint64": types.Uint64, "Uintptr": types.Uintptr,
	}
	for name, k := range ity {
		k := k
		T := types.Typ[k]
		externals["sync/atomic.Load"+name] = func(fr *frame, a []value) value {
			fr.i.yield()
			return *fr.i.deref(a[0])
		}
		externals["sync/atomic.Store"+name] = func(fr *frame, a []value) value {
			fr.i.yield()
			*fr.i.deref(a[0]) = a[1]
			return nil
		}
		externals["sync/atomic.Swap"+name] = func(fr *frame, a []value) value {
			fr.i.yield()
			p := fr.i.deref(a[0])
			old := *p
			*p = a[1]
			return old
		}
		externals["sync/atomic.Add"+name] = func(fr *frame, a []value) value {
			fr.i.yield()
			p := fr.i.deref(a[0])
			*p = binop(fr.i, token.ADD, T, *p, a[1])
			return *p
		}
		externals["sync/atomic.And"+name] = func(fr *frame, a []value) value {
			fr.i.yield()
			p := fr.i.deref(a[0])
			old := *p
			*p = binop(fr.i, token.AND, T, *p, a[1])
			return old
		}
		externals["sync/atomic.Or"+name] = func(fr *frame, a []value) value {
			fr.i.yield()
			p := fr.i.deref(a[0])
			old := *p
			*p = binop(fr.i, token.OR, T, *p, a[1])
			return old
		}
		externals["sync/atomic.CompareAndSwap"+name] = func(fr *frame, a []value) value {
			fr.i.yield()
			p := fr.i.deref(a[0])
			if fr.i.branch(fr.i.equals(T, *p, a[1])) {
				*p = a[2]
				return true
			}
			return false
		}
	}
	externals["sync/atomic.LoadPointer"] = func(fr *frame, a []value) value {
		fr.i.yield()
		return *fr.i.deref(a[0])
	}
	externals["sync/atomic.StorePointer"] = func(fr *frame, a []value) value {
		fr.i.yield()
		*fr.i.deref(a[0]) = a[1]
		return nil
	}
	externals["sync/atomic.SwapPointer"] = func(fr *frame, a []value) value {
		fr.i.yield()
		p := fr.i.deref(a[0])
		old := *p
		*p = a[1]
		return old
	}
	externals["sync/atomic.CompareAndSwapPointer"] = func(fr *frame, a []value) value {
		fr.i.yield()
		p := fr.i.deref(a[0])
		if (*p).(*value) == a[1].(*value) {
			*p = a[2]
			return true
		}
		return false
	}
	// atomic.Pointer[T]: struct { _ [0]*T; _ noCopy; v unsafe.Pointer }
	ptrField := func(fr *frame, recv value) *value {
		st := (*fr.i.deref(recv)).(structure)
		return &st[len(st)-1]
	}
	externals["(*sync/atomic.Pointer[T]).Load"] = func(fr *frame, a []value) value {
		fr.i.yield()
		return *ptrField(fr, a[0])
	}
	externals["(*sync/atomic.Pointer[T]).Store"] = func(fr *frame, a []value) value {
		fr.i.yield()
		*ptrField(fr, a[0]) = a[1]
		return nil
	}
	externals["(*sync/atomic.Pointer[T]).Swap"] = func(fr *frame, a []value) value {
		fr.i.yield()
		p := ptrField(fr, a[0])
		old := *p
		*p = a[1]
		return old
	}
	externals["(*sync/atomic.Pointer[T]).CompareAndSwap"] = func(fr *frame, a []value) value {
		fr.i.yield()
		p := ptrField(fr, a[0])
		if (*p).(*value) == a[1].(*value) {
			*p = a[2]
			return true
		}
		return false
	}
	// atomic.Value: struct { v any }
	externals["(*sync/atomic.Value).Load"] = func(fr *frame, a []value) value {
		fr.i.yield()
		st := (*fr.i.deref(a[0])).(structure)
		return st[0]
	}
	externals["(*sync/atomic.Value).Store"] = func(fr *frame, a []value) value {
		fr.i.yield()
		st := (*fr.i.deref(a[0])).(structure)
		st[0] = a[1]
		return nil
	}

	// fmt error types (fmt is otherwise opaque)
	externals["(*fmt.wrapError).Error"] = func(fr *frame, a []value) value { return (*fr.i.deref(a[0])).(structure)[0] }
	externals["(*fmt.wrapError).Unwrap"] = func(fr *frame, a []value) value { return (*fr.i.deref(a[0])).(structure)[1] }
	externals["(*fmt.wrapErrors).Error"] = func(fr *frame, a []value) value { return (*fr.i.deref(a[0])).(structure)[0] }
	externals["(*fmt.wrapErrors).Unwrap"] = func(fr *frame, a []value) value { return (*fr.i.deref(a[0])).(structure)[1] }
}

// newNondet creates a fresh symbolic input.
func (i *interpreter) newNondet(k types.BasicKind, tag string) value {
	name := fmt.Sprintf("v_in%d", len(i.nondets))
	t := i.tc.Var(name, kindSort(k))
	i.nondets = append(i.nondets, nondetRec{Name: name, Kind: k, T: t, Tag: tag})
	return &Sym{t}
}

func initHarnessExternals() {
	nd := func(k types.BasicKind) externalFn {
		return func(fr *frame, a []value) value { return fr.i.newNondet(k, "") }
	}
	h := map[string]externalFn{
		"nondetBool": nd(types.Bool),
		"nondetU8":   nd(types.Uint8),
		"nondetU16":  nd(types.Uint16),
		"nondetU32":  nd(types.Uint32),
		"nondetU64":  nd(types.Uint64),
		"nondetI8":   nd(types.Int8),
		"nondetI16":  nd(types.Int16),
		"nondetI32":  nd(types.Int32),
		"nondetI64":  nd(types.Int64),
		"nondetInt":  nd(types.Int),
		"nondetUint": nd(types.Uint),
		"verifAssume": func(fr *frame, a []value) value {
			fr.i.assume(a[0])
			return nil
		},
		"verifAssert": func(fr *frame, a []value) value {
			i := fr.i
			label := a[0].(string)
			if i.pos < len(i.script) {
				// already checked by the parent path: keep only the assumption
				if _, ok := a[1].(bool); !ok {
					i.pcAssert(a[1].(*Sym).t)
				}
				return nil
			}
			i.assert(label, a[1])
			return nil
		},
		"verifReach": func(fr *frame, a []value) value {
			i := fr.i
			label := a[0].(string)
			if i.pos < len(i.script) {
				return nil
			}
			for _, l := range i.res.Reached {
				if l == label {
					return nil
				}
			}
			i.res.Reached = append(i.res.Reached, label)
			if i.eng.needSample(i.h, label) {
				r, m := i.solver.Check(nil, i.nondetVars(), true)
				if r == Sat {
					i.res.samples = append(i.res.samples, Sample{Label: label, Inputs: i.modelInputs(m), Script: scriptString(i.script[:i.pos])})
				}
			}
			return nil
		},
		"verifObserve": func(fr *frame, a []value) value {
			var sb strings.Builder
			sb.WriteString(a[0].(string))
			for _, x := range a[1].([]value) {
				sb.WriteByte(' ')
				if it, ok := x.(iface); ok {
					sb.WriteString(toString(it.v))
				} else {
					sb.WriteString(toString(x))
				}
			}
			fr.i.res.Observation = append(fr.i.res.Observation, sb.String())
			return nil
		},
		"verifChoice": func(fr *frame, a []value) value {
			return fr.i.choiceK('h', int(asInt64(a[0])))
		},
		// a choice only the symbolic build makes (fault injection in a stub that has
		// no native counterpart): recorded as 's', not consumed by the native replay
		"verifSymChoice": func(fr *frame, a []value) value {
			return fr.i.choiceK('s', int(asInt64(a[0])))
		},
		"verifPoolMode": func(fr *frame, a []value) value {
			fr.i.poolMode = int(asInt64(a[0]))
			return nil
		},
		"verifRunAll": func(fr *frame, a []value) value { return fr.i.runAll() },
		"verifYield":  func(fr *frame, a []value) value { fr.i.yieldAt(true); return nil },
		"verifStop": func(fr *frame, a []value) value {
			panic(pathAbort{kind: abortDone})
		},
		"verifSetClock": func(fr *frame, a []value) value {
			fr.i.fixedClock = a[0]
			fr.i.hasFixedClock = true
			return nil
		},
		"verifAnd": func(fr *frame, a []value) value {
			var r value = true
			for _, x := range a[0].([]value) {
				r = fr.i.and2(r, x)
			}
			return r
		},
		"verifOr": func(fr *frame, a []value) value {
			var r value = false
			for _, x := range a[0].([]value) {
				r = fr.i.not(fr.i.and2(fr.i.not(r), fr.i.not(x)))
			}
			return r
		},
		"verifIte64": func(fr *frame, a []value) value {
			i := fr.i
			if b, ok := a[0].(bool); ok {
				if b {
					return a[1]
				}
				return a[2]
			}
			return unterm(i.tc.Mk("ite", SBV64, i.term(a[0]), i.term(a[1]), i.term(a[2])), types.Uint64)
		},
		"verifDurationParts": func(fr *frame, a []value) value {
			// d = sec*1e9 + nsec with 0 <= sec < 2^33, 0 <= nsec < 1e9; division of d by 1e9 is answered from the parts
			i := fr.i
			sec, nsec := i.term(a[0]), i.term(a[1])
			c := func(v uint64) *Term { return i.tc.Const(SBV64, v) }
			i.assume(unterm(i.tc.Mk("and", SBool,
				i.tc.Mk("bvsle", SBool, c(0), sec), i.tc.Mk("bvslt", SBool, sec, c(1<<33)),
				i.tc.Mk("bvsle", SBool, c(0), nsec), i.tc.Mk("bvslt", SBool, nsec, c(1000000000))), types.Bool))
			d := i.tc.Mk("bvadd", SBV64, i.tc.Mk("bvmul", SBV64, sec, c(1000000000)), nsec)
			if i.divHints == nil {
				i.divHints = map[*Term]divHint{}
			}
			i.divHints[d] = divHint{c: 1000000000, q: sec, r: nsec}
			return unterm(d, types.Int64)
		},
		"verifIsSymbolic": func(fr *frame, a []value) value { return true },
		"verifSameObject": func(fr *frame, a []value) value {
			// pointer identity of two interface-boxed pointers or slices (first element)
			return sameObject(a[0], a[1])
		},
	}
	for k, v := range h {
		harnessExternals[k] = v
	}
}

var harnessExternals = map[string]externalFn{}

func sameObject(x, y value) bool {
	if xi, ok := x.(iface); ok {
		x = xi.v
	}
	if yi, ok := y.(iface); ok {
		y = yi.v
	}
	switch a := x.(type) {
	case *value:
		b, ok := y.(*value)
		return ok && a == b
	case []value:
		b, ok := y.([]value)
		if !ok || cap(a) == 0 || cap(b) == 0 {
			return false
		}
		return &a[:1][0] == &b[:1][0]
	case *hmap:
		b, ok := y.(*hmap)
		return ok && a == b
	}
	return false
}

// needSample reports whether a witness model should be extracted for label.
func (e *Engine) needSample(h *Harness, label string) bool {
	key := h.Name + "|" + label
	_, loaded := e.sampled.LoadOrStore(key, true)
	return !loaded
}

// reflValue is the native model of a reflect.Value (only integer inspection is supported).
type reflValue struct {
	t types.Type
	v value
}

func init() {
	externals["reflect.ValueOf"] = func(fr *frame, a []value) value {
		it := a[0].(iface)
		return reflValue{it.t, it.v}
	}
	kindOf := func(v value) types.BasicKind {
		rv := v.(reflValue)
		if rv.t == nil {
			return types.Invalid
		}
		return basicKind(rv.t)
	}
	externals["(reflect.Value).IsValid"] = func(fr *frame, a []value) value { return a[0].(reflValue).t != nil }
	externals["(reflect.Value).CanInt"] = func(fr *frame, a []value) value {
		k := kindOf(a[0])
		return kindIsInt(k) && kindSigned(k)
	}
	externals["(reflect.Value).CanUint"] = func(fr *frame, a []value) value {
		k := kindOf(a[0])
		return kindIsInt(k) && !kindSigned(k)
	}
	externals["(reflect.Value).Int"] = func(fr *frame, a []value) value {
		k := kindOf(a[0])
		if !kindIsInt(k) || !kindSigned(k) {
			panic(targetPanic{fr.i.runtimeError("reflect: call of reflect.Value.Int on non-int Value")})
		}
		return convNumeric(fr.i, types.Int64, k, a[0].(reflValue).v)
	}
	externals["(reflect.Value).Uint"] = func(fr *frame, a []value) value {
		k := kindOf(a[0])
		if !kindIsInt(k) || kindSigned(k) {
			panic(targetPanic{fr.i.runtimeError("reflect: call of reflect.Value.Uint on non-uint Value")})
		}
		return convNumeric(fr.i, types.Uint64, k, a[0].(reflValue).v)
	}
}

// ---- hash/maphash: the hash of a byte stream is an uninterpreted function of the
// stream: equal streams give equal hashes (Ackermann constraints between all Sum64
// calls of a path); with Harness.HashInjective different streams give different
// hashes (the stated no-collision assumption).

type hashCall struct {
	stream []value
	h      *Term
}

func init() {
	stream := func(fr *frame, p value) *[]value {
		i := fr.i
		pp := i.deref(p)
		if i.hashStreams == nil {
			i.hashStreams = map[*value]*[]value{}
		}
		s := i.hashStreams[pp]
		if s == nil {
			s = &[]value{}
			i.hashStreams[pp] = s
		}
		return s
	}
	externals["hash/maphash.MakeSeed"] = func(fr *frame, a []value) value { return structure{uint64(1)} }
	externals["(*hash/maphash.Hash).SetSeed"] = func(fr *frame, a []value) value { *stream(fr, a[0]) = nil; return nil }
	externals["(*hash/maphash.Hash).Reset"] = func(fr *frame, a []value) value { *stream(fr, a[0]) = nil; return nil }
	externals["(*hash/maphash.Hash).WriteString"] = func(fr *frame, a []value) value {
		s := stream(fr, a[0])
		b := strBytes(a[1])
		*s = append(*s, b...)
		return tuple{len(b), iface{}}
	}
	externals["(*hash/maphash.Hash).Write"] = func(fr *frame, a []value) value {
		s := stream(fr, a[0])
		b := a[1].([]value)
		*s = append(*s, b...)
		return tuple{len(b), iface{}}
	}
	externals["(*hash/maphash.Hash).WriteByte"] = func(fr *frame, a []value) value {
		s := stream(fr, a[0])
		*s = append(*s, a[1])
		return iface{}
	}
	externals["(*hash/maphash.Hash).Sum64"] = func(fr *frame, a []value) value {
		i := fr.i
		s := append([]value(nil), *stream(fr, a[0])...)
		return i.hashOf(s)
	}
}

func (i *interpreter) hashOf(s []value) value {
	h := i.tc.Var(fmt.Sprintf("v_hash%d", len(i.hashCalls)), SBV64)
	me := mkStr(s)
	for _, prev := range i.hashCalls {
		var same value = false
		if len(prev.stream) == len(s) {
			same = i.strEq(mkStr(prev.stream), me)
		}
		eqH := i.tc.Mk("=", SBool, prev.h, h)
		st := i.term(same)
		// functional consistency
		i.pcAssert(i.tc.Mk("or", SBool, i.tc.Mk("not", SBool, st), eqH))
		if i.h == nil || !i.h.HashCollisions {
			// no-collision assumption
			i.pcAssert(i.tc.Mk("or", SBool, st, i.tc.Mk("not", SBool, eqH)))
		}
	}
	i.hashCalls = append(i.hashCalls, hashCall{stream: s, h: h})
	return &Sym{h}
}

// ---- crypto/sha256: real digest for concrete input; for symbolic input an
// uninterpreted function of the input bytes (consistent and collision-free).

type ufCall struct {
	in  []value
	out []*Term
}

func init() {
	externals["crypto/sha256.Sum256"] = func(fr *frame, a []value) value {
		i := fr.i
		in := a[0].([]value)
		conc := make([]byte, len(in))
		allc := true
		for k, b := range in {
			c, ok := b.(uint8)
			if !ok {
				allc = false
				break
			}
			conc[k] = c
		}
		out := make(array, 32)
		call := ufCall{in: append([]value(nil), in...)}
		if allc {
			sum := sha256.Sum256(conc)
			for k := range out {
				out[k] = sum[k]
				call.out = append(call.out, i.tc.Const(SBV8, uint64(sum[k])))
			}
			if i.solver == nil {
				return out
			}
		} else {
			for k := 0; k < 32; k++ {
				t := i.tc.Var(fmt.Sprintf("v_sha%d_%d", len(i.shaCalls), k), SBV8)
				call.out = append(call.out, t)
				out[k] = &Sym{t}
			}
		}
		me := mkStr(call.in)
		for _, prev := range i.shaCalls {
			if allc && !containsSym(prev.in, 0) {
				continue // two concrete digests need no constraint
			}
			var same value = false
			if len(prev.in) == len(call.in) {
				same = i.strEq(mkStr(prev.in), me)
			}
			var eqs []*Term
			for k := range call.out {
				eqs = append(eqs, i.tc.Mk("=", SBool, prev.out[k], call.out[k]))
			}
			eqOut := i.tc.Mk("and", SBool, eqs...)
			st := i.term(same)
			i.pcAssert(i.tc.Mk("or", SBool, i.tc.Mk("not", SBool, st), eqOut))
			i.pcAssert(i.tc.Mk("or", SBool, st, i.tc.Mk("not", SBool, eqOut)))
		}
		i.shaCalls = append(i.shaCalls, call)
		return out
	}
}

// ---- golang.org/x/net/publicsuffix: the table is embedded with go:embed, which the
// SSA form does not carry; the real library is called for concrete names.

func init() {
	externals["golang.org/x/net/publicsuffix.PublicSuffix"] = func(fr *frame, a []value) value {
		d, ok := a[0].(string)
		if !ok {
			panic(pathAbort{kind: abortUnsupported, msg: "publicsuffix.PublicSuffix of a symbolic name"})
		}
		ps, icann := publicsuffix.PublicSuffix(d)
		return tuple{ps, icann}
	}
}

// Logging helpers of the no-op packages that have an effect besides logging.
func init() {
	closeArg := func(k int) func(fr *frame, a []value) value {
		return func(fr *frame, a []value) value {
			if c, ok := a[k].(iface); ok && c.t != nil {
				callMethod(fr.i, fr, c, "Close")
			}
			return nil
		}
	}
	// func OnCloserError(closer io.Closer, l Level): closes and logs the error
	externals["github.com/AdguardTeam/golibs/log.OnCloserError"] = closeArg(0)
	// func CloseAndLog(ctx, l *slog.Logger, closer io.Closer, lvl slog.Level)
	externals["github.com/AdguardTeam/golibs/logutil/slogutil.CloseAndLog"] = closeArg(2)
	// func ContextWithLogger(parent context.Context, l *slog.Logger) context.Context
	externals["github.com/AdguardTeam/golibs/logutil/slogutil.ContextWithLogger"] = func(fr *frame, a []value) value { return a[0] }
}
