package symgo

// Native models of functions that are not interpreted from SSA (trusted base).

import (
	"fmt"
	"go/token"
	"go/types"
	"math"
	"strconv"
	"strings"

	"golang.org/x/tools/go/ssa"
)

type externalFn func(fr *frame, args []value) value

// nativeFn is a first-class function value implemented by the engine.
type nativeFn struct {
	name string
	f    func(i *interpreter, args []value) value
}

var externals = map[string]externalFn{}

func init() {
	for k, v := range map[string]externalFn{
		// ---- sync
		"(*sync.Mutex).Lock":      func(fr *frame, a []value) value { fr.i.lock(a[0].(*value)); return nil },
		"(*sync.Mutex).Unlock":    func(fr *frame, a []value) value { fr.i.unlock(a[0].(*value)); return nil },
		"(*sync.Mutex).TryLock":   func(fr *frame, a []value) value { return fr.i.tryLock(a[0].(*value)) },
		"(*sync.RWMutex).Lock":    func(fr *frame, a []value) value { fr.i.lock(a[0].(*value)); return nil },
		"(*sync.RWMutex).Unlock":  func(fr *frame, a []value) value { fr.i.unlock(a[0].(*value)); return nil },
		"(*sync.RWMutex).RLock":   func(fr *frame, a []value) value { fr.i.rlock(a[0].(*value)); return nil },
		"(*sync.RWMutex).RUnlock": func(fr *frame, a []value) value { fr.i.runlock(a[0].(*value)); return nil },
		"(*sync.Once).Do":         extOnceDo,
		"(*sync.WaitGroup).Add":   extWGAdd,
		"(*sync.WaitGroup).Done":  func(fr *frame, a []value) value { return extWGAdd(fr, []value{a[0], int(-1)}) },
		"(*sync.WaitGroup).Wait":  extWGWait,
		"(*sync.Pool).Get":        extPoolGet,
		"(*sync.Pool).Put":        extPoolPut,
		"(*sync.Cond).Wait":       extCondWait,
		"(*sync.Cond).Signal":     extCondSignal,
		"(*sync.Cond).Broadcast":  extCondBroadcast,
		"sync.runtime_registerPoolCleanup": extNop,
		"sync.throw":              func(fr *frame, a []value) value { panic(targetPanic{fr.i.runtimeError(a[0].(string))}) },
		"sync.fatal":              func(fr *frame, a []value) value { panic(targetPanic{fr.i.runtimeError(a[0].(string))}) },

		// ---- runtime bits
		"(runtime.errorString).Error":        func(fr *frame, a []value) value { return "runtime error: " + a[0].(string) },
		"(runtime.errorString).RuntimeError": extNop,
		"runtime.Gosched":                    func(fr *frame, a []value) value { fr.i.yield(); return nil },
		"runtime.GC":                         extNop,
		"runtime/debug.Stack":                func(fr *frame, a []value) value { return strBytes("<stack>") },
		"runtime/debug.PrintStack":           extNop,
		"runtime.KeepAlive":                  extNop,
		"runtime.SetFinalizer":               extNop,
		"runtime.GOMAXPROCS":                 func(fr *frame, a []value) value { return int(1) },
		"runtime.NumCPU":                     func(fr *frame, a []value) value { return int(1) },
		"internal/abi.NoEscape":              func(fr *frame, a []value) value { return a[0] },
		"internal/abi.Escape":                func(fr *frame, a []value) value { return a[0] },
		"internal/godebug.New":               func(fr *frame, a []value) value { return (*value)(nil) },
		"(*internal/godebug.Setting).Value":  func(fr *frame, a []value) value { return "" },
		"(*internal/godebug.Setting).IncNonDefault": extNop,
		"internal/race.Enabled":              func(fr *frame, a []value) value { return false },

		// ---- math
		"math.Float64bits":     extFloat64bits,
		"math.Float64frombits": extFloat64frombits,
		"math.Float32bits":     func(fr *frame, a []value) value { return math.Float32bits(a[0].(float32)) },
		"math.Float32frombits": func(fr *frame, a []value) value { return math.Float32frombits(a[0].(uint32)) },
		"math.Round":           extMathRound,
		"math.Floor":           func(fr *frame, a []value) value { return math.Floor(concF(fr, a[0])) },
		"math.Ceil":            func(fr *frame, a []value) value { return math.Ceil(concF(fr, a[0])) },
		"math.Trunc":           func(fr *frame, a []value) value { return math.Trunc(concF(fr, a[0])) },
		"math.Sqrt":            func(fr *frame, a []value) value { return math.Sqrt(concF(fr, a[0])) },
		"math.Log":             func(fr *frame, a []value) value { return math.Log(concF(fr, a[0])) },
		"math.Log2":            func(fr *frame, a []value) value { return math.Log2(concF(fr, a[0])) },
		"math.Exp":             func(fr *frame, a []value) value { return math.Exp(concF(fr, a[0])) },
		"math.Pow":             func(fr *frame, a []value) value { return math.Pow(concF(fr, a[0]), concF(fr, a[1])) },
		"math.Abs":             func(fr *frame, a []value) value { return math.Abs(concF(fr, a[0])) },
		"math.IsNaN":           extIsNaN,
		"math.IsInf":           func(fr *frame, a []value) value { return math.IsInf(concF(fr, a[0]), a[1].(int)) },
		"math.Inf":             func(fr *frame, a []value) value { return math.Inf(a[0].(int)) },
		"math.NaN":             func(fr *frame, a []value) value { return math.NaN() },

		// ---- bytealg
		"internal/bytealg.IndexByte":       extIndexByte,
		"internal/bytealg.IndexByteString": extIndexByte,
		"internal/bytealg.LastIndexByte":       extLastIndexByte,
		"internal/bytealg.LastIndexByteString": extLastIndexByte,
		"internal/bytealg.Count":           extCountByte,
		"internal/bytealg.CountString":     extCountByte,
		"internal/bytealg.Equal":           extBytesEqual,
		"bytes.Equal":                      extBytesEqual,
		"internal/bytealg.Compare":         extBytesCompare,
		"bytes.Compare":                    extBytesCompare,
		"internal/bytealg.CompareString":   extBytesCompare,
		"strings.Compare":                  extBytesCompare,
		"internal/bytealg.MakeNoZero":      extMakeNoZero,
		"internal/bytealg.Index":           extIndexSub,
		"internal/bytealg.IndexString":     extIndexSub,
		"internal/stringslite.Index":       extIndexSub,
		"strings.Index":                    extIndexSub,
		"bytes.Index":                      extIndexSub,
		"internal/bytealg.Cutover":         func(fr *frame, a []value) value { return int(1 << 30) },

		// ---- errors / fmt
		"errors.Is":   extErrorsIs,
		"errors.As":   extErrorsAs,
		"fmt.Errorf":  extErrorf,
		"fmt.Sprintf": extSprintf,
		"fmt.Sprint":  extSprint,
		"fmt.Sprintln": extSprint,
		"fmt.Fprintf": extFprintf,
		"fmt.Fprint":  extFprintf,
		"fmt.Fprintln": extFprintf,
		"fmt.Printf":  extFprintf,
		"fmt.Println": extFprintf,
		"fmt.Print":   extFprintf,
		"fmt.Appendf": func(fr *frame, a []value) value {
			s := fr.i.sprintf(a[1], a[2].([]value))
			return append(a[0].([]value), strBytes(s)...)
		},

		// ---- context
		"context.WithValue":    extCtxWithValue,
		// context.WithCancel is interpreted from its source (real cancellation);
		// deadlines are not modelled: WithTimeout / WithDeadline only wrap the parent
		"context.WithTimeout":  extCtxWithCancel,
		"context.WithDeadline": extCtxWithCancel,
		"context.WithoutCancel": func(fr *frame, a []value) value { return a[0] },
		"context.Cause":        func(fr *frame, a []value) value { return iface{} },

		// ---- unique
		"unique.Make":           extUniqueMake,
		"(unique.Handle[T]).Value": func(fr *frame, a []value) value {
			h := a[0].(structure)
			p := h[0].(*value)
			return copyVal(*p)
		},

		// ---- time
		"time.Now":   extTimeNow,
		"time.Since": func(fr *frame, a []value) value { return timeSub(fr.i, extTimeNow(fr, nil), a[0]) },
		"time.Until": func(fr *frame, a []value) value { return timeSub(fr.i, a[0], extTimeNow(fr, nil)) },
		"time.Unix":  extTimeUnix,
		"time.UnixMilli": func(fr *frame, a []value) value {
			return mkTime(binop(fr.i, token.MUL, types.Typ[types.Int64], a[0], int64(1000000)))
		},
		"time.Sleep":          func(fr *frame, a []value) value { fr.i.yield(); return nil },
		"(time.Time).Sub":     func(fr *frame, a []value) value { return timeSub(fr.i, a[0], a[1]) },
		"(time.Time).Add":     func(fr *frame, a []value) value { return mkTime(binop(fr.i, token.ADD, types.Typ[types.Int64], timeNS(a[0]), a[1])) },
		"(time.Time).Before":  func(fr *frame, a []value) value { return binop(fr.i, token.LSS, types.Typ[types.Int64], timeNS(a[0]), timeNS(a[1])) },
		"(time.Time).After":   func(fr *frame, a []value) value { return binop(fr.i, token.GTR, types.Typ[types.Int64], timeNS(a[0]), timeNS(a[1])) },
		"(time.Time).Equal":   func(fr *frame, a []value) value { return binop(fr.i, token.EQL, types.Typ[types.Int64], timeNS(a[0]), timeNS(a[1])) },
		"(time.Time).Compare": extTimeCompare,
		"(time.Time).IsZero":  func(fr *frame, a []value) value { return binop(fr.i, token.EQL, types.Typ[types.Int64], timeNS(a[0]), int64(0)) },
		"(time.Time).UnixNano": func(fr *frame, a []value) value { return timeNS(a[0]) },
		"(time.Time).UnixMilli": func(fr *frame, a []value) value {
			return binop(fr.i, token.QUO, types.Typ[types.Int64], timeNS(a[0]), int64(1000000))
		},
		"(time.Time).Unix": func(fr *frame, a []value) value {
			return binop(fr.i, token.QUO, types.Typ[types.Int64], timeNS(a[0]), int64(1000000000))
		},
		"(time.Time).Nanosecond": func(fr *frame, a []value) value {
			r := binop(fr.i, token.REM, types.Typ[types.Int64], timeNS(a[0]), int64(1000000000))
			return conv(fr.i, types.Typ[types.Int], types.Typ[types.Int64], r)
		},
		"(time.Time).UTC":   func(fr *frame, a []value) value { return a[0] },
		"(time.Time).Local": func(fr *frame, a []value) value { return a[0] },
		"(time.Time).In":    func(fr *frame, a []value) value { return a[0] },
		"(time.Time).Round": func(fr *frame, a []value) value { return a[0] },
		"(time.Time).String": func(fr *frame, a []value) value { return "<time>" },
		"(time.Time).Format": func(fr *frame, a []value) value { return "<time>" },
		"(time.Duration).String": func(fr *frame, a []value) value {
			if d, ok := a[0].(int64); ok {
				return fmt.Sprintf("%dns", d)
			}
			return "<duration>"
		},

		"(net/netip.Prefix).String": extPrefixString,
		"(net/netip.Addr).String":   extAddrString,


		"github.com/miekg/dns.id": func(fr *frame, a []value) value { return fr.i.newNondet(types.Uint16, "dns.Id") },
		// ---- math/rand: the extremes of the range are explored
		"math/rand.Intn": func(fr *frame, a []value) value {
			n := int(fr.i.asInt(a[0]))
			if n <= 0 {
				panic(targetPanic{fr.i.runtimeError("invalid argument to Intn")})
			}
			if n <= 2 {
				return fr.i.choice(n)
			}
			return []int{0, n - 1}[fr.i.choice(2)]
		},
		"math/rand.Int31": func(fr *frame, a []value) value {
			fr.i.randCounter++
			return int32(1000 + fr.i.randCounter)
		},
		"math/rand.Int63":  func(fr *frame, a []value) value { return int64(1234567) },
		"math/rand.Uint32": func(fr *frame, a []value) value { return uint32(12345) },
		"math/rand.Int":    func(fr *frame, a []value) value { return int(12345) },
		// ---- x/exp/rand: a pick is an explored choice
		"(*golang.org/x/exp/rand.Rand).Intn": func(fr *frame, a []value) value {
			n := int(fr.i.asInt(a[1]))
			if n <= 0 {
				panic(targetPanic{fr.i.runtimeError("invalid argument to Intn")})
			}
			return fr.i.choice(n)
		},
		"(*golang.org/x/exp/rand.Rand).Uint64": func(fr *frame, a []value) value { return uint64(0x1234abcd) },
		"(*golang.org/x/exp/rand.Rand).Seed":   extNop,
		"(*golang.org/x/exp/rand.Rand).Read": func(fr *frame, a []value) value {
			b := a[1].([]value)
			for k := range b {
				b[k] = uint8(k + 1)
			}
			return tuple{len(b), iface{}}
		},
		// ---- os / misc
		"os.Getenv":    func(fr *frame, a []value) value { return "" },
		"os.LookupEnv": func(fr *frame, a []value) value { return tuple{"", false} },
		"os.Getpid":    func(fr *frame, a []value) value { return int(1) },
	} {
		externals[k] = v
	}
	initAtomicExternals()
	initHarnessExternals()
}

func extNop(fr *frame, a []value) value { return nil }

func concF(fr *frame, v value) float64 {
	if f, ok := v.(float64); ok {
		return f
	}
	panic(pathAbort{kind: abortUnsupported, msg: "symbolic float in math function"})
}

func extFloat64bits(fr *frame, a []value) value {
	switch x := a[0].(type) {
	case float64:
		return math.Float64bits(x)
	}
	panic(pathAbort{kind: abortUnsupported, msg: "math.Float64bits of symbolic float"})
}

func extFloat64frombits(fr *frame, a []value) value {
	switch x := a[0].(type) {
	case uint64:
		return math.Float64frombits(x)
	}
	panic(pathAbort{kind: abortUnsupported, msg: "math.Float64frombits of symbolic value"})
}

func extMathRound(fr *frame, a []value) value {
	if f, ok := a[0].(float64); ok {
		return math.Round(f)
	}
	return &Sym{fr.i.tc.Mk("fp.round", SFP64, fr.i.term(a[0]))}
}

func extIsNaN(fr *frame, a []value) value {
	if f, ok := a[0].(float64); ok {
		return math.IsNaN(f)
	}
	return unterm(fr.i.tc.Mk("fp.isNaN", SBool, fr.i.term(a[0])), types.Bool)
}

// ---- bytes/strings kernels (symbolic-aware, forking)

func seqBytes(v value) []value {
	switch v := v.(type) {
	case []value:
		return v
	case string, symstr:
		return strBytes(v)
	}
	panic(fmt.Sprintf("seqBytes: %T", v))
}

func extIndexByte(fr *frame, a []value) value {
	b := seqBytes(a[0])
	c := a[1]
	for k, e := range b {
		if fr.i.branch(fr.i.equals(types.Typ[types.Uint8], e, c)) {
			return k
		}
	}
	return -1
}

func extLastIndexByte(fr *frame, a []value) value {
	b := seqBytes(a[0])
	c := a[1]
	for k := len(b) - 1; k >= 0; k-- {
		if fr.i.branch(fr.i.equals(types.Typ[types.Uint8], b[k], c)) {
			return k
		}
	}
	return -1
}

func extCountByte(fr *frame, a []value) value {
	b := seqBytes(a[0])
	c := a[1]
	n := 0
	for _, e := range b {
		if fr.i.branch(fr.i.equals(types.Typ[types.Uint8], e, c)) {
			n++
		}
	}
	return n
}

func extBytesEqual(fr *frame, a []value) value {
	x, y := seqBytes(a[0]), seqBytes(a[1])
	return fr.i.strEq(mkStr(x), mkStr(y))
}

func extBytesCompare(fr *frame, a []value) value {
	x, y := mkStr(seqBytes(a[0])), mkStr(seqBytes(a[1]))
	if fr.i.branch(fr.i.strEq(x, y)) {
		return int(0)
	}
	if fr.i.branch(fr.i.strLess(x, y)) {
		return int(-1)
	}
	return int(1)
}

func extMakeNoZero(fr *frame, a []value) value {
	n := int(fr.i.asInt(a[0]))
	s := make([]value, n)
	for k := range s {
		s[k] = uint8(0)
	}
	return s
}

func extIndexSub(fr *frame, a []value) value {
	s, sub := seqBytes(a[0]), seqBytes(a[1])
	n, m := len(s), len(sub)
	if m == 0 {
		return int(0)
	}
	ms := mkStr(sub)
	for k := 0; k+m <= n; k++ {
		if fr.i.branch(fr.i.strEq(mkStr(s[k:k+m]), ms)) {
			return k
		}
	}
	return -1
}

// ---- sync models

func extOnceDo(fr *frame, a []value) value {
	p := a[0].(*value)
	if fr.i.onces[p] {
		return nil
	}
	fr.i.onces[p] = true
	call(fr.i, fr, token.NoPos, a[1], nil)
	return nil
}

func extWGAdd(fr *frame, a []value) value {
	p := a[0].(*value)
	w := fr.i.wgs[p]
	if w == nil {
		w = &wgState{}
		fr.i.wgs[p] = w
	}
	w.n += int(asInt64(a[1]))
	if w.n < 0 {
		panic(targetPanic{iface{t: fr.i.eng.runtimeErrT, v: "sync: negative WaitGroup counter"}})
	}
	return nil
}

func extWGWait(fr *frame, a []value) value {
	p := a[0].(*value)
	w := fr.i.wgs[p]
	if w == nil {
		return nil
	}
	fr.i.yield()
	fr.i.block(func() bool { return w.n == 0 }, "WaitGroup.Wait")
	return nil
}

// Pool modes.
const (
	PoolFresh       = 0 // Get always calls New
	PoolLIFO        = 1 // Get returns the most recently Put object
	PoolAdversarial = 2 // Get returns New() or any free object (explored)
)

func extPoolGet(fr *frame, a []value) value {
	i := fr.i
	p := a[0].(*value)
	ps := i.pools[p]
	if ps == nil {
		ps = &poolState{}
		i.pools[p] = ps
	}
	pick := -1
	switch i.poolMode {
	case PoolLIFO:
		// the behaviour of sync.Pool on a single P: the private slot first, then
		// the shared list, most recently added first
		if ps.hasPrivate {
			v := ps.private
			ps.private, ps.hasPrivate = nil, false
			return v
		}
		pick = len(ps.free) - 1
	case PoolAdversarial:
		if ps.hasPrivate {
			ps.free = append(ps.free, ps.private)
			ps.private, ps.hasPrivate = nil, false
		}
		if len(ps.free) > 0 {
			pick = i.choice(len(ps.free)+1) - 1
		}
	}
	if pick >= 0 {
		v := ps.free[pick]
		ps.free = append(ps.free[:pick:pick], ps.free[pick+1:]...)
		return v
	}
	// New is field "New func() any" (last field of sync.Pool)
	st := (*p).(structure)
	newFn := st[len(st)-1]
	switch f := newFn.(type) {
	case *ssa.Function:
		if f == nil {
			return iface{}
		}
	}
	return call(i, fr, token.NoPos, newFn, nil)
}

func extPoolPut(fr *frame, a []value) value {
	i := fr.i
	p := a[0].(*value)
	ps := i.pools[p]
	if ps == nil {
		ps = &poolState{}
		i.pools[p] = ps
	}
	if x, ok := a[1].(iface); ok && x.t == nil {
		return nil
	}
	// ownership check: an object must not be in a pool twice
	if i.poolMode != PoolFresh {
		if ps.hasPrivate && sameObject(ps.private, a[1]) {
			i.ownershipViolation("pool-double-put")
		}
		for _, f := range ps.free {
			if sameObject(f, a[1]) {
				i.ownershipViolation("pool-double-put")
			}
		}
	}
	switch i.poolMode {
	case PoolLIFO:
		if !ps.hasPrivate {
			ps.private, ps.hasPrivate = a[1], true
		} else {
			ps.free = append(ps.free, a[1])
		}
	case PoolAdversarial:
		ps.free = append(ps.free, a[1])
	}
	i.res.poolPuts++
	return nil
}

func condLocker(fr *frame, p *value) iface {
	st := (*p).(structure)
	// type Cond struct { noCopy noCopy; L Locker; notify notifyList; checker copyChecker }
	return st[1].(iface)
}

func callMethod(i *interpreter, fr *frame, recv iface, name string, args ...value) value {
	if recv.t == nil {
		panic(targetPanic{i.runtimeError("method " + name + " on nil interface")})
	}
	ms := i.prog.MethodSets.MethodSet(recv.t)
	for k := 0; k < ms.Len(); k++ {
		sel := ms.At(k)
		if sel.Obj().Name() == name {
			fn := i.prog.MethodValue(sel)
			return call(i, fr, token.NoPos, fn, append([]value{recv.v}, args...))
		}
	}
	panic(fmt.Sprintf("callMethod: %v has no method %s", recv.t, name))
}

func hasMethod(i *interpreter, t types.Type, name string) *types.Selection {
	if t == nil {
		return nil
	}
	ms := i.prog.MethodSets.MethodSet(t)
	for k := 0; k < ms.Len(); k++ {
		if ms.At(k).Obj().Name() == name {
			return ms.At(k)
		}
	}
	return nil
}

func extCondWait(fr *frame, a []value) value {
	i := fr.i
	p := a[0].(*value)
	c := i.cond(p)
	w := &condWaiter{}
	c.waiters = append(c.waiters, w)
	l := condLocker(fr, p)
	callMethod(i, fr, l, "Unlock")
	i.yield()
	i.block(func() bool { return w.signaled }, "Cond.Wait")
	callMethod(i, fr, l, "Lock")
	return nil
}

func extCondSignal(fr *frame, a []value) value {
	i := fr.i
	c := i.cond(a[0].(*value))
	if len(c.waiters) == 0 {
		return nil
	}
	k := i.choice(len(c.waiters)) // Signal wakes an arbitrary waiter
	c.waiters[k].signaled = true
	c.waiters = append(c.waiters[:k:k], c.waiters[k+1:]...)
	return nil
}

func extCondBroadcast(fr *frame, a []value) value {
	c := fr.i.cond(a[0].(*value))
	for _, w := range c.waiters {
		w.signaled = true
	}
	c.waiters = nil
	return nil
}

// ---- unique

func extUniqueMake(fr *frame, a []value) value {
	i := fr.i
	enc, ok := encKey(a[0])
	if !ok {
		panic(pathAbort{kind: abortUnsupported, msg: "unique.Make of symbolic value"})
	}
	key := fr.fn.String() + "|" + enc
	p, ok := i.uniques[key]
	if !ok {
		cell := copyVal(a[0])
		p = &cell
		if i.uniques == nil {
			i.uniques = map[string]*value{}
		}
		i.uniques[key] = p
	}
	return structure{p}
}

// ---- context

func extCtxWithValue(fr *frame, a []value) value {
	// &valueCtx{parent, key, val}; type valueCtx struct { Context; key, val any }
	pkg := fr.i.prog.ImportedPackage("context")
	t := pkg.Type("valueCtx").Object().Type()
	cell := value(structure{a[0], a[1], a[2]})
	return iface{t: types.NewPointer(t), v: &cell}
}

func extCtxWithCancel(fr *frame, a []value) value {
	cancel := &nativeFn{name: "cancel", f: func(i *interpreter, args []value) value { return nil }}
	return tuple{a[0], cancel}
}

// ---- time: an instant is Time{wall:0, ext: ns since Unix epoch, loc:nil}; ext==0 is the zero Time.

func mkTime(ns value) value {
	return structure{uint64(0), ns, (*value)(nil)}
}

func timeNS(t value) value { return t.(structure)[1] }

func timeSub(i *interpreter, a, b value) value {
	return binop(i, token.SUB, types.Typ[types.Int64], timeNS(a), timeNS(b))
}

func extTimeNow(fr *frame, a []value) value {
	i := fr.i
	if i.hasFixedClock {
		return mkTime(i.fixedClock)
	}
	n := i.newNondet(types.Int64, "clock")
	t := i.term(n)
	lo := i.tc.Const(SBV64, 1)
	if i.clock != nil {
		lo = i.clock
	}
	// monotone, positive, below 2^62
	i.assume(unterm(i.tc.Mk("and", SBool,
		i.tc.Mk("bvsle", SBool, lo, t),
		i.tc.Mk("bvslt", SBool, t, i.tc.Const(SBV64, 1<<62))), types.Bool))
	i.clock = t
	return mkTime(n)
}

func extTimeUnix(fr *frame, a []value) value {
	i := fr.i
	sec, nsec := a[0], a[1]
	if s, ok := sec.(int64); ok && s == 0 {
		return mkTime(nsec)
	}
	ns := binop(i, token.ADD, types.Typ[types.Int64], binop(i, token.MUL, types.Typ[types.Int64], sec, int64(1000000000)), nsec)
	return mkTime(ns)
}

func extTimeCompare(fr *frame, a []value) value {
	i := fr.i
	x, y := timeNS(a[0]), timeNS(a[1])
	if i.branch(binop(i, token.LSS, types.Typ[types.Int64], x, y)) {
		return int(-1)
	}
	if i.branch(binop(i, token.GTR, types.Typ[types.Int64], x, y)) {
		return int(1)
	}
	return int(0)
}

// ---- errors

func (i *interpreter) callErrorMethod(e iface) (string, bool) {
	sel := hasMethod(i, e.t, "Error")
	if sel == nil {
		return "", false
	}
	r := call(i, nil, token.NoPos, i.prog.MethodValue(sel), []value{e.v})
	switch s := r.(type) {
	case string:
		return s, true
	case symstr:
		return toString(s), true
	}
	return "", false
}

func (i *interpreter) unwrapOnce(fr *frame, e iface) (single iface, multi []value, kind int) {
	sel := hasMethod(i, e.t, "Unwrap")
	if sel == nil {
		return iface{}, nil, 0
	}
	sig := sel.Type().(*types.Signature)
	if sig.Params().Len() != 0 || sig.Results().Len() != 1 {
		return iface{}, nil, 0
	}
	r := call(i, fr, token.NoPos, i.prog.MethodValue(sel), []value{e.v})
	switch r := r.(type) {
	case iface:
		return r, nil, 1
	case []value:
		return iface{}, r, 2
	}
	return iface{}, nil, 0
}

func extErrorsIs(fr *frame, a []value) value {
	i := fr.i
	err, target := a[0].(iface), a[1].(iface)
	if err.t == nil || target.t == nil {
		return err.t == nil && target.t == nil
	}
	comparable := types.Comparable(target.t)
	var is func(e iface) bool
	is = func(e iface) bool {
		for {
			if comparable && sameType(e.t, target.t) {
				if i.branch(i.equals(e.t, e.v, target.v)) {
					return true
				}
			}
			if sel := hasMethod(i, e.t, "Is"); sel != nil {
				sig := sel.Type().(*types.Signature)
				if sig.Params().Len() == 1 && sig.Results().Len() == 1 && types.Identical(sig.Results().At(0).Type(), types.Typ[types.Bool]) {
					r := call(i, fr, token.NoPos, i.prog.MethodValue(sel), []value{e.v, target})
					if i.branch(r) {
						return true
					}
				}
			}
			single, multi, kind := i.unwrapOnce(fr, e)
			switch kind {
			case 1:
				if single.t == nil {
					return false
				}
				e = single
			case 2:
				for _, m := range multi {
					mi := m.(iface)
					if mi.t != nil && is(mi) {
						return true
					}
				}
				return false
			default:
				return false
			}
		}
	}
	return is(err)
}

func extErrorsAs(fr *frame, a []value) value {
	i := fr.i
	err, target := a[0].(iface), a[1].(iface)
	if err.t == nil {
		return false
	}
	if target.t == nil {
		panic(targetPanic{iface{t: types.Typ[types.String], v: "errors: target cannot be nil"}})
	}
	pt, ok := target.t.Underlying().(*types.Pointer)
	if !ok || target.v.(*value) == nil {
		panic(targetPanic{iface{t: types.Typ[types.String], v: "errors: target must be a non-nil pointer"}})
	}
	tt := pt.Elem()
	slot := target.v.(*value)
	var as func(e iface) bool
	as = func(e iface) bool {
		for {
			if it, ok := tt.Underlying().(*types.Interface); ok {
				if types.Implements(e.t, it) {
					*slot = e
					return true
				}
			} else if types.Identical(e.t, tt) {
				store(tt, slot, e.v)
				return true
			}
			if sel := hasMethod(i, e.t, "As"); sel != nil {
				sig := sel.Type().(*types.Signature)
				if sig.Params().Len() == 1 && sig.Results().Len() == 1 {
					r := call(i, fr, token.NoPos, i.prog.MethodValue(sel), []value{e.v, target})
					if i.branch(r) {
						return true
					}
				}
			}
			single, multi, kind := i.unwrapOnce(fr, e)
			switch kind {
			case 1:
				if single.t == nil {
					return false
				}
				e = single
			case 2:
				for _, m := range multi {
					mi := m.(iface)
					if mi.t != nil && as(mi) {
						return true
					}
				}
				return false
			default:
				return false
			}
		}
	}
	return as(err)
}

// sprintf is a best-effort fmt.Sprintf over interpreter values.
func (i *interpreter) sprintf(format value, args []value) value {
	f, ok := format.(string)
	if !ok {
		return "<symbolic format>"
	}
	var sb strings.Builder
	argi := 0
	for k := 0; k < len(f); k++ {
		c := f[k]
		if c != '%' {
			sb.WriteByte(c)
			continue
		}
		k++
		// flags / width
		for k < len(f) && strings.IndexByte("+-# 0123456789.*[]", f[k]) >= 0 {
			k++
		}
		if k >= len(f) {
			break
		}
		verb := f[k]
		if verb == '%' {
			sb.WriteByte('%')
			continue
		}
		if argi >= len(args) {
			sb.WriteString("%!" + string(verb) + "(MISSING)")
			continue
		}
		sb.WriteString(i.formatArg(verb, args[argi]))
		argi++
	}
	return sb.String()
}

func (i *interpreter) formatArg(verb byte, a value) string {
	it, ok := a.(iface)
	if !ok {
		return toString(a)
	}
	if it.t == nil {
		return "<nil>"
	}
	if verb == 'T' {
		return it.t.String()
	}
	if containsSym(it.v, 3) {
		return "<symbolic " + it.t.String() + ">"
	}
	if verb != 'd' && verb != 'x' && verb != 'p' {
		var out string
		done := false
		func() {
			defer func() {
				if p := recover(); p != nil {
					if isEnginePanic(p) {
						panic(p)
					}
				}
			}()
			if types.Implements(it.t, errorIface) {
				if s, ok := i.callErrorMethod(it); ok {
					out, done = s, true
					return
				}
			}
			if sel := hasMethod(i, it.t, "String"); sel != nil {
				sig := sel.Type().(*types.Signature)
				if sig.Params().Len() == 0 && sig.Results().Len() == 1 {
					if fn := i.prog.MethodValue(sel); fn != nil {
						if i.eng.opaque(pkgPathOf(fn)) && externals[fnKey(fn)] == nil {
							return
						}
						r := call(i, nil, token.NoPos, fn, []value{it.v})
						if s, ok := r.(string); ok {
							out, done = s, true
						} else if ss, ok := r.(symstr); ok {
							out, done = toString(ss), true
						}
					}
				}
			}
		}()
		if done {
			if verb == 'q' {
				return strconv.Quote(out)
			}
			return out
		}
	}
	switch v := it.v.(type) {
	case string:
		if verb == 'q' {
			return strconv.Quote(v)
		}
		return v
	case symstr:
		return toString(v)
	case []value:
		if verb == 's' || verb == 'q' {
			if s, ok := mkStr(v).(string); ok && isByteSlice(it.t) {
				return s
			}
		}
	}
	return toString(it.v)
}

func isByteSlice(t types.Type) bool {
	if s, ok := t.Underlying().(*types.Slice); ok {
		if b, ok := s.Elem().Underlying().(*types.Basic); ok {
			return b.Kind() == types.Uint8
		}
	}
	return false
}

func pkgPathOf(fn *ssa.Function) string {
	if fn.Pkg != nil {
		return fn.Pkg.Pkg.Path()
	}
	if o := fn.Object(); o != nil && o.Pkg() != nil {
		return o.Pkg().Path()
	}
	return ""
}

var errorIface = types.Universe.Lookup("error").Type().Underlying().(*types.Interface)

func extSprintf(fr *frame, a []value) value { return fr.i.sprintf(a[0], a[1].([]value)) }

func extSprint(fr *frame, a []value) value {
	var sb strings.Builder
	for k, x := range a[0].([]value) {
		if k > 0 {
			sb.WriteByte(' ')
		}
		sb.WriteString(fr.i.formatArg('v', x))
	}
	return sb.String()
}

func extFprintf(fr *frame, a []value) value {
	return zeroResult(fr.fn.Signature)
}

// extErrorf builds *fmt.wrapError / *fmt.wrapErrors / *errors.errorString like fmt.Errorf.
func extErrorf(fr *frame, a []value) value {
	i := fr.i
	args := a[1].([]value)
	msg := i.sprintf(a[0], args)
	var wrapped []value
	if f, ok := a[0].(string); ok {
		argi := 0
		for k := 0; k < len(f); k++ {
			if f[k] != '%' {
				continue
			}
			k++
			for k < len(f) && strings.IndexByte("+-# 0123456789.*[]", f[k]) >= 0 {
				k++
			}
			if k >= len(f) {
				break
			}
			if f[k] == '%' {
				continue
			}
			if f[k] == 'w' && argi < len(args) {
				if it, ok := args[argi].(iface); ok && it.t != nil && types.Implements(it.t, errorIface) {
					wrapped = append(wrapped, it)
				}
			}
			argi++
		}
	}
	fmtPkg := i.prog.ImportedPackage("fmt")
	switch len(wrapped) {
	case 0:
		cell := value(structure{msg})
		return iface{t: i.eng.errorStringT, v: &cell}
	case 1:
		t := fmtPkg.Type("wrapError").Object().Type()
		cell := value(structure{msg, wrapped[0]})
		return iface{t: types.NewPointer(t), v: &cell}
	default:
		t := fmtPkg.Type("wrapErrors").Object().Type()
		cell := value(structure{msg, wrapped})
		return iface{t: types.NewPointer(t), v: &cell}
	}
}

// ---- netip: String of a symbolic address/prefix is an abstract injective token
// (family marker, 16 address bytes, prefix length): only equality is meaningful.

func addrTokenBytes(i *interpreter, addr structure) ([]value, bool) {
	u := addr[0].(structure) // uint128{hi, lo}
	hi, lo := u[0], u[1]
	if !isSym(hi) && !isSym(lo) {
		return nil, false
	}
	var out []value
	for _, w := range []value{hi, lo} {
		t := i.term(w)
		for k := 7; k >= 0; k-- {
			out = append(out, unterm(i.tc.Mk(fmt.Sprintf("extract:%d:%d", k*8+7, k*8), SBV8, t), types.Uint8))
		}
	}
	return out, true
}

func extAddrString(fr *frame, a []value) value {
	i := fr.i
	addr := a[0].(structure)
	bs, sym := addrTokenBytes(i, addr)
	if !sym {
		return callSSANoExt(i, fr, fr.fn, a)
	}
	z := addr[1].(structure)[0].(*value)
	tag := fmt.Sprintf("\x00A%p:", z)
	return mkStr(append(strBytes(tag), bs...))
}

func extPrefixString(fr *frame, a []value) value {
	i := fr.i
	p := a[0].(structure) // Prefix{ip Addr, bitsPlusOne uint8}
	addr := p[0].(structure)
	bs, sym := addrTokenBytes(i, addr)
	if !sym && !isSym(p[1]) {
		return callSSANoExt(i, fr, fr.fn, a)
	}
	if !sym {
		u := addr[0].(structure)
		bs = nil
		for _, w := range []value{u[0], u[1]} {
			v := w.(uint64)
			for k := 7; k >= 0; k-- {
				bs = append(bs, uint8(v>>(uint(k)*8)))
			}
		}
	}
	z := addr[1].(structure)[0].(*value)
	tag := fmt.Sprintf("\x00P%p:", z)
	out := append(strBytes(tag), bs...)
	out = append(out, p[1])
	return mkStr(out)
}

// containsSym reports whether v holds symbolic data (following pointers up to depth levels).
func containsSym(v value, depth int) bool {
	switch v := v.(type) {
	case *Sym, symstr:
		return true
	case structure:
		for _, f := range v {
			if containsSym(f, depth) {
				return true
			}
		}
	case array:
		for _, f := range v {
			if containsSym(f, depth) {
				return true
			}
		}
	case []value:
		for _, f := range v {
			if containsSym(f, depth) {
				return true
			}
		}
	case iface:
		return containsSym(v.v, depth)
	case *value:
		if v != nil && depth > 0 {
			return containsSym(*v, depth-1)
		}
	}
	return false
}

// ownershipViolation records an engine-level ownership violation (e.g. an object
// released to a pool twice) as a failed assertion of the current path.
func (i *interpreter) ownershipViolation(label string) {
	if i.solver == nil || i.pos < len(i.script) {
		return
	}
	r, m := i.solver.Check(nil, i.nondetVars(), true)
	if r != Unsat {
		i.violation(label, m, "")
	}
}
