package symgo

// Maps: an insertion-ordered entry list with an index for fully concrete keys.
// Key equality may be symbolic, in which case lookups fork.

import (
	"fmt"
	"go/types"
	"strconv"
	"strings"
	"unsafe"
)

type mentry struct {
	key     value
	val     value
	enc     string // canonical encoding when key is concrete
	conc    bool
	deleted bool
}

type hmap struct {
	keyT    types.Type
	entries []*mentry
	idx     map[string]int
	nsym    int // live entries with symbolic keys
	live    int
}

func makeMap(kt types.Type) *hmap {
	return &hmap{keyT: kt, idx: make(map[string]int)}
}

// keyEnc returns a canonical string for a fully concrete key.
func keyEnc(sb *strings.Builder, v value) bool {
	switch v := v.(type) {
	case bool:
		if v {
			sb.WriteString("T;")
		} else {
			sb.WriteString("F;")
		}
	case string:
		sb.WriteString("s")
		sb.WriteString(strconv.Itoa(len(v)))
		sb.WriteByte(':')
		sb.WriteString(v)
	case *Sym, symstr:
		return false
	case *value:
		fmt.Fprintf(sb, "p%x;", uintptr(unsafe.Pointer(v)))
	case *chanv:
		fmt.Fprintf(sb, "c%x;", uintptr(unsafe.Pointer(v)))
	case unsafe.Pointer:
		fmt.Fprintf(sb, "u%x;", uintptr(v))
	case structure:
		sb.WriteByte('{')
		for _, f := range v {
			if !keyEnc(sb, f) {
				return false
			}
		}
		sb.WriteByte('}')
	case array:
		sb.WriteByte('[')
		for _, f := range v {
			if !keyEnc(sb, f) {
				return false
			}
		}
		sb.WriteByte(']')
	case iface:
		if v.t == nil {
			sb.WriteString("nil;")
			return true
		}
		sb.WriteString("i<")
		sb.WriteString(v.t.String())
		sb.WriteString(">")
		return keyEnc(sb, v.v)
	case rtype:
		sb.WriteString("rt<" + v.t.String() + ">")
	case float32:
		fmt.Fprintf(sb, "f%v;", v)
	case float64:
		fmt.Fprintf(sb, "d%v;", v)
	default:
		if bits, s, ok := rawBits(v); ok {
			fmt.Fprintf(sb, "%d:%x;", s, bits)
			return true
		}
		panic(fmt.Sprintf("unhashable map key %T", v))
	}
	return true
}

func encKey(k value) (string, bool) {
	var sb strings.Builder
	if keyEnc(&sb, k) {
		return sb.String(), true
	}
	return "", false
}

// find returns the entry for key or nil; may fork.
func (m *hmap) find(i *interpreter, key value) *mentry {
	if m == nil {
		return nil
	}
	enc, conc := encKey(key)
	if conc {
		if ix, ok := m.idx[enc]; ok {
			return m.entries[ix]
		}
		if m.nsym == 0 {
			return nil
		}
	}
	for _, e := range m.entries {
		if e.deleted {
			continue
		}
		if conc && e.conc {
			continue // different concrete keys
		}
		eq := i.equals(m.keyT, key, e.key)
		if i.branch(eq) {
			return e
		}
	}
	return nil
}

func (m *hmap) lookup(i *interpreter, key value) (value, bool) {
	if e := m.find(i, key); e != nil {
		return e.val, true
	}
	return nil, false
}

func (m *hmap) insert(i *interpreter, key, val value) {
	if m == nil {
		panic(targetPanic{i.runtimeError("assignment to entry in nil map")})
	}
	if e := m.find(i, key); e != nil {
		e.val = val
		return
	}
	enc, conc := encKey(key)
	e := &mentry{key: key, val: val, enc: enc, conc: conc}
	if conc {
		m.idx[enc] = len(m.entries)
	} else {
		m.nsym++
	}
	m.entries = append(m.entries, e)
	m.live++
}

func (m *hmap) delete(i *interpreter, key value) {
	if m == nil {
		return
	}
	if e := m.find(i, key); e != nil {
		e.deleted = true
		if e.conc {
			delete(m.idx, e.enc)
		} else {
			m.nsym--
		}
		m.live--
	}
}

func (m *hmap) clear() {
	if m == nil {
		return
	}
	for _, e := range m.entries {
		e.deleted = true
	}
	m.entries = nil
	m.idx = make(map[string]int)
	m.nsym = 0
	m.live = 0
}

func (m *hmap) len() int {
	if m == nil {
		return 0
	}
	return m.live
}
