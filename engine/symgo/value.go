// Derived from golang.org/x/tools/go/ssa/interp (BSD-style license, The Go Authors).

package symgo

// Values
//
// All interpreter values are "boxed" in the empty interface, value.
// Dynamic types:
//
// - bool, numbers, string       concrete scalars
// - *Sym                        symbolic bool / integer / float64 (an SMT term)
// - symstr                      string of concrete length with some symbolic bytes
// - *hmap                       maps (insertion ordered entry list, symbolic-aware)
// - *chanv                      channels
// - []value                     slices
// - iface, structure, array, *value, *ssa.Function, *ssa.Builtin, *closure, tuple, iter

import (
	"bytes"
	"fmt"
	"go/types"
	"math"
	"strings"
	"unsafe"

	"golang.org/x/tools/go/ssa"
)

type value interface{}

type tuple []value

type array []value

type iface struct {
	t types.Type // never an "untyped" type
	v value
}

type structure []value

type iter interface {
	next() tuple
}

type closure struct {
	Fn  *ssa.Function
	Env []value
}

type bad struct{}

// Sym is a symbolic scalar.
type Sym struct {
	t *Term
}

// symstr is a string some of whose bytes are symbolic. Elements are uint8 or *Sym (SBV8).
type symstr struct {
	b []value
}

// rtype is the value of a reflect-like type descriptor (only used by a few intrinsics).
type rtype struct {
	t types.Type
}

func mustDeref(t types.Type) types.Type {
	if p, ok := t.Underlying().(*types.Pointer); ok {
		return p.Elem()
	}
	if p, ok := coreType(t).(*types.Pointer); ok {
		return p.Elem()
	}
	panic(fmt.Sprintf("mustDeref: not a pointer: %v", t))
}

func coreType(t types.Type) types.Type {
	return t.Underlying()
}

// ---------------------------------------------------------------------
// scalar helpers

func basicKind(t types.Type) types.BasicKind {
	if b, ok := t.Underlying().(*types.Basic); ok {
		k := b.Kind()
		switch k {
		case types.UntypedBool:
			return types.Bool
		case types.UntypedInt:
			return types.Int
		case types.UntypedRune:
			return types.Int32
		case types.UntypedFloat:
			return types.Float64
		case types.UntypedString:
			return types.String
		}
		return k
	}
	return types.Invalid
}

func kindWidth(k types.BasicKind) int {
	switch k {
	case types.Int8, types.Uint8:
		return 8
	case types.Int16, types.Uint16:
		return 16
	case types.Int32, types.Uint32:
		return 32
	case types.Int, types.Int64, types.Uint, types.Uint64, types.Uintptr:
		return 64
	}
	return 0
}

func kindSigned(k types.BasicKind) bool {
	switch k {
	case types.Int, types.Int8, types.Int16, types.Int32, types.Int64:
		return true
	}
	return false
}

func kindIsInt(k types.BasicKind) bool { return kindWidth(k) != 0 }

func kindSort(k types.BasicKind) Sort {
	switch k {
	case types.Bool:
		return SBool
	case types.Float64:
		return SFP64
	}
	return bvSort(kindWidth(k))
}

// mkInt builds the concrete Go value of kind k from raw bits.
func mkInt(k types.BasicKind, v uint64) value {
	switch k {
	case types.Bool:
		return v&1 == 1
	case types.Int:
		return int(v)
	case types.Int8:
		return int8(v)
	case types.Int16:
		return int16(v)
	case types.Int32:
		return int32(v)
	case types.Int64:
		return int64(v)
	case types.Uint:
		return uint(v)
	case types.Uint8:
		return uint8(v)
	case types.Uint16:
		return uint16(v)
	case types.Uint32:
		return uint32(v)
	case types.Uint64:
		return uint64(v)
	case types.Uintptr:
		return uintptr(v)
	case types.Float64:
		return math.Float64frombits(v)
	}
	panic(fmt.Sprintf("mkInt: bad kind %v", k))
}

// rawBits returns the bit pattern and sort of a concrete scalar.
func rawBits(x value) (uint64, Sort, bool) {
	switch x := x.(type) {
	case bool:
		return b2u(x), SBool, true
	case int:
		return uint64(x), SBV64, true
	case int8:
		return uint64(uint8(x)), SBV8, true
	case int16:
		return uint64(uint16(x)), SBV16, true
	case int32:
		return uint64(uint32(x)), SBV32, true
	case int64:
		return uint64(x), SBV64, true
	case uint:
		return uint64(x), SBV64, true
	case uint8:
		return uint64(x), SBV8, true
	case uint16:
		return uint64(x), SBV16, true
	case uint32:
		return uint64(x), SBV32, true
	case uint64:
		return x, SBV64, true
	case uintptr:
		return uint64(x), SBV64, true
	case float64:
		return math.Float64bits(x), SFP64, true
	}
	return 0, 0, false
}

// term lifts a scalar value (concrete or symbolic) to a term.
func (i *interpreter) term(x value) *Term {
	if s, ok := x.(*Sym); ok {
		return s.t
	}
	v, s, ok := rawBits(x)
	if !ok {
		panic(fmt.Sprintf("term: cannot lift %T", x))
	}
	return i.tc.Const(s, v)
}

// unterm converts a term back to a value of kind k (concrete if constant).
func unterm(t *Term, k types.BasicKind) value {
	if t.IsConst() {
		return mkInt(k, t.cval)
	}
	return &Sym{t}
}

func isSym(x value) bool {
	_, ok := x.(*Sym)
	return ok
}

// ---------------------------------------------------------------------
// strings

func strLen(x value) int {
	switch x := x.(type) {
	case string:
		return len(x)
	case symstr:
		return len(x.b)
	}
	panic(fmt.Sprintf("strLen: %T", x))
}

func strAt(x value, i int) value {
	switch x := x.(type) {
	case string:
		return x[i]
	case symstr:
		return x.b[i]
	}
	panic(fmt.Sprintf("strAt: %T", x))
}

// mkStr builds a string value from bytes, concrete if possible.
func mkStr(b []value) value {
	allc := true
	for _, e := range b {
		if _, ok := e.(uint8); !ok {
			allc = false
			break
		}
	}
	if allc {
		bs := make([]byte, len(b))
		for i, e := range b {
			bs[i] = e.(uint8)
		}
		return string(bs)
	}
	return symstr{append([]value(nil), b...)}
}

func strBytes(x value) []value {
	switch x := x.(type) {
	case string:
		out := make([]value, len(x))
		for i := 0; i < len(x); i++ {
			out[i] = x[i]
		}
		return out
	case symstr:
		return append([]value(nil), x.b...)
	}
	panic(fmt.Sprintf("strBytes: %T", x))
}

func strSlice(x value, lo, hi int) value {
	switch x := x.(type) {
	case string:
		return x[lo:hi]
	case symstr:
		return mkStr(x.b[lo:hi])
	}
	panic(fmt.Sprintf("strSlice: %T", x))
}

func strConcat(x, y value) value {
	if xs, ok := x.(string); ok {
		if ys, ok := y.(string); ok {
			return xs + ys
		}
	}
	return mkStr(append(strBytes(x), strBytes(y)...))
}

// strEq returns a bool or *Sym.
func (i *interpreter) strEq(x, y value) value {
	if xs, ok := x.(string); ok {
		if ys, ok := y.(string); ok {
			return xs == ys
		}
	}
	if strLen(x) != strLen(y) {
		return false
	}
	var conj []*Term
	for k := 0; k < strLen(x); k++ {
		a, b := strAt(x, k), strAt(y, k)
		if ac, ok := a.(uint8); ok {
			if bc, ok := b.(uint8); ok {
				if ac != bc {
					return false
				}
				continue
			}
		}
		conj = append(conj, i.tc.Mk("=", SBool, i.term(a), i.term(b)))
	}
	return unterm(i.tc.Mk("and", SBool, conj...), types.Bool)
}

// strLess returns x < y as bool or *Sym (lexicographic, bytewise).
func (i *interpreter) strLess(x, y value) value {
	if xs, ok := x.(string); ok {
		if ys, ok := y.(string); ok {
			return xs < ys
		}
	}
	n := strLen(x)
	if strLen(y) < n {
		n = strLen(y)
	}
	// result = OR_k (prefix_eq_k && x[k] < y[k])  ||  (prefix_eq_n && len(x) < len(y))
	res := i.tc.Bool(strLen(x) < strLen(y))
	for k := n - 1; k >= 0; k-- {
		a, b := i.term(strAt(x, k)), i.term(strAt(y, k))
		lt := i.tc.Mk("bvult", SBool, a, b)
		eq := i.tc.Mk("=", SBool, a, b)
		res = i.tc.Mk("or", SBool, lt, i.tc.Mk("and", SBool, eq, res))
	}
	return unterm(res, types.Bool)
}

// ---------------------------------------------------------------------
// equality

func sameType(x, y types.Type) bool {
	if x == nil {
		return y == nil
	}
	return y != nil && types.Identical(x, y)
}

func (i *interpreter) and2(a, b value) value {
	if ab, ok := a.(bool); ok {
		if !ab {
			return false
		}
		return b
	}
	if bb, ok := b.(bool); ok {
		if !bb {
			return false
		}
		return a
	}
	return unterm(i.tc.Mk("and", SBool, i.term(a), i.term(b)), types.Bool)
}

func (i *interpreter) not(a value) value {
	if ab, ok := a.(bool); ok {
		return !ab
	}
	return unterm(i.tc.Mk("not", SBool, i.term(a)), types.Bool)
}

// equals returns x == y (bool or *Sym) according to Go's equivalence for type t.
func (i *interpreter) equals(t types.Type, x, y value) value {
	if isSym(x) || isSym(y) {
		tx, ty := i.term(x), i.term(y)
		if tx.sort == SFP64 {
			return unterm(i.tc.Mk("fp.eq", SBool, tx, ty), types.Bool)
		}
		return unterm(i.tc.Mk("=", SBool, tx, ty), types.Bool)
	}
	switch x := x.(type) {
	case bool:
		return x == y.(bool)
	case int:
		return x == y.(int)
	case int8:
		return x == y.(int8)
	case int16:
		return x == y.(int16)
	case int32:
		return x == y.(int32)
	case int64:
		return x == y.(int64)
	case uint:
		return x == y.(uint)
	case uint8:
		return x == y.(uint8)
	case uint16:
		return x == y.(uint16)
	case uint32:
		return x == y.(uint32)
	case uint64:
		return x == y.(uint64)
	case uintptr:
		return x == y.(uintptr)
	case float32:
		return x == y.(float32)
	case float64:
		return x == y.(float64)
	case complex64:
		return x == y.(complex64)
	case complex128:
		return x == y.(complex128)
	case string, symstr:
		return i.strEq(x, y)
	case *value:
		return x == y.(*value)
	case *chanv:
		return x == y.(*chanv)
	case unsafe.Pointer:
		return x == y.(unsafe.Pointer)
	case structure:
		ys := y.(structure)
		tStruct := t.Underlying().(*types.Struct)
		var res value = true
		for k, n := 0, tStruct.NumFields(); k < n; k++ {
			if f := tStruct.Field(k); f.Name() != "_" {
				res = i.and2(res, i.equals(f.Type(), x[k], ys[k]))
				if res == false {
					return false
				}
			}
		}
		return res
	case array:
		ya := y.(array)
		tElt := t.Underlying().(*types.Array).Elem()
		var res value = true
		for k := range x {
			res = i.and2(res, i.equals(tElt, x[k], ya[k]))
			if res == false {
				return false
			}
		}
		return res
	case iface:
		yi := y.(iface)
		if !sameType(x.t, yi.t) {
			return false
		}
		if x.t == nil {
			return true
		}
		if !types.Comparable(x.t) {
			panic(targetPanic{i.runtimeError("comparing uncomparable type " + x.t.String())})
		}
		return i.equals(x.t, x.v, yi.v)
	case rtype:
		return types.Identical(x.t, y.(rtype).t)
	case *hmap:
		return x == y.(*hmap)
	}
	panic(fmt.Sprintf("comparing uncomparable type %s (%T)", t, x))
}

// ---------------------------------------------------------------------
// load/store

// load returns the value of type T in *addr.
func load(T types.Type, addr *value) value {
	switch T := T.Underlying().(type) {
	case *types.Struct:
		v := (*addr).(structure)
		a := make(structure, len(v))
		for i := range a {
			a[i] = load(T.Field(i).Type(), &v[i])
		}
		return a
	case *types.Array:
		v := (*addr).(array)
		a := make(array, len(v))
		for i := range a {
			a[i] = load(T.Elem(), &v[i])
		}
		return a
	default:
		return *addr
	}
}

// store stores value v of type T into *addr.
func store(T types.Type, addr *value, v value) {
	switch T := T.Underlying().(type) {
	case *types.Struct:
		lhs := (*addr).(structure)
		rhs := v.(structure)
		for i := range lhs {
			store(T.Field(i).Type(), &lhs[i], rhs[i])
		}
	case *types.Array:
		lhs := (*addr).(array)
		rhs := v.(array)
		for i := range lhs {
			store(T.Elem(), &lhs[i], rhs[i])
		}
	default:
		*addr = v
	}
}

// copyVal returns a deep copy of aggregates (structs/arrays), shallow for the rest.
func copyVal(v value) value {
	switch v := v.(type) {
	case structure:
		a := make(structure, len(v))
		for i := range v {
			a[i] = copyVal(v[i])
		}
		return a
	case array:
		a := make(array, len(v))
		for i := range v {
			a[i] = copyVal(v[i])
		}
		return a
	}
	return v
}

// ---------------------------------------------------------------------
// printing

func writeValue(buf *bytes.Buffer, v value) {
	switch v := v.(type) {
	case nil, bool, int, int8, int16, int32, int64, uint, uint8, uint16, uint32, uint64, uintptr, float32, float64, complex64, complex128, string:
		fmt.Fprintf(buf, "%v", v)
	case *Sym:
		s := v.t.String()
		if len(s) > 80 {
			s = s[:80] + "…"
		}
		buf.WriteString("<" + s + ">")
	case symstr:
		buf.WriteString("\"")
		for _, e := range v.b {
			if c, ok := e.(uint8); ok {
				buf.WriteByte(c)
			} else {
				buf.WriteString("?")
			}
		}
		buf.WriteString("\"")
	case *hmap:
		buf.WriteString("map[")
		sep := ""
		if v != nil {
			for _, e := range v.entries {
				if e.deleted {
					continue
				}
				buf.WriteString(sep)
				sep = " "
				writeValue(buf, e.key)
				buf.WriteString(":")
				writeValue(buf, e.val)
			}
		}
		buf.WriteString("]")
	case *chanv:
		fmt.Fprintf(buf, "%p", v)
	case *value:
		if v == nil {
			buf.WriteString("<nil>")
		} else {
			fmt.Fprintf(buf, "%p", v)
		}
	case iface:
		fmt.Fprintf(buf, "(%s, ", v.t)
		writeValue(buf, v.v)
		buf.WriteString(")")
	case structure:
		buf.WriteString("{")
		for i, e := range v {
			if i > 0 {
				buf.WriteString(" ")
			}
			writeValue(buf, e)
		}
		buf.WriteString("}")
	case array:
		buf.WriteString("[")
		for i, e := range v {
			if i > 0 {
				buf.WriteString(" ")
			}
			writeValue(buf, e)
		}
		buf.WriteString("]")
	case []value:
		buf.WriteString("[")
		for i, e := range v {
			if i > 0 {
				buf.WriteString(" ")
			}
			writeValue(buf, e)
		}
		buf.WriteString("]")
	case *ssa.Function, *ssa.Builtin, *closure:
		fmt.Fprintf(buf, "%p", v)
	case rtype:
		buf.WriteString(v.t.String())
	case tuple:
		buf.WriteString("(")
		for i, e := range v {
			if i > 0 {
				buf.WriteString(", ")
			}
			writeValue(buf, e)
		}
		buf.WriteString(")")
	default:
		fmt.Fprintf(buf, "<%T>", v)
	}
}

func toString(v value) string {
	var b bytes.Buffer
	writeValue(&b, v)
	return b.String()
}

// ---------------------------------------------------------------------
// iterators

// stringIter iterates over runes of a string; symbolic bytes are only
// supported when they are constrained to ASCII (the interpreter forks).
type stringIter struct {
	i   *interpreter
	s   value
	pos int
}

func (it *stringIter) next() tuple {
	okv := make(tuple, 3)
	n := strLen(it.s)
	if it.pos >= n {
		okv[0] = false
		return okv
	}
	okv[0] = true
	okv[1] = it.pos
	b := strAt(it.s, it.pos)
	if c, ok := b.(uint8); ok && c < 0x80 {
		okv[2] = int32(c)
		it.pos++
		return okv
	}
	if sb, ok := b.(*Sym); ok {
		// fork: ASCII or not
		isASCII := it.i.tc.Mk("bvult", SBool, sb.t, it.i.tc.Const(SBV8, 0x80))
		if it.i.branch(unterm(isASCII, types.Bool)) {
			okv[2] = &Sym{it.i.tc.Mk("zext:24", SBV32, sb.t)}
			it.pos++
			return okv
		}
		// non-ASCII symbolic lead byte: concretize the remaining bytes needed
		c := it.i.concretize(b, types.Uint8).(uint8)
		_ = c
	}
	// concrete multi-byte decoding (concretizing symbolic continuation bytes)
	var buf []byte
	for k := it.pos; k < n && k < it.pos+4; k++ {
		buf = append(buf, it.i.concretize(strAt(it.s, k), types.Uint8).(uint8))
	}
	r, sz := decodeRune(buf)
	okv[2] = r
	it.pos += sz
	return okv
}

func decodeRune(b []byte) (int32, int) {
	for _, r := range string(b) {
		sz := len(string(r))
		if r == 0xFFFD {
			// may be an invalid encoding of width 1
			rs := []rune(string(b[:1]))
			if len(rs) == 1 && rs[0] == 0xFFFD {
				return 0xFFFD, 1
			}
		}
		return r, sz
	}
	return 0xFFFD, 1
}

type mapIter struct {
	m   *hmap
	pos int
}

func (it *mapIter) next() tuple {
	if it.m != nil {
		for it.pos < len(it.m.entries) {
			e := it.m.entries[it.pos]
			it.pos++
			if !e.deleted {
				return tuple{true, e.key, copyVal(e.val)}
			}
		}
	}
	return tuple{false, nil, nil}
}

var _ = strings.Compare
