// Command verifeng decides the properties of /verif/properties.jsonl by bounded
// symbolic execution of the real code in /repo (see /verif/DESIGN.md).
package main

import (
	"encoding/json"
	"flag"
	"fmt"
	"go/ast"
	"go/parser"
	"go/token"
	"os"
	"os/exec"
	"path/filepath"
	"runtime/debug"
	"runtime/pprof"
	"sort"
	"strconv"
	"strings"
	"time"

	"golang.org/x/tools/go/packages"
	"golang.org/x/tools/go/ssa"
	"golang.org/x/tools/go/ssa/ssautil"

	"verif/engine/symgo"
)

const verifDir = "/verif"

// repoDir is the tree under test.  VERIF_REPO_OVERRIDE points a run at a scratch copy
// (used by tools_seedcheck_wt.sh to try seeded changes while /repo stays untouched);
// such a run writes its evidence to a scratch directory, never to /verif/evidence.
var (
	repoDir     = "/repo"
	evidenceDir = filepath.Join(verifDir, "evidence")
)

type harnessSpec struct {
	Name      string
	Func      string
	PkgRel    string // package directory relative to /repo
	File      string // source file under /verif/harness
	Tiers     map[string]bool
	Bounds    string
	MaxPaths  int
	MaxSteps  int64
	MaxFanout int
	MaxSwitch int
	Prefer    string
	Reach     []string
	Stubs     [][2]string
	NoStubs   bool
	Noops     []string
	Replay    bool
	Assume    []string
	Desc      string
}

func main() {
	if pf := os.Getenv("VERIF_CPUPROFILE"); pf != "" {
		f, err := os.Create(pf)
		if err == nil {
			pprof.StartCPUProfile(f)
			defer pprof.StopCPUProfile()
		}
	}
	if v := os.Getenv("VERIF_REPO_OVERRIDE"); v != "" {
		repoDir = v
		evidenceDir = filepath.Join(os.TempDir(), "verif-evidence-override")
		os.MkdirAll(evidenceDir, 0o755)
	}
	debug.SetGCPercent(1000)
	debug.SetMemoryLimit(40 << 30)
	code := realMain()
	pprof.StopCPUProfile()
	os.Exit(code)
}

func realMain() int {
	if len(os.Args) < 2 {
		fmt.Fprintln(os.Stderr, "usage: verifeng check <property> [--tier quick|thorough] | run <harness-name> | list")
		return 2
	}
	switch os.Args[1] {
	case "check":
		return cmdCheck(os.Args[2:])
	case "list":
		specs, err := loadSpecs("")
		if err != nil {
			fmt.Fprintln(os.Stderr, err)
			return 2
		}
		for _, s := range specs {
			fmt.Printf("%s\t%s\t%s\t%v\n", s.Name, s.PkgRel, s.Func, keys(s.Tiers))
		}
	default:
		fmt.Fprintln(os.Stderr, "unknown command")
		return 2
	}
	return 0
}

func keys(m map[string]bool) []string {
	var out []string
	for k := range m {
		out = append(out, k)
	}
	sort.Strings(out)
	return out
}

// harnessFile is any Go file under /verif/harness/<prop>/ with a //verif:pkg directive.
// Files named *_sym.go are used only in the symbolic build, *_native.go only for replay.
type harnessFile struct {
	Path   string
	PkgRel string
}

var allHarnessFiles []harnessFile

// directives of all harness files of the property (they apply to every harness)
var (
	globalStubs [][2]string
	globalNoops []string
)

func forSym(path string) bool    { return !strings.HasSuffix(path, "_native.go") }
func forNative(path string) bool { return !strings.HasSuffix(path, "_sym.go") }

// loadSpecs parses the //verif: directives of the harness files of a property ("" = all).
func loadSpecs(prop string) ([]*harnessSpec, error) {
	pat := filepath.Join(verifDir, "harness", "*", "*.go")
	if prop != "" {
		pat = filepath.Join(verifDir, "harness", prop, "*.go")
	}
	files, _ := filepath.Glob(pat)
	sort.Strings(files)
	var specs []*harnessSpec
	for _, f := range files {
		if strings.Contains(f, "/api/") {
			continue
		}
		fset := token.NewFileSet()
		af, err := parser.ParseFile(fset, f, nil, parser.ParseComments)
		if err != nil {
			return nil, err
		}
		pkgRel := ""
		var fileStubs [][2]string
		var fileNoops []string
		for _, cg := range af.Comments {
			for _, c := range cg.List {
				if strings.HasPrefix(c.Text, "//verif:pkg ") {
					pkgRel = strings.TrimSpace(c.Text[len("//verif:pkg "):])
				}
				if strings.HasPrefix(c.Text, "//verif:noop ") {
					fileNoops = append(fileNoops, strings.TrimSpace(c.Text[len("//verif:noop "):]))
				}
				if strings.HasPrefix(c.Text, "//verif:stub ") {
					fs := strings.Fields(c.Text[len("//verif:stub "):])
					if len(fs) == 2 {
						fileStubs = append(fileStubs, [2]string{fs[0], fs[1]})
					}
				}
			}
		}
		if pkgRel == "" {
			return nil, fmt.Errorf("%s: missing //verif:pkg", f)
		}
		allHarnessFiles = append(allHarnessFiles, harnessFile{Path: f, PkgRel: pkgRel})
		if forSym(f) {
			globalStubs = append(globalStubs, fileStubs...)
			globalNoops = append(globalNoops, fileNoops...)
		}
		for _, d := range af.Decls {
			fd, ok := d.(*ast.FuncDecl)
			if !ok || fd.Doc == nil || fd.Recv != nil {
				continue
			}
			for _, c := range fd.Doc.List {
				if !strings.HasPrefix(c.Text, "//verif:harness ") {
					continue
				}
				s := &harnessSpec{Func: fd.Name.Name, PkgRel: pkgRel, File: f, Tiers: map[string]bool{}, Replay: true, Stubs: fileStubs, Noops: fileNoops, MaxSwitch: -1}
				for _, kv := range splitDirective(c.Text[len("//verif:harness "):]) {
					k, v, _ := strings.Cut(kv, "=")
					v = strings.Trim(v, "\"")
					switch k {
					case "name":
						s.Name = v
					case "tier":
						for _, t := range strings.Split(v, ",") {
							s.Tiers[t] = true
						}
					case "bounds":
						s.Bounds = v
					case "maxpaths":
						s.MaxPaths, _ = strconv.Atoi(v)
					case "maxsteps":
						s.MaxSteps, _ = strconv.ParseInt(v, 10, 64)
					case "fanout":
						s.MaxFanout, _ = strconv.Atoi(v)
					case "switches":
						s.MaxSwitch, _ = strconv.Atoi(v)
					case "prefer":
						s.Prefer = v
					case "reach":
						s.Reach = strings.Split(v, ",")
					case "stubs":
						s.NoStubs = v == "off"
					case "replay":
						s.Replay = v != "off"
					case "desc":
						s.Desc = v
					}
				}
				for _, c2 := range fd.Doc.List {
					if strings.HasPrefix(c2.Text, "//verif:assume ") {
						s.Assume = append(s.Assume, strings.TrimSpace(c2.Text[len("//verif:assume "):]))
					}
				}
				if s.Name == "" {
					s.Name = fd.Name.Name
				}
				if len(s.Tiers) == 0 {
					s.Tiers["quick"] = true
					s.Tiers["thorough"] = true
				}
				specs = append(specs, s)
			}
		}
	}
	return specs, nil
}

func splitDirective(s string) []string {
	var out []string
	var cur strings.Builder
	inq := false
	for _, r := range s {
		switch {
		case r == '"':
			inq = !inq
			cur.WriteRune(r)
		case r == ' ' && !inq:
			if cur.Len() > 0 {
				out = append(out, cur.String())
				cur.Reset()
			}
		default:
			cur.WriteRune(r)
		}
	}
	if cur.Len() > 0 {
		out = append(out, cur.String())
	}
	return out
}

type scratch struct {
	dir string
	env []string
}

func newScratch() (*scratch, error) {
	dir, err := os.MkdirTemp("", "verifeng-")
	if err != nil {
		return nil, err
	}
	work := "go 1.23.4\n\nuse (\n\t" + repoDir + "\n\t" + repoDir + "/internal/dnsserver\n)\n"
	if err := os.WriteFile(filepath.Join(dir, "go.work"), []byte(work), 0o644); err != nil {
		return nil, err
	}
	if b, err := os.ReadFile(filepath.Join(repoDir, "go.work.sum")); err == nil {
		os.WriteFile(filepath.Join(dir, "go.work.sum"), b, 0o644)
	}
	env := []string{}
	for _, e := range os.Environ() {
		if strings.HasPrefix(e, "GOFLAGS=") || strings.HasPrefix(e, "GOWORK=") || strings.HasPrefix(e, "GOPROXY=") || strings.HasPrefix(e, "GOSUMDB=") || strings.HasPrefix(e, "GOTOOLCHAIN=") {
			continue
		}
		env = append(env, e)
	}
	env = append(env, "GOFLAGS=", "GOWORK="+filepath.Join(dir, "go.work"), "GOPROXY=off", "GOSUMDB=off", "GOTOOLCHAIN=local")
	return &scratch{dir: dir, env: env}, nil
}

func (s *scratch) cleanup() { os.RemoveAll(s.dir) }

// pkgName returns the package clause name of a directory in /repo.
func pkgNameOf(rel string) (string, error) {
	files, _ := filepath.Glob(filepath.Join(repoDir, rel, "*.go"))
	for _, f := range files {
		if strings.HasSuffix(f, "_test.go") {
			continue
		}
		fset := token.NewFileSet()
		af, err := parser.ParseFile(fset, f, nil, parser.PackageClauseOnly)
		if err == nil {
			return af.Name.Name, nil
		}
	}
	return "", fmt.Errorf("no Go files in %s", rel)
}

func apiSource(kind, pkg string) ([]byte, error) {
	b, err := os.ReadFile(filepath.Join(verifDir, "harness", "api", "api_"+kind+".go.txt"))
	if err != nil {
		return nil, err
	}
	return []byte(strings.Replace(string(b), "package PKG", "package "+pkg, 1)), nil
}

type loaded struct {
	prog *ssa.Program
	pkgs map[string]*ssa.Package // by rel dir
	errs []string
}

func loadProgram(sc *scratch, specs []*harnessSpec) (*loaded, error) {
	overlay := map[string][]byte{}
	rels := map[string]bool{}
	for _, s := range specs {
		rels[s.PkgRel] = true
	}
	for _, hf := range allHarnessFiles {
		if !forSym(hf.Path) {
			continue
		}
		rels[hf.PkgRel] = true
		src, err := os.ReadFile(hf.Path)
		if err != nil {
			return nil, err
		}
		overlay[filepath.Join(repoDir, hf.PkgRel, "zz_verif_"+filepath.Base(hf.Path))] = src
	}
	// sibling harness files of the same property dir that target the same packages (helpers)
	var patterns []string
	for rel := range rels {
		name, err := pkgNameOf(rel)
		if err != nil {
			return nil, err
		}
		api, err := apiSource("sym", name)
		if err != nil {
			return nil, err
		}
		overlay[filepath.Join(repoDir, rel, "zz_verif_api.go")] = api
		patterns = append(patterns, "./"+rel)
	}
	sort.Strings(patterns)
	cfg := &packages.Config{
		Mode:    packages.LoadAllSyntax,
		Dir:     repoDir,
		Env:     sc.env,
		Overlay: overlay,
	}
	pkgs, err := packages.Load(cfg, patterns...)
	if err != nil {
		return nil, err
	}
	ld := &loaded{pkgs: map[string]*ssa.Package{}}
	packages.Visit(pkgs, nil, func(p *packages.Package) {
		for _, e := range p.Errors {
			ld.errs = append(ld.errs, e.Error())
		}
	})
	if len(ld.errs) > 0 {
		return ld, nil
	}
	prog, spkgs := ssautil.AllPackages(pkgs, ssa.InstantiateGenerics|ssa.SanityCheckFunctions&0)
	prog.Build()
	ld.prog = prog
	for k, p := range pkgs {
		for rel := range rels {
			if strings.HasSuffix(p.PkgPath, strings.TrimPrefix(rel, "internal/dnsserver")) && dirOf(p) == filepath.Join(repoDir, rel) {
				ld.pkgs[rel] = spkgs[k]
			}
		}
	}
	return ld, nil
}

func dirOf(p *packages.Package) string {
	if len(p.GoFiles) > 0 {
		return filepath.Dir(p.GoFiles[0])
	}
	return ""
}

type evidence struct {
	PropertyID string                 `json:"property_id"`
	Tier       string                 `json:"tier"`
	Seed       int64                  `json:"seed"`
	Level      string                 `json:"level"`
	Coverage   map[string]interface{} `json:"coverage"`
	Assumes    []string               `json:"assumptions"`
	WallS      float64                `json:"wall_s"`
	Violations int                    `json:"violations"`
}

type knownFinding struct {
	Prop, Harness, Label, Text string
}

func loadKnown() []knownFinding {
	b, err := os.ReadFile(filepath.Join(verifDir, "known_findings.txt"))
	if err != nil {
		return nil
	}
	var out []knownFinding
	for _, line := range strings.Split(string(b), "\n") {
		line = strings.TrimSpace(line)
		if !strings.HasPrefix(line, "known:") {
			continue // "fixed:" lines and comments suppress nothing
		}
		kf := knownFinding{Text: line}
		for _, f := range strings.Fields(line) {
			k, v, ok := strings.Cut(f, "=")
			if !ok {
				continue
			}
			switch k {
			case "property":
				kf.Prop = v
			case "harness":
				kf.Harness = v
			case "label":
				kf.Label = v
			}
		}
		out = append(out, kf)
	}
	return out
}

func cmdCheck(args []string) int {
	fs := flag.NewFlagSet("check", flag.ExitOnError)
	tier := fs.String("tier", "quick", "quick or thorough")
	only := fs.String("only", "", "run only the named harness")
	trace := fs.Bool("trace", false, "trace instructions")
	workers := fs.Int("workers", 0, "worker count")
	noReplay := fs.Bool("no-replay", false, "skip native replay")
	oneScript := fs.String("script", "", "run only this decision script (debug)")
	if len(args) < 1 {
		fmt.Fprintln(os.Stderr, "usage: verifeng check <property> [--tier t]")
		return 2
	}
	prop := args[0]
	fs.Parse(args[1:])
	if t := os.Getenv("VERIF_TIER"); t != "" && !flagSet(fs, "tier") {
		*tier = t
	}
	seed := int64(0)
	if s := os.Getenv("VERIF_SEED"); s != "" {
		seed, _ = strconv.ParseInt(s, 10, 64)
	}
	start := time.Now()
	specs, err := loadSpecs(prop)
	if err != nil {
		fmt.Fprintln(os.Stderr, "INCONCLUSIVE spec error:", err)
		return 2
	}
	var sel []*harnessSpec
	for _, s := range specs {
		if !s.Tiers[*tier] {
			continue
		}
		if *only != "" && s.Name != *only {
			continue
		}
		sel = append(sel, s)
	}
	if len(sel) == 0 {
		fmt.Fprintln(os.Stderr, "INCONCLUSIVE no harness for", prop, "tier", *tier)
		return 2
	}
	sc, err := newScratch()
	if err != nil {
		fmt.Fprintln(os.Stderr, "INCONCLUSIVE scratch:", err)
		return 2
	}
	defer sc.cleanup()
	t0 := time.Now()
	ld, err := loadProgram(sc, specs)
	if err != nil {
		fmt.Fprintln(os.Stderr, "INCONCLUSIVE load error:", err)
		return 2
	}
	if len(ld.errs) > 0 {
		fmt.Fprintln(os.Stderr, "INCONCLUSIVE harness-mismatch: the harness no longer type-checks against /repo:")
		for _, e := range ld.errs {
			fmt.Fprintln(os.Stderr, "  ", e)
		}
		return 2
	}
	loadDur := time.Since(t0)
	fmt.Fprintf(os.Stderr, "loaded and built SSA in %.1fs\n", loadDur.Seconds())

	eng := symgo.NewEngine(ld.prog)
	eng.Seed = seed
	eng.Trace = *trace
	if *workers > 0 {
		eng.Workers = *workers
	}
	if *tier == "thorough" {
		eng.Timeout = 180 * time.Second
	}
	for _, p := range []string{"unicode", "github.com/miekg/dns", "golang.org/x/net/idna", "golang.org/x/net/publicsuffix", "unicode/utf8", "strconv", "math/bits", "golang.org/x/text/unicode/norm", "golang.org/x/text/unicode/bidi", "golang.org/x/text/secure/bidirule", "encoding/hex", "encoding/base64", "encoding/binary"} {
		eng.SharedInitPkgs[p] = true
	}

	// packages with lazily initialised package-level tables (sync.Once + map writes)
	// must not share their globals between the paths explored in parallel
	for _, p := range []string{"net/textproto", "net/http", "mime"} {
		eng.FreshInitPkgs[p] = true
	}

	known := loadKnown()
	exit := 0
	var reports []*symgo.HarnessReport
	allAssume := []string{"engine: go/ssa interpreter with symbolic scalars; the native models listed in DESIGN.md section 2 (time, errors, fmt, hashes as uninterpreted functions, sync primitives, no-op logging and metrics) and the SMT solvers are trusted"}
	totalViol := 0
	inconclusive := false
	if (*tier == "thorough" || os.Getenv("VERIF_NATIVE_BUILD") != "") && !*noReplay && *oneScript == "" {
		// the native replay variant of every harness package must build, so that a
		// witness can be confirmed when one turns up
		built := map[string]bool{}
		for _, s := range sel {
			if built[s.PkgRel] || !s.Replay {
				continue
			}
			built[s.PkgRel] = true
			_, out := nativeReplay(sc, s, specs, symgo.Violation{Label: "none"}, "")
			if strings.Contains(out, "build failed") || strings.Contains(out, "cannot find") || !strings.Contains(out, "ok ") {
				fmt.Fprintf(os.Stderr, "  problem: native replay build of %s failed:\n%s\n", s.PkgRel, firstLines(out, 20))
				inconclusive = true
			}
		}
	}
	for _, s := range sel {
		pkg := ld.pkgs[s.PkgRel]
		if pkg == nil {
			fmt.Fprintf(os.Stderr, "INCONCLUSIVE package %s not loaded\n", s.PkgRel)
			return 2
		}
		fn := pkg.Func(s.Func)
		if fn == nil {
			fmt.Fprintf(os.Stderr, "INCONCLUSIVE harness function %s not found\n", s.Func)
			return 2
		}
		for _, st := range globalStubs {
			orig := findFunc(ld.prog, st[0])
			var repl *ssa.Function
			for _, p := range ld.pkgs {
				if f := p.Func(st[1]); f != nil {
					repl = f
					if orig != nil {
						eng.Stub(orig, f)
					}
				}
			}
			if orig == nil || repl == nil {
				fmt.Fprintf(os.Stderr, "INCONCLUSIVE harness-mismatch: stub %s -> %s not resolvable\n", st[0], st[1])
				return 2
			}
			eng.Stub(orig, repl)
		}
		for _, n := range globalNoops {
			eng.NoopFuncs[n] = true
		}
		h := &symgo.Harness{Name: s.Name, Fn: fn, Bounds: s.Bounds, MaxPaths: s.MaxPaths, MaxSteps: s.MaxSteps, MaxFanout: s.MaxFanout,
			MaxSwitches: s.MaxSwitch, NoStubs: s.NoStubs, PreferInt: s.Prefer == "int", PreferCVC5: s.Prefer == "cvc5", Reach: s.Reach, Tier: *tier}
		if *oneScript != "" {
			res := eng.RunScript(h, *oneScript)
			fmt.Printf("status=%s msg=%s\nscript=%v\nreached=%v\nobs=%v\n", res.Status, res.Msg, res.Script, res.Reached, res.Observation)
			for _, v := range res.Violations {
				fmt.Printf("violation %s %s %s\n", v.Label, v.Detail, inputsString(v.Inputs))
			}
			return 0
		}
		rep := eng.Explore(h)
		rep.Assumptions = s.Assume
		reports = append(reports, rep)
		allAssume = append(allAssume, prefixAll(s.Name+": ", s.Assume)...)
		fmt.Fprintf(os.Stderr, "harness %-28s paths=%d done=%d infeasible=%d decisions=%d asserts=%d viol=%d unknown=%d exhaustive=%v wall=%.1fs\n",
			s.Name, rep.Paths, rep.Done, rep.Infeasible, rep.Decisions, rep.Asserts, len(rep.Violations), rep.Unknowns, rep.Exhaustive, rep.Wall.Seconds())
		for _, p := range rep.Problems {
			fmt.Fprintln(os.Stderr, "  problem:", firstLines(p, 12))
			inconclusive = true
		}
		if rep.Unknowns > 0 {
			fmt.Fprintf(os.Stderr, "  %d solver queries returned unknown: reduced bound / inconclusive\n", rep.Unknowns)
			inconclusive = true
		}
		for _, l := range rep.ReachMissing {
			fmt.Fprintf(os.Stderr, "  vacuity: reachability witness %q not reached\n", l)
			inconclusive = true
		}
		if os.Getenv("VERIF_VALIDATE") != "0" && s.Replay && !*noReplay && *oneScript == "" && len(rep.Violations) == 0 {
			ok, bad := validateTraces(sc, s, specs, rep)
			tracesValidated += ok
			for _, b := range bad {
				if *tier == "thorough" {
					fmt.Fprintln(os.Stderr, "  problem: trace validation: "+b)
					inconclusive = true
				} else {
					// the quick tier reports a divergence without failing on it (native
					// runs of threaded harnesses depend on the host's scheduler)
					fmt.Fprintln(os.Stderr, "  note: trace validation: "+b)
					traceMismatches++
				}
			}
		}
		for _, v := range rep.Violations {
			kf := matchKnown(known, prop, s.Name, v.Label)
			// replay
			replayPath := filepath.Join(verifDir, "replays", fmt.Sprintf("%s-%s-%s.json", prop, s.Name, sanitize(v.Label)))
			os.MkdirAll(filepath.Dir(replayPath), 0o755)
			writeJSON(replayPath, map[string]interface{}{"property": prop, "harness": s.Name, "func": s.Func, "pkg": s.PkgRel, "label": v.Label, "inputs": v.Inputs, "script": v.Script, "detail": v.Detail, "observations": v.Obs})
			confirmed := true
			note := ""
			if s.Replay && !*noReplay {
				cands := append([]symgo.Violation{v}, rep.AltViolations[v.Label]...)
				// prefer witnesses that use the least scheduling / wake-up freedom
				sort.SliceStable(cands, func(a, b int) bool {
					sa, sb := engineChoiceScore(cands[a].Script), engineChoiceScore(cands[b].Script)
					if sa != sb {
						return sa < sb
					}
					return len(cands[a].Script) < len(cands[b].Script)
				})
				for ci, cv := range cands {
					writeJSON(replayPath, map[string]interface{}{"property": prop, "harness": s.Name, "func": s.Func, "pkg": s.PkgRel, "label": cv.Label, "inputs": cv.Inputs, "script": cv.Script, "detail": cv.Detail, "observations": cv.Obs})
					ok, out := nativeReplay(sc, s, specs, cv, replayPath)
					confirmed = ok
					if ok {
						v = cv
						break
					}
					if ci == 0 {
						note = out
					}
				}
			}
			if !confirmed {
				fmt.Printf("INCONCLUSIVE replay-mismatch property=%s harness=%s label=%s (counterexample did not reproduce natively; engine or stub defect)\n", prop, s.Name, v.Label)
				fmt.Fprintln(os.Stderr, firstLines(note, 40))
				inconclusive = true
				continue
			}
			if kf != nil {
				fmt.Printf("KNOWN-FINDING: property=%s harness=%s label=%s %s\n", prop, s.Name, v.Label, kf.Text)
				continue
			}
			totalViol++
			fmt.Printf("VIOLATION property=%s replay=%s\n", prop, replayPath)
			fmt.Printf("  harness=%s label=%s detail=%s inputs=%s\n", s.Name, v.Label, v.Detail, inputsString(v.Inputs))
			exit = 1
		}
	}
	// evidence
	ev := buildEvidence(prop, *tier, seed, eng, reports, allAssume, time.Since(start), totalViol, loadDur)
	os.MkdirAll(evidenceDir, 0o755)
	writeJSON(filepath.Join(evidenceDir, prop+".json"), ev)
	if exit == 0 && inconclusive {
		fmt.Println("INCONCLUSIVE property=" + prop + " (see stderr)")
		return 2
	}
	if exit == 0 {
		fmt.Printf("OK property=%s tier=%s harnesses=%d wall=%.1fs\n", prop, *tier, len(sel), time.Since(start).Seconds())
	}
	return exit
}

// nativeBins caches the native replay test binary per harness package.
var nativeBins = map[string]string{}

// nativeBinary builds (once) a test binary of the native variant of the harness
// package of s in which every harness function of that package can be selected with
// VERIF_HARNESS.
// overlayOtherPackages adds the native harness files (and the native API) of the
// other packages of this property, so that a harness may use exported helpers that
// another package's harness file provides.
func overlayOtherPackages(dir string, repl map[string]string, own string) error {
	done := map[string]bool{own: true}
	for _, hf := range allHarnessFiles {
		if hf.PkgRel == own || !forNative(hf.Path) {
			continue
		}
		sub := "o_" + strings.ReplaceAll(hf.PkgRel, "/", "_")
		dst := filepath.Join(dir, sub+"_"+filepath.Base(hf.Path))
		b, err := os.ReadFile(hf.Path)
		if err != nil {
			return err
		}
		os.WriteFile(dst, b, 0o644)
		repl[filepath.Join(repoDir, hf.PkgRel, "zz_verif_"+filepath.Base(hf.Path))] = dst
		if !done[hf.PkgRel] {
			done[hf.PkgRel] = true
			name, err := pkgNameOf(hf.PkgRel)
			if err != nil {
				return err
			}
			api, err := apiSource("native", name)
			if err != nil {
				return err
			}
			ap := filepath.Join(dir, sub+"_api.go")
			os.WriteFile(ap, api, 0o644)
			repl[filepath.Join(repoDir, hf.PkgRel, "zz_verif_api.go")] = ap
		}
	}
	return nil
}

func nativeBinary(sc *scratch, s *harnessSpec, all []*harnessSpec) (string, string) {
	if b, ok := nativeBins[s.PkgRel]; ok {
		return b, ""
	}
	name, err := pkgNameOf(s.PkgRel)
	if err != nil {
		return "", err.Error()
	}
	dir, err := os.MkdirTemp(sc.dir, "nativebin-")
	if err != nil {
		return "", err.Error()
	}
	repl := map[string]string{}
	for _, hf := range allHarnessFiles {
		if hf.PkgRel != s.PkgRel || !forNative(hf.Path) {
			continue
		}
		dst := filepath.Join(dir, "h_"+filepath.Base(hf.Path))
		b, _ := os.ReadFile(hf.Path)
		os.WriteFile(dst, b, 0o644)
		repl[filepath.Join(repoDir, s.PkgRel, "zz_verif_"+filepath.Base(hf.Path))] = dst
	}
	api, err := apiSource("native", name)
	if err != nil {
		return "", err.Error()
	}
	apiPath := filepath.Join(dir, "api.go")
	os.WriteFile(apiPath, api, 0o644)
	repl[filepath.Join(repoDir, s.PkgRel, "zz_verif_api.go")] = apiPath
	if err := overlayOtherPackages(dir, repl, s.PkgRel); err != nil {
		return "", err.Error()
	}
	var reg strings.Builder
	seen := map[string]bool{}
	for _, o := range all {
		if o.PkgRel == s.PkgRel && !seen[o.Func] {
			seen[o.Func] = true
			fmt.Fprintf(&reg, "\t%q: %s,\n", o.Func, o.Func)
		}
	}
	test := fmt.Sprintf("package %s\n\nimport (\n\t\"os\"\n\t\"testing\"\n)\n\nvar verifHarnessFuncs = map[string]func(){\n%s}\n\nfunc TestVerifReplay(t *testing.T) {\n\tverifReplayMain(t, verifHarnessFuncs[os.Getenv(\"VERIF_HARNESS\")])\n}\n", name, reg.String())
	testPath := filepath.Join(dir, "replay_test.go")
	os.WriteFile(testPath, []byte(test), 0o644)
	repl[filepath.Join(repoDir, s.PkgRel, "zz_verif_replay_test.go")] = testPath
	if goroot, err := exec.Command("go", "env", "GOROOT").Output(); err == nil {
		tp := filepath.Join(strings.TrimSpace(string(goroot)), "src", "time", "time.go")
		if src, err := os.ReadFile(tp); err == nil && strings.Contains(string(src), "\nfunc Now() Time {") {
			mod := strings.Replace(string(src), "\nfunc Now() Time {", "\n// VerifNowHook is installed by /verif replay harnesses.\nvar VerifNowHook func() Time\n\nfunc Now() Time {\n\tif VerifNowHook != nil {\n\t\treturn VerifNowHook()\n\t}\n\treturn verifRealNow()\n}\n\nfunc verifRealNow() Time {", 1)
			tdst := filepath.Join(dir, "time.go")
			os.WriteFile(tdst, []byte(mod), 0o644)
			repl[tp] = tdst
		}
	}
	ov := filepath.Join(dir, "overlay.json")
	writeJSON(ov, map[string]interface{}{"Replace": repl})
	bin := filepath.Join(dir, "replay.test")
	cmd := exec.Command("go", "test", "-vet=off", "-c", "-o", bin, "-overlay", ov, ".")
	cmd.Dir = filepath.Join(repoDir, s.PkgRel)
	cmd.Env = append([]string{}, sc.env...)
	out, err := cmd.CombinedOutput()
	if err != nil {
		return "", "native build failed: " + firstLines(string(out), 20)
	}
	nativeBins[s.PkgRel] = bin
	return bin, ""
}

// validateTraces replays the reachability witnesses of a harness against the real
// build: the native run must reach the same label without any assertion failing.
// Witnesses that use scheduling freedom or symbolic-only fault injection are skipped.
func validateTraces(sc *scratch, s *harnessSpec, all []*harnessSpec, rep *symgo.HarnessReport) (ok int, bad []string) {
	var todo []symgo.Sample
	for _, sm := range rep.Samples {
		if engineChoiceScore(sm.Script) == 0 {
			todo = append(todo, sm)
		}
	}
	if len(todo) == 0 {
		return 0, nil
	}
	bin, msg := nativeBinary(sc, s, all)
	if bin == "" {
		return 0, []string{msg}
	}
	for k, sm := range todo {
		rp := filepath.Join(filepath.Dir(bin), fmt.Sprintf("trace-%s-%d.json", sanitize(s.Name), k))
		writeJSON(rp, map[string]interface{}{"harness": s.Name, "func": s.Func, "label": sm.Label, "inputs": sm.Inputs, "script": sm.Script})
		cmd := exec.Command(bin, "-test.run", "^TestVerifReplay$", "-test.count=1", "-test.timeout", "120s")
		cmd.Dir = filepath.Join(repoDir, s.PkgRel)
		cmd.Env = append(append([]string{}, sc.env...), "VERIF_REPLAY="+rp, "VERIF_HARNESS="+s.Func)
		out, _ := cmd.CombinedOutput()
		txt := string(out)
		if !strings.Contains(txt, "VERIF-REPLAY-REACH "+sm.Label+"\n") {
			// once more: native runs of threaded harnesses depend on the host scheduler
			cmd2 := exec.Command(bin, "-test.run", "^TestVerifReplay$", "-test.count=1", "-test.timeout", "120s")
			cmd2.Dir, cmd2.Env = cmd.Dir, cmd.Env
			out, _ = cmd2.CombinedOutput()
			txt = string(out)
		}
		reached := strings.Contains(txt, "VERIF-REPLAY-REACH "+sm.Label+"\n")
		failed := strings.Contains(txt, "VERIF-REPLAY-FAIL")
		if i := strings.Index(txt, "VERIF-REPLAY-REACH "+sm.Label+"\n"); i >= 0 {
			failed = strings.Contains(txt[:i], "VERIF-REPLAY-FAIL")
		}
		switch {
		case reached && !failed:
			ok++
		case strings.Contains(txt, "VERIF-REPLAY-ASSUME-FAILED") && !reached:
			// the witness prefix ends before an assumption that the default values of
			// the remaining inputs do not satisfy: not comparable
		default:
			bad = append(bad, fmt.Sprintf("%s: witness of %q does not reproduce natively (reached=%v failed=%v) script=%q\n%s", s.Name, sm.Label, reached, failed, sm.Script, firstLines(txt, 12)))
		}
	}
	return ok, bad
}

// engineChoiceScore sums the engine-made choices ("c<n>") of a decision script:
// 0 means no preemption and FIFO wake-ups throughout.
func engineChoiceScore(script string) int {
	n := 0
	for _, f := range strings.Fields(script) {
		if strings.HasPrefix(f, "c") || strings.HasPrefix(f, "s") {
			var v int
			fmt.Sscanf(f[1:], "%d", &v)
			n += v
		}
	}
	return n
}

func flagSet(fs *flag.FlagSet, name string) bool {
	found := false
	fs.Visit(func(f *flag.Flag) {
		if f.Name == name {
			found = true
		}
	})
	return found
}

func prefixAll(p string, xs []string) []string {
	out := make([]string, len(xs))
	for i, x := range xs {
		out[i] = p + x
	}
	return out
}

func firstLines(s string, n int) string {
	ls := strings.Split(s, "\n")
	if len(ls) > n {
		ls = ls[:n]
	}
	return strings.Join(ls, "\n")
}

func sanitize(s string) string {
	var sb strings.Builder
	for _, r := range s {
		if r >= 'a' && r <= 'z' || r >= 'A' && r <= 'Z' || r >= '0' && r <= '9' || r == '-' || r == '_' {
			sb.WriteRune(r)
		} else {
			sb.WriteByte('_')
		}
	}
	return sb.String()
}

func inputsString(in []symgo.NondetValue) string {
	var sb strings.Builder
	for k, v := range in {
		if k > 0 {
			sb.WriteByte(',')
		}
		fmt.Fprintf(&sb, "%s=%d", v.Name, v.Value)
		if k > 40 {
			sb.WriteString(",…")
			break
		}
	}
	return sb.String()
}

func matchKnown(known []knownFinding, prop, harness, label string) *knownFinding {
	for k := range known {
		kf := &known[k]
		if kf.Prop == prop && kf.Harness == harness && kf.Label == label {
			return kf
		}
	}
	return nil
}

func writeJSON(path string, v interface{}) {
	b, _ := json.MarshalIndent(v, "", " ")
	os.WriteFile(path, append(b, '\n'), 0o644)
}

func findFunc(prog *ssa.Program, name string) *ssa.Function {
	for fn := range ssautil.AllFunctions(prog) {
		if fn.String() == name {
			return fn
		}
	}
	return nil
}

var tracesValidated, traceMismatches int

func buildEvidence(prop, tier string, seed int64, eng *symgo.Engine, reports []*symgo.HarnessReport, assumes []string, wall time.Duration, viol int, loadDur time.Duration) *evidence {
	var paths, decisions, asserts, steps int64
	exhaustive := true
	var samples []interface{}
	funcs := map[string]int{}
	var bounds []string
	harnesses := []map[string]interface{}{}
	validated := tracesValidated
	for _, r := range reports {
		paths += r.Paths
		decisions += r.Decisions
		asserts += r.Asserts
		steps += r.Steps
		if !r.Exhaustive {
			exhaustive = false
		}
		for _, s := range r.Samples {
			if len(samples) < 12 {
				samples = append(samples, map[string]interface{}{"harness": r.Name, "reached": s.Label, "inputs": compactInputs(s.Inputs), "script": s.Script})
			}
		}
		for f, n := range r.Funcs {
			funcs[f] = n
		}
		bounds = append(bounds, r.Name+": "+r.Bounds)
		harnesses = append(harnesses, map[string]interface{}{
			"name": r.Name, "paths": r.Paths, "completed": r.Done, "infeasible": r.Infeasible, "decisions": r.Decisions,
			"assertions_checked": r.Asserts, "violations": len(r.Violations), "exhaustive": r.Exhaustive, "wall_s": r.Wall.Seconds(),
			"reach_witnesses": len(r.Reached), "problems": r.Problems,
		})
	}
	if len(samples) == 0 {
		samples = append(samples, map[string]interface{}{"note": "no reachability witness recorded"})
	}
	var fl []string
	for f, n := range funcs {
		if strings.Contains(f, "AdGuardDNS") || strings.Contains(f, "miekg") || strings.Contains(f, "golibs") {
			fl = append(fl, fmt.Sprintf("%s (%d instrs)", f, n))
		}
	}
	sort.Strings(fl)
	st := &eng.Stats
	cov := map[string]interface{}{
		"states":                        maxI(paths, 1),
		"transitions":                   maxI(decisions, 1),
		"traces_validated_against_impl": validated,
		"trace_validation_mismatches":   traceMismatches,
		"samples":                       samples,
		"exhaustive":                    exhaustive,
		"paths_explored":                paths,
		"assertions_checked":            asserts,
		"ssa_instructions_executed":     steps,
		"functions_encoded":             fl,
		"functions_encoded_total":       len(funcs),
		"bounds":                        bounds,
		"harnesses":                     harnesses,
		"queries":                       st.Queries,
		"queries_sat":                   st.SatN,
		"queries_unsat":                 st.UnsatN,
		"queries_unknown":               st.UnknownN,
		"solver_s":                      float64(st.Nanos) / 1e9,
		"solver_backends":               map[string]int64{"z3-4.8.12": st.ByBackend[0], "z3-5.1.0": st.ByBackend[1], "cvc5-1.0": st.ByBackend[2], "cvc5-bv-as-int": st.ByBackend[3]},
		"load_ssa_s":                    loadDur.Seconds(),
		"explanation":                   "bounded symbolic execution of the real SSA of /repo (regenerated on this run); states = explored paths, transitions = branch/choice decisions; every assertion is an SMT query over all inputs within the stated bounds",
		"trusted_base":                  []string{"go/ssa lowering (x/tools v0.29.0)", "symgo interpreter and its native models (see DESIGN.md 2.4)", "z3 4.8.12 / z3 5.1.0 / cvc5 1.0"},
	}
	return &evidence{PropertyID: prop, Tier: tier, Seed: seed, Level: "model_checking", Coverage: cov, Assumes: assumes, WallS: wall.Seconds(), Violations: viol}
}

func maxI(a, b int64) int64 {
	if a > b {
		return a
	}
	return b
}

func compactInputs(in []symgo.NondetValue) string { return inputsString(in) }

// nativeReplay compiles the harness natively (go test -overlay) and runs it with the witness.
func nativeReplay(sc *scratch, s *harnessSpec, all []*harnessSpec, v symgo.Violation, replayPath string) (bool, string) {
	name, err := pkgNameOf(s.PkgRel)
	if err != nil {
		return false, err.Error()
	}
	dir, err := os.MkdirTemp(sc.dir, "replay-")
	if err != nil {
		return false, err.Error()
	}
	repl := map[string]string{}
	// harness files for this package
	for _, hf := range allHarnessFiles {
		if hf.PkgRel != s.PkgRel || !forNative(hf.Path) {
			continue
		}
		dst := filepath.Join(dir, "h_"+filepath.Base(hf.Path))
		b, _ := os.ReadFile(hf.Path)
		os.WriteFile(dst, b, 0o644)
		repl[filepath.Join(repoDir, s.PkgRel, "zz_verif_"+filepath.Base(hf.Path))] = dst
	}
	api, err := apiSource("native", name)
	if err != nil {
		return false, err.Error()
	}
	apiPath := filepath.Join(dir, "api.go")
	os.WriteFile(apiPath, api, 0o644)
	repl[filepath.Join(repoDir, s.PkgRel, "zz_verif_api.go")] = apiPath
	if err := overlayOtherPackages(dir, repl, s.PkgRel); err != nil {
		return false, err.Error()
	}
	test := fmt.Sprintf(`package %s

import "testing"

func TestVerifReplay(t *testing.T) {
	verifReplayMain(t, %s)
}
`, name, s.Func)
	testPath := filepath.Join(dir, "replay_test.go")
	os.WriteFile(testPath, []byte(test), 0o644)
	repl[filepath.Join(repoDir, s.PkgRel, "zz_verif_replay_test.go")] = testPath
	// hook time.Now so that verifSetClock works natively
	if goroot, err := exec.Command("go", "env", "GOROOT").Output(); err == nil {
		tp := filepath.Join(strings.TrimSpace(string(goroot)), "src", "time", "time.go")
		if src, err := os.ReadFile(tp); err == nil && strings.Contains(string(src), "\nfunc Now() Time {") {
			mod := strings.Replace(string(src), "\nfunc Now() Time {", "\n// VerifNowHook is installed by /verif replay harnesses.\nvar VerifNowHook func() Time\n\nfunc Now() Time {\n\tif VerifNowHook != nil {\n\t\treturn VerifNowHook()\n\t}\n\treturn verifRealNow()\n}\n\nfunc verifRealNow() Time {", 1)
			tdst := filepath.Join(dir, "time.go")
			os.WriteFile(tdst, []byte(mod), 0o644)
			repl[tp] = tdst
		}
	}
	ov := filepath.Join(dir, "overlay.json")
	writeJSON(ov, map[string]interface{}{"Replace": repl})
	cmd := exec.Command("go", "test", "-vet=off", "-count=1", "-run", "^TestVerifReplay$", "-overlay", ov, "-timeout", "600s", ".")
	cmd.Dir = filepath.Join(repoDir, s.PkgRel)
	cmd.Env = append(append([]string{}, sc.env...), "VERIF_REPLAY="+replayPath)
	out, _ := cmd.CombinedOutput()
	txt := string(out)
	want := "VERIF-REPLAY-FAIL label=" + v.Label
	if strings.Contains(txt, want+"\n") || strings.Contains(txt, want+" ") {
		return true, txt
	}
	return false, txt
}
