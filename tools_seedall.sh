#!/bin/sh
# Applies every stored seeded change (and every reverted fix) in turn and reports
# whether the quick check of its property catches it.
for d in /verif/seeded/C*/; do
  n=$(basename $d); prop=$(echo $n | cut -c1-3)
  r=$(/verif/tools_seedcheck.sh $prop $d/patch.diff quick 2>&1 | grep -E "^VIOLATION|exit=" | tr '\n' ' ' | cut -c1-160)
  echo "$n $r"
done
