#!/bin/sh
# Applies every stored seeded change (and every reverted fix) in turn and reports
# whether the quick check of its property catches it.  SEEDCHECK=wt uses the scratch
# worktree variant (tools_seedcheck_wt.sh), which leaves /repo untouched.
tool=/verif/tools_seedcheck.sh
[ "$SEEDCHECK" = wt ] && tool=/verif/tools_seedcheck_wt.sh
# SEEDS="C01 C02" restricts the run to the seeds of these properties.
for d in /verif/seeded/C*/; do
  if [ -n "$SEEDS" ]; then case " $SEEDS " in *" $(basename $d | cut -c1-3) "*) ;; *) continue;; esac; fi
  n=$(basename $d); prop=$(echo $n | cut -c1-3)
  r=$($tool $prop $d/patch.diff quick 2>&1 | grep -E "^VIOLATION|exit=" | tr '\n' ' ' | cut -c1-160)
  echo "$n $r"
done
for f in /verif/seeded/reverted-fixes/*.diff; do
  prop=$(basename $f | cut -d- -f1)
  if [ -n "$SEEDS" ]; then case " $SEEDS " in *" $prop "*) ;; *) continue;; esac; fi
  r=$($tool $prop $f quick 2>&1 | grep -E "^VIOLATION|exit=" | tr '\n' ' ' | cut -c1-160)
  echo "revert-$(basename $f .diff) $r"
done
